"""Reference model for C14 (pin words).  No permuta import, no shared code.

A pin word is a string over {1,2,3,4,U,L,D,R}.  It describes a sequence of points ("pins")
p_1 .. p_n placed one after the other around an origin p_0:

  numeral q      : an *independent* pin, placed in quadrant q (1 = NE, 2 = NW, 3 = SW, 4 = SE)
                   beyond the bounding box of everything placed so far (p_0 included);
  direction U/D  : a *separating* pin, above/below everything placed so far, horizontally between
                   the previous pin and all points placed before the previous pin;
  direction L/R  : likewise, left/right of everything, vertically between the previous pin and
                   all earlier points.

Only relative order matters, so a configuration is kept as two lists of point ids (0 = origin,
i = i-th pin): the ids sorted by x and the ids sorted by y.  Placing a pin is an insertion into
both lists.  `encode` goes the other way (geometry -> word) straight from the definitions of
"independent" and "separating"; encode(decode(w)) == w is checked by the harness as a self test
of this file.
"""
from __future__ import annotations

import itertools

QUADS = "1234"
DIRS = "ULDR"
VERT = "UD"
HORI = "LR"
ALPHABET = QUADS + DIRS


# --------------------------------------------------------------------------------------------
# grammar
# --------------------------------------------------------------------------------------------

def is_pinword(w):
    """First letter a numeral; never two vertical letters in a row, never two horizontal ones."""
    if w == "":
        return True
    if w[0] not in QUADS:
        return False
    for a, b in zip(w, w[1:]):
        if a in VERT and b in VERT:
            return False
        if a in HORI and b in HORI:
            return False
    return all(c in ALPHABET for c in w)


def words_by_filter(n):
    """All pin words of length n: every one of the 8^n strings, filtered by the grammar."""
    return ["".join(t) for t in itertools.product(ALPHABET, repeat=n) if is_pinword("".join(t))]


def is_strict(w):
    return w != "" and w[0] in QUADS and all(c in DIRS for c in w[1:])


def is_m_word(w):
    """Words of M: directions only, axes alternate."""
    if not all(c in DIRS for c in w):
        return False
    return all((a in VERT) != (b in VERT) for a, b in zip(w, w[1:]))


def m_words(n):
    return ["".join(t) for t in itertools.product(DIRS, repeat=n) if is_m_word("".join(t))]


def factors(w):
    """Numeral-led factorisation: cut in front of every numeral."""
    out = []
    for c in w:
        if c in QUADS or not out:
            out.append(c)
        else:
            out[-1] += c
    return out


# --------------------------------------------------------------------------------------------
# word -> geometry
# --------------------------------------------------------------------------------------------

class BadWord(ValueError):
    pass


def place(xs, ys, i, c):
    """Insert pin number i, described by the letter c, into the x-order xs and the y-order ys (in
    place).  Raises BadWord if the letter cannot be placed as described."""
    if c in QUADS:
        if c in "14":
            xs.append(i)
        else:
            xs.insert(0, i)
        if c in "12":
            ys.append(i)
        else:
            ys.insert(0, i)
        return
    if c not in DIRS:
        raise BadWord("letter %r" % c)
    prev = i - 1
    if prev == 0:
        raise BadWord("direction letter first")
    # the axis on which the new pin lies *between* prev and everything earlier
    between, beyond = (xs, ys) if c in VERT else (ys, xs)
    pos = between.index(prev)
    if pos == len(between) - 1:
        between.insert(pos, i)          # prev is the largest: new pin just below it
    elif pos == 0:
        between.insert(1, i)            # prev is the smallest: new pin just above it
    else:
        raise BadWord("previous pin cannot be separated from the earlier points by %r" % c)
    if c in "UR":
        beyond.append(i)
    else:
        beyond.insert(0, i)


def decode(w):
    """(xs, ys): point ids 0..n sorted by x and by y.  Raises BadWord if a letter cannot be
    placed as described."""
    xs, ys = [0], [0]
    for i, c in enumerate(w, start=1):
        place(xs, ys, i, c)
    return xs, ys


def perm_from_orders(xs, ys):
    yr = {pid: k for k, pid in enumerate(p for p in ys if p != 0)}
    return tuple(yr[p] for p in xs if p != 0)


def ranks(order):
    r = [0] * len(order)
    for k, pid in enumerate(order):
        r[pid] = k
    return r


def perm_of(w):
    """The permutation of the pins (origin dropped): read left to right, value = rank by height."""
    xs, ys = decode(w)
    yr = {pid: k for k, pid in enumerate(p for p in ys if p != 0)}
    return tuple(yr[p] for p in xs if p != 0)


def quadrant_of(xr, yr, i):
    """Quadrant of point i relative to the origin (ranks xr, yr)."""
    east, north = xr[i] > xr[0], yr[i] > yr[0]
    return {(True, True): "1", (False, True): "2", (False, False): "3", (True, False): "4"}[(east, north)]


def quadrants(w):
    xs, ys = decode(w)
    xr, yr = ranks(xs), ranks(ys)
    return [quadrant_of(xr, yr, i) for i in range(1, len(w) + 1)]


# --------------------------------------------------------------------------------------------
# geometry -> word  (independent of decode: uses only the definitions)
# --------------------------------------------------------------------------------------------

def encode(xr, yr):
    """Pin word of the point sequence 0..n given by rank (or any coordinate) lists xr, yr; None if
    the sequence is not a pin sequence in the above sense."""
    n = len(xr) - 1
    out = []
    for i in range(1, n + 1):
        ex = [xr[j] for j in range(i)]
        ey = [yr[j] for j in range(i)]
        right, left = xr[i] > max(ex), xr[i] < min(ex)
        up, down = yr[i] > max(ey), yr[i] < min(ey)
        if (right or left) and (up or down):
            out.append({(True, True): "1", (False, True): "2", (False, False): "3",
                        (True, False): "4"}[(right, up)])
            continue
        if i < 2 or not (right or left or up or down):
            return None
        # separating pin: on the other axis strictly between p_{i-1} and ALL of p_0..p_{i-2}
        if up or down:
            cur, prev, earlier = xr[i], xr[i - 1], [xr[j] for j in range(i - 1)]
        else:
            cur, prev, earlier = yr[i], yr[i - 1], [yr[j] for j in range(i - 1)]
        if not (prev < cur < min(earlier) or max(earlier) < cur < prev):
            return None
        out.append("U" if up else "D" if down else "R" if right else "L")
    return "".join(out)


# --------------------------------------------------------------------------------------------
# occurrences of a pin word u in a pin word w
# --------------------------------------------------------------------------------------------

def _std(seq):
    s = sorted(seq)
    return tuple(s.index(v) for v in seq)


def shape(w):
    """The pointed configuration of w: relative x-order and y-order of (origin, p_1, .., p_n)."""
    xs, ys = decode(w)
    return tuple(ranks(xs)), tuple(ranks(ys))


def placements(n, lens):
    """All tuples of start positions for consecutive non-overlapping factors of the given lengths
    inside a word of length n (factors may touch), in lexicographic order."""
    def rec(j, lo):
        if j == len(lens):
            yield ()
            return
        rest = sum(lens[j + 1:])
        for s in range(lo, n - lens[j] - rest + 1):
            for tail in rec(j + 1, s + lens[j]):
                yield (s,) + tail
    return list(rec(0, 0))


def selected(starts, lens):
    return [s + d for s, l in zip(starts, lens) for d in range(l)]


def geometric_occurrences(w, u):
    """Factor positions (one start per numeral-led factor of u, factors in order, not overlapping)
    such that the origin of w together with the pins of w at the covered positions is
    order-isomorphic, point by point, to the origin of u together with all pins of u."""
    lens = [len(f) for f in factors(u)]
    xr, yr = shape(w)
    target = shape(u)
    out = []
    for st in placements(len(w), lens):
        ids = [0] + [k + 1 for k in selected(st, lens)]
        if (_std([xr[i] for i in ids]), _std([yr[i] for i in ids])) == target:
            out.append(st)
    return out


def letter_occurrences(w, u, gap, q=None):
    """The factor-by-factor test, stated on letters.  A factor f of u sits at position s of w if
    the pin of w at s lies in the quadrant f[0] (relative to the origin) and is followed by the
    letters f[1:].  gap=True additionally demands, for every factor after the first, that a factor
    sitting on a direction letter of w does not touch the previous factor (source paper);
    gap=False lets them touch (behaviour of the implementation at the time of writing: the
    deviation model of the known finding)."""
    fs = factors(u)
    if q is None:
        q = quadrants(w)
    n = len(w)

    def rec(j, lo):
        if j == len(fs):
            yield ()
            return
        f = fs[j]
        for s in range(lo, n - len(f) + 1):
            if q[s] != f[0] or w[s + 1:s + len(f)] != f[1:]:
                continue
            if gap and j > 0 and w[s] in DIRS and s == lo:
                continue
            for tail in rec(j + 1, s + len(f)):
                yield (s,) + tail
    return list(rec(0, 0))


# --------------------------------------------------------------------------------------------
# classical containment on tuples (combinations + standardisation)
# --------------------------------------------------------------------------------------------

def patterns_of(p):
    """Every pattern contained in the permutation p (as tuples), all lengths 0..len(p)."""
    out = set()
    n = len(p)
    for k in range(n + 1):
        for idx in itertools.combinations(range(n), k):
            out.add(_std([p[i] for i in idx]))
    return out


# --------------------------------------------------------------------------------------------
# long periodic words ("scale" family) and permutation-level ground truth at those lengths
# --------------------------------------------------------------------------------------------

def alternating_periods():
    """Every primitive period of length 2 or 4 of a run of direction letters (axes alternate, also
    across the seam): 8 zigzags (UR, RU, ...), 8 spirals (URDL, ULDR, ... and their rotations) and
    the 16 other words of length 4 (URDR, URUL, ...)."""
    out = set()
    for t in itertools.product(DIRS, repeat=4):
        w = "".join(t)
        if is_m_word(w + w[0]):
            out.add(w[:2] if w[:2] == w[2:] else w)
    return sorted(out, key=lambda x: (len(x), x))


def is_spiral(period):
    return len(period) == 4 and len(set(period)) == 4


def contains_perm(big, small):
    """Classical containment, depth first over the positions of big."""
    k, n = len(small), len(big)

    def place(chosen):
        j = len(chosen)
        if j == k:
            return True
        lo = chosen[-1] + 1 if chosen else 0
        for i in range(lo, n - (k - j) + 1):
            if all((big[i] < big[c]) == (small[j] < small[a]) for a, c in enumerate(chosen)):
                if place(chosen + [i]):
                    return True
        return False
    return place([])


def pin_words_of_perm(perm):
    """All pin words whose permutation is perm: letter by letter; a prefix of a pin word of perm
    describes some of its pins, so its permutation must be one of the patterns of perm (all
    2^n sub-sequences, standardised)."""
    perm = tuple(perm)
    pats = patterns_of(perm)
    n = len(perm)
    res = []

    def extend(word, xs, ys):
        if len(word) == n:
            res.append(word)
            return
        for c in ALPHABET:
            nxt = word + c
            if not is_pinword(nxt):
                continue
            xs2, ys2 = list(xs), list(ys)
            place(xs2, ys2, len(nxt), c)
            if perm_from_orders(xs2, ys2) in pats:
                extend(nxt, xs2, ys2)
    extend("", [0], [0])
    return res
