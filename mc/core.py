"""Shared plumbing of the model-checking harness: context, evidence, violations, known findings,
deterministic sharding over worker processes.

Conventions every check module (mc/checks/cXX.py) follows
---------------------------------------------------------
    PROPERTY = "C01"
    LEVEL    = "model_checking" | "exploration"
    def run(ctx): ...            # explores; calls ctx.violation(...) / ctx.add(...)
    def replay(ctx, rec): ...    # re-executes ONE recorded case without the explorer;
                                 # must call ctx.violation again iff it still fails

A *case* is a small JSON-able description of one explored input / history / schedule.
A violation is reported with a *signature*.  If the signature is listed (status "open") in
/verif/known_findings.json, it is printed as KNOWN-FINDING and does not fail the run.
Signatures of known findings are only assigned by a check when the implementation's wrong
answer coincides with the *deviation model* of that finding (see DESIGN.md section 3).
"""
from __future__ import annotations

import hashlib
import json
import multiprocessing
import os
import shutil
import sys
import time
import traceback

VERIF = os.path.dirname(os.path.dirname(os.path.abspath(__file__)))
REPO = os.environ.get("VERIF_REPO", "/repo")
NPROC = int(os.environ.get("VERIF_NPROC", "16"))


def jsonable(x):
    """Best-effort conversion of explored objects into JSON-able data (for samples/replays)."""
    if isinstance(x, (str, int, float, bool)) or x is None:
        return x
    if isinstance(x, dict):
        return {str(k): jsonable(v) for k, v in x.items()}
    if isinstance(x, (set, frozenset)):
        try:
            return [jsonable(v) for v in sorted(x)]
        except TypeError:
            return sorted((jsonable(v) for v in x), key=repr)
    if isinstance(x, (list, tuple)):
        return [jsonable(v) for v in x]
    if isinstance(x, BaseException):
        return "%s: %s" % (type(x).__name__, x)
    return repr(x)


class Partial:
    """What one shard (worker call) reports back; merged into the Ctx by the parent."""

    __slots__ = ("evals", "nontrivial", "viols", "nviol", "samples", "counters", "outcomes")
    MAXV = 40

    def __init__(self):
        self.evals = 0
        self.nontrivial = 0
        self.viols = []          # list of dict(sub, sig, case, detail)
        self.nviol = 0
        self.samples = []
        self.counters = {}
        self.outcomes = set()

    def add(self, n=1, nontrivial=0):
        self.evals += n
        self.nontrivial += nontrivial

    def bump(self, key, n=1):
        self.counters[key] = self.counters.get(key, 0) + n

    def sample(self, s, cap=3):
        if len(self.samples) < cap:
            self.samples.append(jsonable(s))

    def violation(self, sub, case, detail=None, sig=None):
        """Record a violation.  Records WITH a signature (known-finding candidates) are counted in
        full but only a few representatives per signature are stored, so that thousands of hits
        of one known finding can never crowd out a fresh (unsigned) violation."""
        self.nviol += 1
        if sig is not None:
            self.bump("sig:" + sig)
            if sum(1 for v in self.viols if v["sig"] == sig) >= 2:
                return
        elif sum(1 for v in self.viols if v["sig"] is None) >= self.MAXV:
            return
        self.viols.append({"sub": sub, "sig": sig, "case": jsonable(case),
                           "detail": jsonable(detail)})


def _load_known():
    path = os.path.join(VERIF, "known_findings.json")
    try:
        with open(path) as fh:
            data = json.load(fh)
    except FileNotFoundError:
        data = {}
    out = list(data.get("findings", []))
    # development only: fragments proposed by check authors, merged by hand into the file above
    import glob
    for frag in sorted(glob.glob(os.path.join(VERIF, "kf_proposed", "*.json"))):
        with open(frag) as fh:
            out.extend(json.load(fh).get("findings", []))
    return out


class Ctx(Partial):
    """Per-run context.  Also a Partial, so single-process checks use the same calls."""

    __slots__ = ("prop", "tier", "seed", "level", "t0", "bounds", "caps", "assumptions",
                 "rule", "states", "transitions", "traces", "extra", "work", "_sections",
                 "exhaustive", "replaying")

    def __init__(self, prop, tier, seed, level):
        super().__init__()
        self.prop, self.tier, self.seed, self.level = prop, tier, seed, level
        self.t0 = time.time()
        self.bounds = {}
        self.caps = []
        self.assumptions = []
        self.rule = ""
        self.states = 0
        self.transitions = 0
        self.traces = 0
        self.extra = {}
        self._sections = []
        self.exhaustive = True
        self.replaying = False
        self.work = os.path.join(VERIF, ".work", "%s-%d" % (prop, os.getpid()))
        os.makedirs(self.work, exist_ok=True)

    @property
    def quick(self):
        return self.tier == "quick"

    # ---- bookkeeping ---------------------------------------------------------------
    def merge(self, part: Partial):
        self.evals += part.evals
        self.nontrivial += part.nontrivial
        self.nviol += part.nviol
        for v in part.viols:
            if v["sig"] is not None:
                if sum(1 for w in self.viols if w["sig"] == v["sig"]) < 3:
                    self.viols.append(v)
            elif sum(1 for w in self.viols if w["sig"] is None) < 400:
                self.viols.append(v)
        for s in part.samples:
            if len(self.samples) < 12:
                self.samples.append(s)
        for k, n in part.counters.items():
            self.counters[k] = self.counters.get(k, 0) + n
        self.outcomes |= part.outcomes

    def section(self, name, **info):
        """Record a finished sub-exploration (shown in evidence under coverage.sections)."""
        info = dict(info)
        info["name"] = name
        info["t"] = round(time.time() - self.t0, 2)
        self._sections.append(jsonable(info))
        log("  [%s] %s %s" % (self.prop, name,
                              " ".join("%s=%s" % kv for kv in info.items() if kv[0] not in ("name",))))

    def cap(self, what):
        """Declare that a cap was hit: the run is then never called exhaustive."""
        self.caps.append(what)
        self.exhaustive = False

    def rotate(self, seq):
        """Seed-dependent rotation of an enumeration order (the *set* explored never changes)."""
        seq = list(seq)
        if not seq:
            return seq
        k = self.seed % len(seq)
        return seq[k:] + seq[:k]

    # ---- parallel map --------------------------------------------------------------
    def pmap(self, func, shards, nproc=None):
        """Run func(shard) -> Partial for every shard in forked workers; merge the results.
        Extra return values: func may return (Partial, payload); payloads are returned as a list
        in shard order."""
        shards = list(shards)
        order = self.rotate(range(len(shards)))
        payloads = [None] * len(shards)
        nproc = nproc or NPROC
        if nproc <= 1 or len(shards) <= 1 or os.environ.get("VERIF_SERIAL"):
            for i in order:
                res = func(shards[i])
                payloads[i] = self._take(res)
            return payloads
        mp = multiprocessing.get_context("fork")
        with mp.Pool(min(nproc, len(shards)), initializer=_worker_init) as pool:
            jobs = [(i, pool.apply_async(_guarded, (func, shards[i]))) for i in order]
            for i, job in jobs:
                res = job.get()
                if isinstance(res, _WorkerError):
                    raise RuntimeError("worker failed on shard %r:\n%s" % (shards[i], res.tb))
                payloads[i] = self._take(res)
        return payloads

    def _take(self, res):
        if isinstance(res, tuple):
            part, payload = res
        else:
            part, payload = res, None
        if part is not None:
            self.merge(part)
        return payload


def _worker_init():
    """Forked workers inherit permuta's process-wide multiprocessing.Lock, which lives in shared
    memory: sixteen single-threaded workers would serialise on ONE semaphore.  Give every worker
    its own lock of the same kind (the workers are independent processes exploring disjoint
    shards; nothing is shared between them on purpose)."""
    mod = sys.modules.get("permuta.perm_sets.permset")
    av = getattr(mod, "Av", None) if mod is not None else None
    # looked up in the class dictionary: attribute access could run library code (a descriptor
    # that creates the lock lazily) and so change the state the checks start from
    lock = vars(av).get("_CACHE_LOCK") if av is not None else None
    if lock is not None and type(lock).__module__.startswith("multiprocessing"):
        try:
            av._CACHE_LOCK = type(lock)(ctx=multiprocessing.get_context("fork")) \
                if type(lock).__module__.startswith("multiprocessing") else type(lock)()
        except Exception:  # noqa
            pass


class _WorkerError:
    def __init__(self, tb):
        self.tb = tb


def _guarded(func, shard):
    try:
        return func(shard)
    except BaseException as exc:  # noqa
        tb = traceback.extract_tb(exc.__traceback__)
        inner = os.path.abspath(tb[-1].filename) if tb else ""
        if inner.startswith(os.path.join(os.path.abspath(REPO), "permuta") + os.sep):
            part = Partial()
            part.violation("uncaught-library-exception",
                           {"shard": jsonable(shard),
                            "traceback": traceback.format_exc().splitlines()[-12:]},
                           detail=repr(exc))
            return part
        return _WorkerError(traceback.format_exc())


def log(msg):
    sys.stderr.write(msg + "\n")
    sys.stderr.flush()


# ---- finishing a run: replay files, known findings, evidence, exit status ---------------

def _digest(obj):
    return hashlib.sha256(json.dumps(obj, sort_keys=True).encode()).hexdigest()[:16]


def finish(ctx: Ctx, write_evidence=True):
    known = [k for k in _load_known() if k.get("property") == ctx.prop]
    open_sigs = {k["signature"]: k for k in known if k.get("status") == "open"}
    seen_known = {}
    fresh = []
    for v in ctx.viols:
        if v["sig"] in open_sigs:
            seen_known.setdefault(v["sig"], v)
        else:
            fresh.append(v)
    lines = []
    for sig, v in sorted(seen_known.items()):
        k = open_sigs[sig]
        n = ctx.counters.get("sig:" + sig)
        lines.append("KNOWN-FINDING: property=%s %s [%s]%s" % (
            ctx.prop, k["what"], sig, "" if n is None else " (%d cases in this run)" % n))
    replays = []
    if fresh:
        rdir = os.path.join(VERIF, "replays", ctx.prop)
        os.makedirs(rdir, exist_ok=True)
        bysig = {}
        for v in fresh:
            bysig.setdefault((v["sub"], v["sig"]), v)   # first = simplest (simplest-first order)
        for (sub, sig), v in list(bysig.items())[:20]:
            rec = {"property": ctx.prop, "sub": sub, "signature": sig, "case": v["case"],
                   "detail": v["detail"], "tier": ctx.tier, "seed": ctx.seed}
            path = os.path.join(rdir, _digest([ctx.prop, sub, sig, v["case"]]) + ".json")
            with open(path, "w") as fh:
                json.dump(rec, fh, indent=1, sort_keys=True)
            replays.append((path, v))
    wall = time.time() - ctx.t0
    if write_evidence:
        cov = {
            "evaluations": ctx.evals,
            "distinct_nontrivial": ctx.nontrivial,
            "rule": ctx.rule,
            "samples": ctx.samples[:12] or ["(no sample recorded)"],
            "exhaustive": bool(ctx.exhaustive and not ctx.caps),
            "bounds": jsonable(ctx.bounds),
            "caps_hit": ctx.caps,
            "sections": ctx._sections,
            "counters": {k: v for k, v in sorted(ctx.counters.items())},
            "distinct_outcomes": len(ctx.outcomes),
            "known_findings_seen": sorted(seen_known),
            "repo": REPO,
        }
        if ctx.level == "model_checking":
            cov["states"] = ctx.states
            cov["transitions"] = ctx.transitions
            cov["traces_validated_against_impl"] = ctx.traces
        cov.update(jsonable(ctx.extra))
        ev = {
            "property_id": ctx.prop,
            "tier": ctx.tier,
            "seed": ctx.seed,
            "level": ctx.level,
            "coverage": cov,
            "assumptions": ctx.assumptions,
            "wall_s": round(wall, 2),
            "violations": (ctx.nviol - sum(ctx.counters.get("sig:" + s, 0)
                                            for s in seen_known)) if fresh else 0,
        }
        # evidence proper only describes runs against /repo itself; a run against another copy
        # (VERIF_REPO=<mutant worktree>) must never overwrite it
        edir = os.path.join(VERIF, "evidence") if os.path.abspath(REPO) == "/repo" \
            else os.path.join(VERIF, ".work", "evidence-other-repo")
        os.makedirs(edir, exist_ok=True)
        tmp = os.path.join(edir, ".%s.json.%d" % (ctx.prop, os.getpid()))
        with open(tmp, "w") as fh:
            json.dump(ev, fh, indent=1, sort_keys=True)
        os.replace(tmp, os.path.join(edir, "%s.json" % ctx.prop))
    for ln in lines:
        print(ln)
    for path, v in replays:
        print("VIOLATION property=%s replay=%s" % (ctx.prop, path))
        log("    sub=%s sig=%s case=%s detail=%s" % (
            v["sub"], v["sig"], json.dumps(v["case"])[:300], json.dumps(v["detail"])[:600]))
    print("%s %s: %s  evaluations=%d nontrivial=%d states=%d transitions=%d violations=%d known=%d wall=%.1fs" % (
        ctx.prop, ctx.tier, "FAIL" if fresh else "ok", ctx.evals, ctx.nontrivial, ctx.states,
        ctx.transitions, len(fresh), len(seen_known), wall))
    shutil.rmtree(ctx.work, ignore_errors=True)
    return 1 if fresh else 0
