"""Reference code for C20 (plain tuples / dicts, no permuta import, nothing shared with the library).

1. The twelve named properties of the shipped BiSC data sets, each written from its definition:
   a real stack, the quicksort pass stated through strong fixed points, vincular adjacency for
   Baxter, restriction-to-{0..k-1} for simsun, Greene's theorem for the tableau shapes, cycle
   parity for the alternating group, i -> (k +- i) mod n for the dihedral group.
2. Finite automata over {U, L, D, R} as plain (initial, finals, transitions) triples with an implicit
   dead state, and exact language comparison by breadth-first search over the product.
"""
from __future__ import annotations

import collections
import itertools

# --------------------------------------------------------------------------------------------
# sorting devices
# --------------------------------------------------------------------------------------------


def stack_pass(seq):
    """One pass through a stack: before pushing x pop everything smaller than x."""
    stack, out = [], []
    for x in seq:
        while stack and stack[-1] < x:
            out.append(stack.pop())
        stack.append(x)
    while stack:
        out.append(stack.pop())
    return out


def is_sorted(seq):
    return all(seq[i] < seq[i + 1] for i in range(len(seq) - 1))


def stack_sortable(p):
    return is_sorted(stack_pass(p))


def west_2_stack_sortable(p):
    return is_sorted(stack_pass(stack_pass(p)))


def strong_fixed_points(seq):
    """Positions i such that everything to the left is smaller and everything to the right larger."""
    return [i for i in range(len(seq))
            if all(seq[j] < seq[i] for j in range(i)) and all(seq[j] > seq[i] for j in range(i + 1, len(seq)))]


def quick_pass(seq):
    """One pass of the quicksort operator: strong fixed points stay; every maximal block without
    a strong fixed point is partitioned around its first element (order otherwise kept)."""
    seq = list(seq)
    sfp = set(strong_fixed_points(seq))
    out, block = [], []

    def flush():
        if block:
            piv = block[0]
            out.extend([x for x in block if x < piv] + [piv] + [x for x in block if x > piv])
            del block[:]

    for i, x in enumerate(seq):
        if i in sfp:
            flush()
            out.append(x)
        else:
            block.append(x)
    flush()
    return out


def quick_sortable(p):
    return is_sorted(quick_pass(p))


# --------------------------------------------------------------------------------------------
# pattern-defined families (direct index loops; mesh conditions spelled out)
# --------------------------------------------------------------------------------------------


def _occ(p, patt):
    """Occurrences (index tuples) of a classical pattern, by definition."""
    k = len(patt)
    for idx in itertools.combinations(range(len(p)), k):
        vals = [p[i] for i in idx]
        if all((vals[a] < vals[b]) == (patt[a] < patt[b]) for a in range(k) for b in range(a + 1, k)):
            yield idx


def avoids_classical(p, patt):
    for _ in _occ(p, patt):
        return False
    return True


def _box_empty(p, idx, patt, cell):
    """Is the cell (x, y) of the grid through the occurrence idx empty?  x = number of occurrence
    points to the left, y = number of occurrence points below."""
    cx, cy = cell
    vals = sorted(p[i] for i in idx)
    lo_i = idx[cx - 1] if cx > 0 else -1
    hi_i = idx[cx] if cx < len(idx) else len(p)
    lo_v = vals[cy - 1] if cy > 0 else -1
    hi_v = vals[cy] if cy < len(vals) else len(p)
    return not any(lo_v < p[i] < hi_v for i in range(lo_i + 1, hi_i))


def avoids_mesh(p, patt, cells):
    for idx in _occ(p, patt):
        if all(_box_empty(p, idx, patt, c) for c in cells):
            return False
    return True


def smooth(p):
    """As the library documents it: 0213- and 1032-avoiding."""
    return avoids_classical(p, (0, 2, 1, 3)) and avoids_classical(p, (1, 0, 3, 2))


def forest_like(p):
    """Avoids 0213 and the barred pattern 1 0 (2-bar) 3 2: every occurrence of 1032 has a point
    between its two middle positions whose value lies between its two middle values."""
    return avoids_classical(p, (0, 2, 1, 3)) and avoids_mesh(p, (1, 0, 3, 2), [(2, 2)])


def baxter(p):
    """No 2-41-3 and no 3-14-2 (the two middle letters adjacent in position)."""
    n = len(p)
    for b in range(n - 1):
        hi, lo = p[b], p[b + 1]
        if hi > lo:      # 2-41-3 : a < b, c > b+1, lo < p[a] < p[c] < hi
            for a in range(b):
                for c in range(b + 2, n):
                    if lo < p[a] < p[c] < hi:
                        return False
        else:            # 3-14-2 : p[b] < p[c] < p[a] < p[b+1]
            for a in range(b):
                for c in range(b + 2, n):
                    if hi < p[c] < p[a] < lo:
                        return False
    return True


def simsun(p):
    """For every k the subword of the values 0..k-1 has no double descent."""
    n = len(p)
    for k in range(3, n + 1):
        w = [v for v in p if v < k]
        if any(w[i] > w[i + 1] > w[i + 2] for i in range(len(w) - 2)):
            return False
    return True


def av_231_and_mesh(p):
    if not avoids_classical(p, (1, 2, 0)):
        return False
    return avoids_mesh(p, (0, 1, 5, 2, 3, 4), [(1, 6), (4, 5), (4, 6)])


# --------------------------------------------------------------------------------------------
# groups
# --------------------------------------------------------------------------------------------


def dihedral(p):
    """Symmetries of the regular n-gon for n >= 3: rotations i -> i+k and reflections i -> k-i
    (mod n).  For n < 3 there is no polygon; the library documents a convention there, so the
    reference declines to answer (None)."""
    n = len(p)
    if n < 3:
        return None
    for k in range(n):
        if all(p[i] == (i + k) % n for i in range(n)):
            return True
        if all(p[i] == (k - i) % n for i in range(n)):
            return True
    return False


def in_alternating_group(p):
    """Even permutations (n - number of cycles even).  For n < 3 the library documents a convention
    of its own, so the reference declines to answer (None)."""
    n = len(p)
    if n < 3:
        return None
    seen, cycles = [False] * n, 0
    for i in range(n):
        if not seen[i]:
            cycles += 1
            j = i
            while not seen[j]:
                seen[j] = True
                j = p[j]
    return (n - cycles) % 2 == 0


# --------------------------------------------------------------------------------------------
# tableau shapes
# --------------------------------------------------------------------------------------------


def rsk_shape(p):
    """Shape of the insertion tableau (textbook row insertion)."""
    rows = []
    for x in p:
        r = 0
        while True:
            if r == len(rows):
                rows.append([x])
                break
            row = rows[r]
            j = next((j for j, y in enumerate(row) if y > x), None)
            if j is None:
                row.append(x)
                break
            row[j], x = x, row[j]
            r += 1
    return [len(r) for r in rows]


def greene_two_rows(p):
    """(lambda1, lambda2) by Greene's theorem: lambda1 = longest increasing subsequence,
    lambda1 + lambda2 = largest subsequence without a decreasing subsequence of length 3.
    Brute force over index subsets, largest first."""
    n = len(p)

    def best(forbidden_len):
        for size in range(n, -1, -1):
            for idx in itertools.combinations(range(n), size):
                w = [p[i] for i in idx]
                if not any(all(w[c[i]] > w[c[i + 1]] for i in range(forbidden_len - 1))
                           for c in itertools.combinations(range(size), forbidden_len)):
                    return size
        return 0

    l1 = best(2)
    return l1, best(3) - l1


def shape_contains(shape, sub):
    return len(shape) >= len(sub) and all(s <= t for s, t in zip(sub, shape))


def yt_perm_avoids_22(p):
    return not shape_contains(rsk_shape(p), [2, 2])


def yt_perm_avoids_32(p):
    return not shape_contains(rsk_shape(p), [3, 2])


NAMED = {
    "Baxter": baxter,
    "SimSun": simsun,
    "West_2_stack_sortable": west_2_stack_sortable,
    "av_231_and_mesh": av_231_and_mesh,
    "dihedral": dihedral,
    "forest_like": forest_like,
    "in_alternating_group": in_alternating_group,
    "quick_sortable": quick_sortable,
    "smooth": smooth,
    "stack_sortable": stack_sortable,
    "yt_perm_avoids_22": yt_perm_avoids_22,
    "yt_perm_avoids_32": yt_perm_avoids_32,
}


def selftest(maxn=6):
    """Internal consistency of the reference: second, independent characterisations.
    Returns a list of disagreements (empty when fine)."""
    bad = []
    for n in range(maxn + 1):
        for p in itertools.permutations(range(n)):
            if stack_sortable(p) != avoids_classical(p, (1, 2, 0)):
                bad.append(("stack_sortable vs Av(231)", p))
            sh = rsk_shape(p)
            if n <= 5:
                l1, l2 = greene_two_rows(p)
                if (sh + [0, 0])[:2] != [l1, l2]:
                    bad.append(("rsk vs greene", p))
            if baxter(p) != (avoids_mesh(p, (1, 3, 0, 2), [(2, y) for y in range(5)])
                             and avoids_mesh(p, (2, 0, 3, 1), [(2, y) for y in range(5)])):
                bad.append(("baxter vincular vs column-shaded mesh", p))
            # a double descent x > y > z of the restriction to the values <= x: nothing smaller
            # than x between the three positions
            if simsun(p) != avoids_mesh(p, (2, 1, 0), [(1, 0), (1, 1), (1, 2), (2, 0), (2, 1), (2, 2)]):
                bad.append(("simsun restriction vs mesh with both columns shaded below the top", p))
            d = dihedral(p)
            if d is not None:
                # a dihedral symmetry maps cyclically adjacent points to cyclically adjacent points
                adj = all((p[(i + 1) % n] - p[i]) % n in (1, n - 1) for i in range(n))
                if d != adj:
                    bad.append(("dihedral vs adjacency preservation", p))
            a = in_alternating_group(p)
            if a is not None:
                inv = sum(1 for i in range(n) for j in range(i + 1, n) if p[i] > p[j])
                if a != (inv % 2 == 0):
                    bad.append(("parity: cycles vs inversions", p))
    return bad


# --------------------------------------------------------------------------------------------
# automata
# --------------------------------------------------------------------------------------------

SIGMA = "ULDR"
DEAD = ("dead",)


def step(aut, q, a):
    """aut = (initial, frozenset finals, {state: {letter: state}}); missing transition = dead."""
    if q is DEAD:
        return DEAD
    return aut[2].get(q, {}).get(a, DEAD)


def accepts(aut, word):
    q = aut[0]
    for a in word:
        q = step(aut, q, a)
    return q is not DEAD and q in aut[1]


def difference_word(x, auts):
    """Shortest word on which x and the UNION of the automata in `auts` disagree, or None when
    L(x) = union of L(a).  Breadth-first search over reachable state tuples."""
    start = (x[0],) + tuple(a[0] for a in auts)
    seen = {start: ""}
    queue = collections.deque([start])
    while queue:
        tup = queue.popleft()
        w = seen[tup]
        acc_x = tup[0] is not DEAD and tup[0] in x[1]
        acc_u = any(q is not DEAD and q in a[1] for q, a in zip(tup[1:], auts))
        if acc_x != acc_u:
            return w
        for c in SIGMA:
            nxt = (step(x, tup[0], c),) + tuple(step(a, q, c) for q, a in zip(tup[1:], auts))
            if nxt not in seen:
                seen[nxt] = w + c
                queue.append(nxt)
    return None
