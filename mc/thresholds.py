"""Size thresholds that the code under test itself names.

A 'fast path for long inputs', a cache capacity or a table size is a literal in the source:
`if len(perm) > _LONG`, `maxsize=10000`, `1 << 16`, `range(2, 33)`.  The scale families of the checks
take their sizes from the runtime's thresholds (8/9, 32/33, 256/257, 2**53, recursion limit) AND from
these literals, read from the tree under test - so a threshold introduced by a change is
straddled without touching the check.

    code_constants(repo) -> sorted ints   every integer >= 8 (and <= cap) that occurs in the package as a
                                          literal, as a constant-folded expression of literals
                                          (1 << 16, 2 ** 10, 4 * 128) or as maxsize=...
    sizes_around(cs, lo, hi)              {c-1, c, c+1, c+2 : c in cs} within [lo, hi]
"""
from __future__ import annotations

import ast
import os
import sys


def _fold(node):
    """Value of an expression made of integer literals and + - * // << ** only, else None."""
    if isinstance(node, ast.Constant) and isinstance(node.value, int) and not isinstance(node.value, bool):
        return node.value
    if isinstance(node, ast.UnaryOp) and isinstance(node.op, ast.USub):
        v = _fold(node.operand)
        return -v if v is not None else None
    if isinstance(node, ast.BinOp):
        a, b = _fold(node.left), _fold(node.right)
        if a is None or b is None:
            return None
        try:
            if isinstance(node.op, ast.Add):
                return a + b
            if isinstance(node.op, ast.Sub):
                return a - b
            if isinstance(node.op, ast.Mult):
                return a * b
            if isinstance(node.op, ast.FloorDiv) and b:
                return a // b
            if isinstance(node.op, ast.LShift) and 0 <= b < 80:
                return a << b
            if isinstance(node.op, ast.Pow) and 0 <= b < 80 and abs(a) < 1 << 16:
                return a ** b
        except Exception:  # noqa
            return None
    return None


def code_constants(repo, package="permuta", cap=1 << 20, skip_dirs=("tests", "resources")):
    out = set()
    root = os.path.join(os.path.abspath(repo), package)
    for dp, dn, fns in os.walk(root):
        dn[:] = [d for d in dn if d not in skip_dirs]
        for f in fns:
            if not f.endswith(".py"):
                continue
            try:
                tree = ast.parse(open(os.path.join(dp, f)).read())
            except SyntaxError:
                continue
            stack = [tree]
            while stack:
                node = stack.pop()
                if isinstance(node, (ast.Tuple, ast.List, ast.Set)) and len(node.elts) > 4:
                    continue            # data tables (patterns written out), not thresholds
                v = _fold(node) if isinstance(node, (ast.Constant, ast.BinOp)) else None
                if v is not None:
                    if 8 <= v <= cap:
                        out.add(v)
                    continue
                stack.extend(ast.iter_child_nodes(node))
    out.add(sys.getrecursionlimit())
    out.add(sys.getrecursionlimit() // 2)
    return sorted(out)


def sizes_around(cs, lo, hi):
    return sorted({c + d for c in cs for d in (-1, 0, 1, 2) if lo <= c + d <= hi})


if __name__ == "__main__":
    cs = code_constants(sys.argv[1] if len(sys.argv) > 1 else "/repo")
    print(cs)
