"""Reference model: the mathematical definitions, written naively on plain tuples.

Nothing in this file imports permuta.  Permutations are tuples of the integers 0..n-1,
mesh patterns are pairs (perm, frozenset of cells (x, y)) with 0 <= x, y <= len(perm).
Everything here is meant to be *boring*: itertools.combinations for occurrences, point sets and
coordinate maps for symmetries.  Selftests in mc/selftest.py cross-check the faster tabulations
(pattern profiles) against the naive definitions.
"""
from __future__ import annotations

import itertools
from functools import lru_cache

# --------------------------------------------------------------------------------------------
# permutations, standardisation
# --------------------------------------------------------------------------------------------


def perms(n):
    """All permutations of length n in lexicographic order."""
    return list(itertools.permutations(range(n)))


def perms_upto(n):
    out = []
    for k in range(n + 1):
        out.extend(itertools.permutations(range(k)))
    return out


def is_perm(t):
    return sorted(t) == list(range(len(t)))


def std(seq):
    """The unique permutation order-isomorphic to seq, ties broken left to right."""
    seq = list(seq)
    n = len(seq)
    out = [0] * n
    for i in range(n):
        r = 0
        for j in range(n):
            if seq[j] < seq[i] or (seq[j] == seq[i] and j < i):
                r += 1
        out[i] = r
    return tuple(out)


def inverse(p):
    q = [0] * len(p)
    for i, v in enumerate(p):
        q[v] = i
    return tuple(q)


# --------------------------------------------------------------------------------------------
# classical occurrences
# --------------------------------------------------------------------------------------------


def occurrences(patt, text):
    """All strictly increasing index tuples of text whose entries are order-isomorphic to patt,
    in lexicographic order (itertools.combinations yields them in that order)."""
    k = len(patt)
    return [idx for idx in itertools.combinations(range(len(text)), k)
            if std([text[i] for i in idx]) == tuple(patt)]


def coloured_occurrences(patt, text, pcol, tcol):
    return [idx for idx in occurrences(patt, text)
            if all(tcol[i] == pcol[j] for j, i in enumerate(idx))]


def contains(text, patt):
    k = len(patt)
    patt = tuple(patt)
    for idx in itertools.combinations(range(len(text)), k):
        if std([text[i] for i in idx]) == patt:
            return True
    return False


# --------------------------------------------------------------------------------------------
# mesh patterns
# --------------------------------------------------------------------------------------------


def cell_of(occ_idx, text, i):
    """Cell (x, y) of the grid drawn through the occurrence occ_idx in which point i of text lies
    (i not in occ_idx): x = number of occurrence positions to its left, y = number of occurrence
    values below it."""
    x = sum(1 for j in occ_idx if j < i)
    y = sum(1 for j in occ_idx if text[j] < text[i])
    return (x, y)


def mesh_occurrences(patt, shading, text):
    shading = set(map(tuple, shading))
    out = []
    for idx in occurrences(patt, text):
        s = set(idx)
        ok = True
        for i in range(len(text)):
            if i in s:
                continue
            if cell_of(idx, text, i) in shading:
                ok = False
                break
        if ok:
            out.append(idx)
    return out


def mesh_contains(text, patt, shading):
    return bool(mesh_occurrences(patt, shading, text))


def all_cells(k):
    return [(x, y) for x in range(k + 1) for y in range(k + 1)]


def all_shadings(k):
    cells = all_cells(k)
    for r in range(len(cells) + 1):
        for sub in itertools.combinations(cells, r):
            yield frozenset(sub)


def biv_occurrences(patt, adj_idx, adj_val, text):
    """Bivincular semantics stated directly (no shadings): column c in adj_idx means nothing of
    the text lies strictly between occurrence positions c-1 and c (c = 0: before the first, c = k:
    after the last); row r in adj_val likewise for values."""
    k, n = len(patt), len(text)
    out = []
    for idx in occurrences(patt, text):
        pos = [-1] + list(idx) + [n]
        vals = [-1] + sorted(text[i] for i in idx) + [n]
        if all(pos[c + 1] - pos[c] == 1 for c in adj_idx) and \
           all(vals[r + 1] - vals[r] == 1 for r in adj_val):
            out.append(idx)
    return out


# --------------------------------------------------------------------------------------------
# the eight symmetries, as maps of the square applied to point sets
# --------------------------------------------------------------------------------------------
# A permutation of length n is the point set {(i, p[i])} in [0, n-1]^2.  A symmetry is given by
# a function f(x, y, m) on coordinates where m is the largest coordinate.

SYMS = {
    "id": lambda x, y, m: (x, y),
    "reverse": lambda x, y, m: (m - x, y),            # mirror in a vertical line
    "complement": lambda x, y, m: (x, m - y),         # mirror in a horizontal line
    "inverse": lambda x, y, m: (y, x),                # mirror in the diagonal
    "antidiagonal": lambda x, y, m: (m - y, m - x),   # mirror in the anti-diagonal
    "rot90": lambda x, y, m: (y, m - x),              # clockwise quarter turn
    "rot180": lambda x, y, m: (m - x, m - y),
    "rot270": lambda x, y, m: (m - y, x),             # counter-clockwise quarter turn
}


def apply_sym(name, p):
    f = SYMS[name]
    m = len(p) - 1
    pts = sorted(f(i, v, m) for i, v in enumerate(p))
    assert [x for x, _ in pts] == list(range(len(p)))
    return tuple(y for _, y in pts)


def apply_sym_mesh(name, patt, shading):
    """Cells are unit squares; cell (x, y) has centre (x - 1/2, y - 1/2) in point coordinates
    (points at integer coordinates 0..k-1, the grid spans -1..k).  In doubled coordinates the
    centre is (2x - 1, 2y - 1) and the square is [-2, 2k]^2, i.e. shift by +1: u = 2x, m' = 2k."""
    f = SYMS[name]
    k = len(patt)
    out = set()
    for (x, y) in shading:
        # doubled, shifted coordinates: point i -> 2i+1, cell centre x -> 2x, range 0..2k
        u, v = f(2 * x, 2 * y, 2 * k)
        assert u % 2 == 0 and v % 2 == 0
        out.add((u // 2, v // 2))
    return apply_sym(name, patt), frozenset(out)


def orbit(p):
    return {apply_sym(s, p) for s in SYMS}


def orbit_mesh(patt, shading):
    return {apply_sym_mesh(s, patt, shading) for s in SYMS}


def orbit_set(ps):
    return {frozenset(apply_sym(s, p) for p in ps) for s in SYMS}


# --------------------------------------------------------------------------------------------
# pattern profiles: for every permutation of length <= N the set of patterns of length <= L it
# contains, as a bitmask.  Definition used: sigma contains a pattern p with |p| < |sigma| iff
# some one-point deletion of sigma contains p (and sigma contains itself).  Cross-checked against
# `contains` in the selftest.
# --------------------------------------------------------------------------------------------


def delete_point(p, i):
    v = p[i]
    return tuple(w - 1 if w > v else w for j, w in enumerate(p) if j != i)


class Profiles:
    def __init__(self, maxlen, pattlen=4):
        self.maxlen, self.pattlen = maxlen, pattlen
        self.patterns = perms_upto(pattlen)           # index = bit
        self.bit = {p: 1 << i for i, p in enumerate(self.patterns)}
        self.prof = {(): self.bit[()]}
        self.levels = [[()]]
        for n in range(1, maxlen + 1):
            lvl = perms(n)
            self.levels.append(lvl)
            prof = self.prof
            for p in lvl:
                m = self.bit.get(p, 0)
                for i in range(n):
                    m |= prof[delete_point(p, i)]
                prof[p] = m

    def mask(self, basis):
        m = 0
        for b in basis:
            m |= self.bit[tuple(b)]
        return m

    def avoiders(self, basis, n):
        m = self.mask(basis)
        prof = self.prof
        return [p for p in self.levels[n] if not prof[p] & m]

    def grouped(self, n):
        """dict profile -> list of perms of length n (built lazily)."""
        if not hasattr(self, "_grouped"):
            self._grouped = {}
        g = self._grouped.get(n)
        if g is None:
            g = {}
            for p in self.levels[n]:
                g.setdefault(self.prof[p], []).append(p)
            self._grouped[n] = g
        return g

    def count(self, basis, n):
        m = self.mask(basis)
        return sum(len(v) for pr, v in self.grouped(n).items() if not pr & m)


def avoiders_naive(basis, n):
    return [p for p in perms(n) if not any(contains(p, b) for b in basis)]


def mesh_avoiders_naive(basis, n):
    """basis: list of (patt, shading)."""
    return [p for p in perms(n)
            if not any(mesh_contains(p, b, sh) for b, sh in basis)]


# --------------------------------------------------------------------------------------------
# intervals, simplicity, sums
# --------------------------------------------------------------------------------------------


def intervals(p):
    """All (start, length) with 2 <= length < n whose values form a contiguous set."""
    n = len(p)
    out = []
    for length in range(2, n):
        for s in range(0, n - length + 1):
            vs = p[s:s + length]
            if max(vs) - min(vs) == length - 1:
                out.append((s, length))
    return out


def is_simple(p):
    """No proper interval of length 2..n-1 (lengths 0, 1, 2 are simple by convention here; the
    callers decide how to treat tiny lengths)."""
    return not intervals(p)


def direct_sum(a, b):
    return tuple(a) + tuple(v + len(a) for v in b)


def skew_sum(a, b):
    return tuple(v + len(b) for v in a) + tuple(b)


def is_sum_decomposable(p):
    n = len(p)
    return any(sorted(p[:i]) == list(range(i)) for i in range(1, n))


def is_skew_decomposable(p):
    n = len(p)
    return any(sorted(p[:i]) == list(range(n - i, n)) for i in range(1, n))


def insert_point(p, i, v):
    """Insert a new point at position i with value v (existing values >= v shift up)."""
    return tuple(w + 1 if w >= v else w for w in p[:i]) + (v,) + \
        tuple(w + 1 if w >= v else w for w in p[i:])


# --------------------------------------------------------------------------------------------
# subsets helper
# --------------------------------------------------------------------------------------------


def subsets(pool, maxsize, minsize=1):
    for r in range(minsize, maxsize + 1):
        yield from itertools.combinations(pool, r)


def bases(r, ell, minlen=1):
    """All sets of <= r classical patterns of length minlen..ell (as sorted tuples of tuples)."""
    pool = [p for n in range(minlen, ell + 1) for p in perms(n)]
    return list(subsets(pool, r))


def sym_class_rep(basis):
    """Canonical representative of the symmetry orbit of a set of permutations."""
    return min(tuple(sorted(s)) for s in orbit_set(basis))
