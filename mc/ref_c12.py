"""Reference definitions for C12 (sorting devices, Simion-Schmidt, named families).

Plain tuples, nothing imported from permuta.  Everything is the textbook definition executed
literally: a real stack, a real pop-stack, one bubble pass, "restriction to {0..k-1}" for simsun,
adjacent positions for the vincular Baxter patterns, a graph search for forest-like, cycle-graph
automorphisms for the dihedral group, cycle type for the sign, Schensted insertion AND Greene's
theorem for the tableau shape, the Bruhat order for smoothness.
"""
from __future__ import annotations

import itertools
import math


def identity(n):
    return tuple(range(n))


# --------------------------------------------------------------------------------------------
# devices
# --------------------------------------------------------------------------------------------

def stack_pass(p):
    """One pass through a stack (West's operator S): before an entry is pushed every smaller
    entry on the stack is popped to the output; at the end the stack is emptied."""
    stack, out = [], []
    for x in p:
        while stack and stack[-1] < x:
            out.append(stack.pop())
        stack.append(x)
    while stack:
        out.append(stack.pop())
    return tuple(out)


def pop_stack_pass(p):
    """One pass through a pop-stack: a pop empties the whole stack; the stack has to be
    emptied when the next entry is larger than the top."""
    stack, out = [], []
    for x in p:
        if stack and stack[-1] < x:
            while stack:
                out.append(stack.pop())
        stack.append(x)
    while stack:
        out.append(stack.pop())
    return tuple(out)


def pop_stack_pass_runs(p):
    """Same operator, second formulation: reverse every maximal descending run."""
    out, run = [], []
    for x in p:
        if run and run[-1] < x:
            out.extend(reversed(run))
            run = []
        run.append(x)
    out.extend(reversed(run))
    return tuple(out)


def bubble_pass(p):
    a = list(p)
    for i in range(len(a) - 1):
        if a[i] > a[i + 1]:
            a[i], a[i + 1] = a[i + 1], a[i]
    return tuple(a)


def strong_fixed_points(p):
    n = len(p)
    return [i for i in range(n) if p[i] == i
            and all(p[j] < i for j in range(i)) and all(p[j] > i for j in range(i + 1, n))]


def quick_pass(p):
    """The quicksort operator as implemented/commented in Perm._quick_sort: strong fixed points
    stay; every maximal block between strong fixed points is partitioned around its FIRST entry
    (smaller entries in their order, pivot, larger entries in their order)."""
    n = len(p)
    sfp = strong_fixed_points(p)
    out = []
    cuts = [-1] + sfp + [n]
    for a, b in zip(cuts, cuts[1:]):
        block = list(p[a + 1:b])
        if block:
            piv = block[0]
            out.extend([x for x in block if x < piv] + [piv] + [x for x in block if x > piv])
        if b < n:
            out.append(p[b])
    return tuple(out)


def passes_needed(p, one_pass):
    """Number of applications of one_pass until the identity is reached."""
    ident = identity(len(p))
    k = 0
    cur = tuple(p)
    while cur != ident:
        cur = one_pass(cur)
        k += 1
        if k > len(p) + 2:          # both devices sort in at most n-1 passes
            raise AssertionError("reference device does not terminate on %r" % (p,))
    return k


# --------------------------------------------------------------------------------------------
# patterns
# --------------------------------------------------------------------------------------------

def std(vals):
    s = sorted(vals)
    return tuple(s.index(v) for v in vals)


def patterns(p, k):
    """Set of patterns of length k contained in p (all index subsets, standardised)."""
    return {std([p[i] for i in idx]) for idx in itertools.combinations(range(len(p)), k)}


def occurrences(p, patt):
    k = len(patt)
    patt = tuple(patt)
    return [idx for idx in itertools.combinations(range(len(p)), k)
            if std([p[i] for i in idx]) == patt]


def has_123(p):
    n = len(p)
    for j in range(1, n - 1):
        if any(p[i] < p[j] for i in range(j)) and any(p[k] > p[j] for k in range(j + 1, n)):
            return True
    return False


def has_132(p):
    n = len(p)
    for i in range(n):
        for j in range(i + 1, n):
            if p[j] > p[i]:
                for k in range(j + 1, n):
                    if p[i] < p[k] < p[j]:
                        return True
    return False


def west2_by_patterns(p):
    """West: two-stack sortable iff avoids 2341 and the barred pattern 3\\bar{5}241, i.e. every
    occurrence of 3241 has an entry between its '3' and its '2' that is larger than its '4'."""
    if (1, 2, 3, 0) in patterns(p, 4):
        return False
    for (i, j, k, _l) in occurrences(p, (2, 1, 3, 0)):
        if not any(p[m] > p[k] for m in range(i + 1, j)):
            return False
    return True


# --------------------------------------------------------------------------------------------
# Simion-Schmidt
# --------------------------------------------------------------------------------------------

def ltr_minima(p):
    """List of (position, value) of the left-to-right minima."""
    out, cur = [], None
    for i, v in enumerate(p):
        if cur is None or v < cur:
            out.append((i, v))
            cur = v
    return out


# --------------------------------------------------------------------------------------------
# families
# --------------------------------------------------------------------------------------------

def smooth_by_patterns(p):
    """Docstring of perm_properties.smooth: 0213- and 1032-avoiding."""
    pats = patterns(p, 4)
    return (0, 2, 1, 3) not in pats and (1, 0, 3, 2) not in pats


def rank_matrix(p):
    n = len(p)
    return tuple(sum(1 for k in range(i + 1) if p[k] <= j) for i in range(n) for j in range(n))


def inversions(p):
    return sum(1 for i in range(len(p)) for j in range(i + 1, len(p)) if p[i] > p[j])


def smooth_by_bruhat(p, all_perms, rmats, lengths):
    """Carrell-Peterson: the Schubert variety X_w is (rationally) smooth iff the Bruhat interval
    [e, w] is rank symmetric; Lakshmibai-Sandhya: iff w avoids 3412 and 4231.  The library's
    convention is the complemented one (0213, 1032 = complements of 3120, 2301), and
    complementing is an anti-automorphism of the Bruhat order, so: p is smooth in the library's
    sense iff the UPPER interval [p, w0] is rank symmetric.  u <= v in Bruhat order iff
    rank_matrix(u) >= rank_matrix(v) entrywise."""
    rp = rmats[p]
    lo, hi = lengths[p], len(p) * (len(p) - 1) // 2
    cnt = [0] * (hi - lo + 1)
    for q in all_perms:
        rq = rmats[q]
        if all(a >= b for a, b in zip(rp, rq)):
            cnt[lengths[q] - lo] += 1
    return cnt == cnt[::-1]


def forest_like_by_patterns(p):
    """Bousquet-Melou & Butler: avoids 1324 and the barred pattern 21\\bar{3}54: every occurrence
    of 2143 has an entry positioned between its '1' and its '4' whose value lies between its '2'
    and its '3'."""
    if (0, 2, 1, 3) in patterns(p, 4):
        return False
    for (a, b, c, d) in occurrences(p, (1, 0, 3, 2)):
        if not any(p[a] < p[m] < p[d] for m in range(b + 1, c)):
            return False
    return True


def forest_like_by_graph(p):
    """Bousquet-Melou & Butler, definition: join i<j when p[i]<p[j] and no k between them has
    p[i]<p[k]<p[j]; p is forest-like iff this graph has no cycle."""
    n = len(p)
    parent = list(range(n))

    def find(x):
        while parent[x] != x:
            x = parent[x]
        return x

    for i in range(n):
        for j in range(i + 1, n):
            if p[i] < p[j] and not any(p[i] < p[k] < p[j] for k in range(i + 1, j)):
                a, b = find(i), find(j)
                if a == b:
                    return False
                parent[a] = b
    return True


def baxter_by_vincular(p):
    """No 2-41-3 and no 3-14-2 (the two middle letters adjacent in position)."""
    n = len(p)
    for j in range(n - 1):
        hi, lo = p[j], p[j + 1]
        if hi > lo:   # ..41.. : need a '2' before and a '3' after with lo < 2 < 3 < hi
            for i in range(j):
                for k in range(j + 2, n):
                    if lo < p[i] < p[k] < hi:
                        return False
        else:         # ..14.. : need a '3' before and a '2' after with hi(=1) < 2 < 3 < lo(=4)
            for i in range(j):
                for k in range(j + 2, n):
                    if hi < p[k] < p[i] < lo:
                        return False
    return True


def simsun_by_definition(p):
    """For every k the subword of the entries smaller than k has no double descent."""
    n = len(p)
    for k in range(n + 1):
        w = [v for v in p if v < k]
        for i in range(len(w) - 2):
            if w[i] > w[i + 1] > w[i + 2]:
                return False
    return True


def dihedral_by_polygon(p):
    """p is a symmetry of the regular n-gon with corners 0..n-1 in cyclic order (n >= 3): it maps
    neighbouring corners to neighbouring corners.  Library convention: nothing for n <= 2."""
    n = len(p)
    if n <= 2:
        return False
    return all((p[(i + 1) % n] - p[i]) % n in (1, n - 1) for i in range(n))


def even_by_cycles(p):
    """Sign by cycle type: even iff n - (number of cycles) is even.  Library convention pinned by
    docstring, tests and shipped data: length 0 and 1 -> True, length 2 -> False for both."""
    n = len(p)
    if n == 2:
        return False
    seen, cycles = [False] * n, 0
    for i in range(n):
        if not seen[i]:
            cycles += 1
            while not seen[i]:
                seen[i] = True
                i = p[i]
    return (n - cycles) % 2 == 0


def rsk_shape(p):
    """Shape of the Schensted insertion tableau (row insertion, bump the leftmost larger entry)."""
    rows = []
    for v in p:
        r = 0
        while True:
            if r == len(rows):
                rows.append([v])
                break
            row = rows[r]
            pos = None
            for c, w in enumerate(row):
                if w > v:
                    pos = c
                    break
            if pos is None:
                row.append(v)
                break
            row[pos], v = v, row[pos]
            r += 1
    return [len(r) for r in rows]


def greene_l1_l12(p):
    """Greene's theorem: lambda_1 = longest increasing subsequence, lambda_1 + lambda_2 = largest
    subsequence that is a union of two increasing ones = largest subsequence without a decreasing
    subsequence of length 3.  Brute force over all index subsets."""
    n = len(p)
    l1 = l12 = 0
    for mask in range(1 << n):
        w = [p[i] for i in range(n) if mask >> i & 1]
        m = len(w)
        if m <= l1 and m <= l12:
            continue
        if m > l1 and all(w[i] < w[i + 1] for i in range(m - 1)):
            l1 = m
        if m > l12 and not any(w[a] > w[b] > w[c]
                               for a in range(m) for b in range(a + 1, m) for c in range(b + 1, m)):
            l12 = m
    return l1, l12


def shape_contains(shape, mu):
    return len(shape) >= len(mu) and all(s >= m for s, m in zip(shape, mu))


# --------------------------------------------------------------------------------------------
# known sequences (index = length), only those I am certain of
# --------------------------------------------------------------------------------------------

def catalan(n):
    return math.comb(2 * n, n) // (n + 1)


def west2_count(n):
    return 1 if n == 0 else 2 * math.factorial(3 * n) // (math.factorial(n + 1) * math.factorial(2 * n + 1))


KNOWN = {
    "stack_sortable": [catalan(n) for n in range(11)],
    "pop_stack_sortable": [1] + [2 ** (n - 1) for n in range(1, 11)],
    "bubble_sortable": [1] + [2 ** (n - 1) for n in range(1, 11)],
    "west_2_stack_sortable": [west2_count(n) for n in range(11)],
    "baxter": [1, 1, 2, 6, 22, 92, 422, 2074, 10754, 58202],
    "simsun": [1, 1, 2, 5, 16, 61, 272, 1385, 7936, 50521],
    "smooth": [1, 1, 2, 6, 22, 88, 366, 1552, 6652, 28696],
    "dihedral": [0, 0, 0] + [2 * n for n in range(3, 11)],
    "in_alternating_group": [1, 1, 0] + [math.factorial(n) // 2 for n in range(3, 11)],
    "yt_perm_avoids_22": [1] + [math.comb(2 * n - 2, n - 1) for n in range(1, 11)],
}


# --------------------------------------------------------------------------------------------
# Simion-Schmidt: reference maps and the structured family "few left-to-right minima"
# --------------------------------------------------------------------------------------------

def ss_forward_ref(p):
    """Simion & Schmidt: left-to-right minima stay; every other position gets, from left to
    right, the smallest value not yet placed that is larger than the current minimum."""
    n = len(p)
    img, used, cur = [], set(), None
    for v in p:
        if cur is None or v < cur:
            cur = v
            img.append(v)
        else:
            img.append(min(k for k in range(cur + 1, n) if k not in used))
        used.add(img[-1])
    return tuple(img)


def ss_inverse_ref(q):
    """Inverse: left-to-right minima stay; every other position gets the largest value not yet
    placed (the non-minima of a 123-avoider decrease)."""
    n = len(q)
    img, used, cur = [], set(), None
    for v in q:
        if cur is None or v < cur:
            cur = v
            img.append(v)
        else:
            img.append(max(k for k in range(n) if k not in used))
        used.add(img[-1])
    return tuple(img)


def narayana(n, k):
    """Number of 123-avoiders (and of 132-avoiders) of length n with exactly k left-to-right
    minima."""
    if n == 0:
        return 1 if k == 0 else 0
    if k < 1 or k > n:
        return 0
    return math.comb(n, k) * math.comb(n, k - 1) // n


def avoiders_123_with_minima(n, k, first):
    """All 123-avoiders of length n >= 1 with exactly k left-to-right minima whose first entry is
    `first`.  A 123-avoider is determined by the positions and values of its left-to-right minima
    (the other entries decrease), so: every choice of k positions (the first is 0) and k decreasing
    values (the first is `first`, the last is 0), other values filled in decreasing order, kept iff
    the left-to-right minima of the result are exactly the chosen ones."""
    out = []
    if k == 1:
        if first == 0:
            out.append((0,) + tuple(range(n - 1, 0, -1)))
        return out
    if first < k - 1:
        return out
    for pos in itertools.combinations(range(1, n), k - 1):
        for mid in itertools.combinations(range(first - 1, 0, -1), k - 2):
            vals = (first,) + mid + (0,)
            mins = dict(zip((0,) + pos, vals))
            rest = [v for v in range(n - 1, -1, -1) if v not in vals]
            it = iter(rest)
            p = tuple(mins[i] if i in mins else next(it) for i in range(n))
            if ltr_minima(p) == sorted(mins.items()):
                out.append(p)
    return out


def has_132_fast(p):
    """Quadratic test for long inputs: with p[j] as the '3', the best '1' is the minimum of the
    prefix; a 132 with this '3' exists iff some later entry lies strictly between them."""
    n = len(p)
    m = None
    for j in range(n):
        if m is not None and m < p[j]:
            pj = p[j]
            for k in range(j + 1, n):
                if m < p[k] < pj:
                    return True
        if m is None or p[j] < m:
            m = p[j]
    return False


def block_avoider(n, j, a, b):
    """The 123-avoider of length n whose j non-minima are the consecutive values b..b+j-1 at the
    consecutive positions a..a+j-1 (decreasing, like all other entries), or None if that is not a
    123-avoider with exactly these non-minima ("a decreasing sequence with a block of j
    non-minima inserted")."""
    if a < 1 or a + j > n or b < 0 or b + j > n:
        return None
    vals = set(range(b, b + j))
    nm = iter(range(b + j - 1, b - 1, -1))
    mn = iter(v for v in range(n - 1, -1, -1) if v not in vals)
    p = tuple(next(nm) if a <= i < a + j else next(mn) for i in range(n))
    mins = {i for i, _ in ltr_minima(p)}
    if mins != set(range(n)) - set(range(a, a + j)):
        return None
    return p
