"""Additional reference code for C04 (the eight symmetries).  Plain tuples, no permuta import.

Everything geometric comes from mc/refmodel.py (SYMS = coordinate maps of the square, apply_sym on
point sets, apply_sym_mesh on cell centres).  Here: rotation counts, the multiplication table of
the dihedral group computed from the coordinate maps, orbits of sets, the lexicographically
minimal representative, minimal bases, and the finite alphabets of mesh patterns.
"""
from __future__ import annotations

import itertools

from . import refmodel as R

SYM_NAMES = ["id", "reverse", "complement", "inverse", "antidiagonal", "rot90", "rot180", "rot270"]


# --------------------------------------------------------------------------------------------
# rotation counts
# --------------------------------------------------------------------------------------------

def rot_name(k):
    """Name of 'k quarter turns clockwise' (k < 0: |k| quarter turns counter-clockwise)."""
    if abs(k) <= 16:
        # definitional: walk around the square one quarter turn at a time
        cyc = ["id", "rot90", "rot180", "rot270"]
        pos = 0
        for _ in range(abs(k)):
            pos = pos + 1 if k > 0 else pos - 1
            if pos == 4:
                pos = 0
            if pos == -1:
                pos = 3
        return cyc[pos]
    r = abs(k) - 4 * (abs(k) // 4)
    if k < 0 and r:
        r = 4 - r
    return ["id", "rot90", "rot180", "rot270"][r]


# --------------------------------------------------------------------------------------------
# the group: multiplication table from the coordinate maps (a first, then b)
# --------------------------------------------------------------------------------------------

def _table():
    m = 11
    pts = [(1, 2), (0, 5), (7, 3), (10, 4)]
    tab = {}
    for a in SYM_NAMES:
        for b in SYM_NAMES:
            img = [R.SYMS[b](*R.SYMS[a](x, y, m), m) for x, y in pts]
            cands = [c for c in SYM_NAMES if [R.SYMS[c](x, y, m) for x, y in pts] == img]
            assert len(cands) == 1, (a, b, cands)
            tab[(a, b)] = cands[0]
    return tab


TABLE = _table()   # TABLE[(a, b)] = c  with  c(x) = b(a(x))


def selftest_table():
    t = TABLE
    e = "id"
    for a in SYM_NAMES:
        assert t[(a, e)] == a and t[(e, a)] == a
        assert sum(1 for b in SYM_NAMES if t[(a, b)] == e) == 1
        for b in SYM_NAMES:
            for c in SYM_NAMES:
                assert t[(t[(a, b)], c)] == t[(a, t[(b, c)])]
    r, s = "rot90", "reverse"
    assert t[(r, r)] == "rot180" and t[(t[(r, r)], r)] == "rot270" and t[("rot270", r)] == e
    assert t[(s, s)] == e
    # s r s = r^-1
    assert t[(t[(s, r)], s)] == "rot270"
    # non-abelian
    assert t[(r, s)] != t[(s, r)]


# --------------------------------------------------------------------------------------------
# order on permutations and on sorted tuples of permutations; orbits of sets; lex-min
# --------------------------------------------------------------------------------------------

def pkey(p):
    """The library's documented order on Perm: shorter first, then lexicographic."""
    return (len(p), tuple(p))


def sort_set(ps):
    return tuple(sorted((tuple(p) for p in ps), key=pkey))


def image_set(sym, ps):
    return [R.apply_sym(sym, tuple(p)) for p in ps]


def orbit_sets(ps):
    """The orbit of a collection (kept as a multiset: duplicates stay) as a set of sorted tuples."""
    return {sort_set(image_set(s, ps)) for s in SYM_NAMES}


def lex_min(ps):
    """Smallest member of the orbit, tuples compared entry by entry in the order `pkey`."""
    return min(orbit_sets(ps), key=lambda t: [pkey(p) for p in t])


def minimal_elements(ps):
    """The basis of the class Av(ps): elements containing no other element."""
    ps = [tuple(p) for p in ps]
    return [p for p in ps if not any(q != p and R.contains(p, q) for q in ps)]


def is_antichain(ps):
    return len(minimal_elements(ps)) == len(ps)


def perm_str0(p):
    return "".join(str(v) for v in p)


def perm_str1(p):
    return "".join(str(v + 1) for v in p)


# --------------------------------------------------------------------------------------------
# alphabets of mesh patterns: lists of (perm, frozenset(cells))
# --------------------------------------------------------------------------------------------

def mesh_all(k):
    """All mesh patterns of length k with all shadings."""
    return [(p, sh) for p in R.perms(k) for sh in R.all_shadings(k)]


def shadings_sparse_dense(k, few):
    """Shadings of the (k+1)x(k+1) grid with at most `few` cells or at most `few` cells missing."""
    cells = R.all_cells(k)
    full = frozenset(cells)
    out = []
    seen = set()
    for r in range(few + 1):
        for sub in itertools.combinations(cells, r):
            for sh in (frozenset(sub), full - frozenset(sub)):
                if sh not in seen:
                    seen.add(sh)
                    out.append(sh)
    return out


def shadings_bivincular(k):
    """All unions of full columns and full rows."""
    out = []
    seen = set()
    for cols in R.subsets(range(k + 1), k + 1, 0):
        for rows in R.subsets(range(k + 1), k + 1, 0):
            sh = frozenset([(c, y) for c in cols for y in range(k + 1)]
                           + [(x, r) for r in rows for x in range(k + 1)])
            if sh not in seen:
                seen.add(sh)
                out.append(sh)
    return out


def mesh_family(k, few=2):
    """Length k: sparse/dense shadings and all bivincular shadings, every underlying perm."""
    shs = []
    seen = set()
    for sh in shadings_sparse_dense(k, few) + shadings_bivincular(k):
        if sh not in seen:
            seen.add(sh)
            shs.append(sh)
    return [(p, sh) for p in R.perms(k) for sh in shs]


# patterns of the literature that the library itself uses / documents (hard-coded, not imported)
NAMED = [
    ((2, 0, 3, 1), frozenset([(1, 4)])),                                   # West-2-stack: 3 5-bar 2 4 1
    ((1, 3, 0, 2), frozenset([(2, y) for y in range(5)])),                 # Baxter 2-41-3
    ((2, 0, 3, 1), frozenset([(2, y) for y in range(5)])),                 # Baxter 3-14-2
    ((2, 0, 1), frozenset([(1, 0), (1, 1), (2, 2)])),                      # a forest-like pattern
    ((1, 0, 2), frozenset([(0, 0), (0, 1), (0, 2), (0, 3), (3, 1), (1, 3)])),
    ((0, 2, 1), frozenset([(2, 3), (3, 0), (3, 3)])),                      # the pattern of the rotate doctest
    ((0, 1, 2, 3), frozenset([(0, 4), (4, 0), (2, 1)])),
    ((3, 1, 0, 2), frozenset([(0, 0), (1, 2), (3, 4), (4, 1), (2, 2)])),
]


# --------------------------------------------------------------------------------------------
# 'scale' family: structured long permutations (sizes straddling thresholds of the runtime:
# 8-slot / 32-slot set tables, the small-int cache at 256, byte-sized buffers)
# --------------------------------------------------------------------------------------------

SCALE_SIZES_QUICK = [7, 8, 9, 10, 11, 12, 33, 257]
SCALE_SIZES_MORE = [31, 32, 34, 255, 256, 258, 300]


def long_shapes(n):
    """Named structured permutations of length n (n >= 7), duplicate-free, as plain tuples."""
    import math
    inc = tuple(range(n))
    dec = tuple(range(n - 1, -1, -1))

    def swap(i):
        p = list(inc)
        p[i], p[i + 1] = p[i + 1], p[i]
        return tuple(p)
    k = next(k for k in range(2, n) if math.gcd(k, n) == 1)
    q = n // 2
    shapes = [
        ("increasing", inc),
        ("decreasing", dec),
        ("increasing, transposition at 0", swap(0)),
        ("increasing, transposition at 1", swap(1)),
        ("increasing, transposition in the middle", swap(n // 2)),
        ("increasing, transposition at the end", swap(n - 2)),
        ("cyclic shift", inc[1:] + (0,)),
        ("layered, layers of 2", tuple(i + 1 if i % 2 == 0 and i + 1 < n else (i - 1 if i % 2 else i)
                                       for i in range(n))),
        ("%d*i mod n" % k, tuple(k * i % n for i in range(n))),
        ("021 + increasing", (0, 2, 1) + tuple(range(3, n))),
        ("120 skew decreasing", (n - 2, n - 1, n - 3) + tuple(range(n - 4, -1, -1))),
        ("%d then decreasing" % q, (q,) + tuple(v for v in dec if v != q)),
    ]
    out, seen = [], set()
    for name, p in shapes:
        assert R.is_perm(p), name
        if p not in seen:
            seen.add(p)
            out.append((name, p))
    return out


SHORT_POOL = [p for n in (1, 2, 3) for p in R.perms(n)] + \
    [(0, 1, 2, 3), (0, 2, 3, 1), (1, 3, 0, 2), (3, 2, 1, 0)]
SHORT_POOL_SMALL = [(0,), (0, 1), (1, 0), (0, 2, 1), (0, 2, 3, 1)]
LENGTH_CHAIN = [(0,), (0, 1), (0, 2, 1), (0, 2, 3, 1), (0, 2, 3, 4, 1)]


def scale_bases(n):
    """Mixed-length sets: one long structured permutation of length n plus one or two short ones
    (all 1- and 2-subsets of SHORT_POOL for n <= 12, of SHORT_POOL_SMALL above), plus the long one
    with one permutation of each length 1..5 (six distinct lengths), plus the long one alone.
    Members are listed in increasing (length, lex) order."""
    pool = SHORT_POOL if n <= 12 else SHORT_POOL_SMALL
    out = []
    for _, p in long_shapes(n):
        out.append((p,))
        for sub in R.subsets(pool, 2):
            out.append(tuple(sub) + (p,))
        out.append(tuple(LENGTH_CHAIN) + (p,))
    return out


# --------------------------------------------------------------------------------------------
# thin family for mesh equivariance with LONG texts: a small skeleton permutation in which one
# point is replaced by a long monotone run (an inflation)
# --------------------------------------------------------------------------------------------

def inflate_point(sigma, j, m, direction):
    """sigma with its point j replaced by an increasing ("inc") or decreasing ("dec") run of m
    consecutive values in m consecutive positions."""
    v = sigma[j]
    out = []
    for i, w in enumerate(sigma):
        if i == j:
            out.extend(range(v, v + m) if direction == "inc" else range(v + m - 1, v - 1, -1))
        else:
            out.append(w + m - 1 if w > v else w)
    return tuple(out)


def run_is_bystander(patt, sigma, j, direction):
    """True iff no occurrence of patt in an inflation of point j uses a point of the run (a run of
    |patt| points shows every way of using 1..|patt| run points)."""
    k = len(patt)
    t = inflate_point(sigma, j, k, direction)
    block = set(range(j, j + k))
    return not any(block & set(occ) for occ in R.occurrences(patt, t))


def long_mesh_skeletons(maxlen=4):
    """All (patt, sigma, j, direction) with patt of length 3, sigma of length 3..maxlen containing
    patt, and the run at j a pure bystander.  Then, for every run length m >= 1, the run lies in
    one and the same box of every occurrence as the point j does in sigma, so

        #mesh occurrences of (patt, shading) in inflate_point(sigma, j, m, direction)
            = #mesh occurrences of (patt, shading) in sigma          (brute force on sigma)."""
    out = []
    for patt in R.perms(3):
        for n in range(3, maxlen + 1):
            for sigma in R.perms(n):
                if not R.contains(sigma, patt):
                    continue
                for j in range(n):
                    for direction in ("inc", "dec"):
                        if run_is_bystander(patt, sigma, j, direction):
                            out.append((patt, sigma, j, direction))
    return out
