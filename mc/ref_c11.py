"""Reference definitions for C11 (permutation statistics), written from the docstrings of the
methods and the standard meaning of the names, on plain tuples.  Nothing here imports permuta.

Style: quantifiers written out (`all(... for j in range(i))`), no scans with carried state, no
Fenwick trees, no shortcuts; counts are *defined* as the length of the corresponding listing, so
"count form == size of listing form" is structural on the reference side.

Sources of the definitions
  * docstring text of the method for everything positional (descents, peaks, records, bonds, ...)
  * standard meaning of the name for inversions, major index, order, cycles, fixed points,
    longest increasing / decreasing subsequence (table names)
  * docstring text AND examples (the cited source is not available offline) for: count_bounces,
    max_drop_size, holeyness, count_column_sum_primes, foremaxima, afterminima, aftermaxima,
    foreminima.  See the comments at each of them.
"""
from __future__ import annotations

import itertools
import math
from collections import Counter

# --------------------------------------------------------------------------------------------
# positional listings
# --------------------------------------------------------------------------------------------


def descents(p, step=None):
    """0-based i with p[i] > p[i+1]; with a step size only those with p[i] - p[i+1] == step."""
    n = len(p)
    if step is None:
        return [i for i in range(n - 1) if p[i] > p[i + 1]]
    return [i for i in range(n - 1) if p[i] - p[i + 1] == step]


def ascents(p, step=None):
    n = len(p)
    if step is None:
        return [i for i in range(n - 1) if p[i] < p[i + 1]]
    return [i for i in range(n - 1) if p[i + 1] - p[i] == step]


def peaks(p):
    """i is a peak if p[i-1] < p[i] > p[i+1] (both neighbours must exist)."""
    return [i for i in range(1, len(p) - 1) if p[i - 1] < p[i] and p[i] > p[i + 1]]


def valleys(p):
    return [i for i in range(1, len(p) - 1) if p[i - 1] > p[i] and p[i] < p[i + 1]]


def pinnacles(p):
    """values at the peaks, in order of position."""
    return [p[i] for i in peaks(p)]


def bends(p):
    """middle indices of the non-monotone consecutive triples."""
    pk, vl = set(peaks(p)), set(valleys(p))
    return [i for i in range(len(p)) if i in pk or i in vl]


def fixed_points(p):
    return [i for i in range(len(p)) if p[i] == i]


def strong_fixed_points(p):
    """fixed points with everything to the left smaller and everything to the right larger."""
    n = len(p)
    return [i for i in range(n) if p[i] == i
            and all(p[j] < p[i] for j in range(i))
            and all(p[j] > p[i] for j in range(i + 1, n))]


def ltrmin(p):
    return [i for i in range(len(p)) if all(p[j] > p[i] for j in range(i))]


def ltrmax(p):
    return [i for i in range(len(p)) if all(p[j] < p[i] for j in range(i))]


def rtlmin(p):
    n = len(p)
    return [i for i in range(n) if all(p[j] > p[i] for j in range(i + 1, n))]


def rtlmax(p):
    n = len(p)
    return [i for i in range(n) if all(p[j] < p[i] for j in range(i + 1, n))]


def inversions(p):
    """pairs (i, j), i < j, p[i] > p[j], in lexicographic order."""
    return [(i, j) for i, j in itertools.combinations(range(len(p)), 2) if p[i] > p[j]]


def non_inversions(p):
    return [(i, j) for i, j in itertools.combinations(range(len(p)), 2) if p[i] < p[j]]


def rank_encoding(p):
    """entry i: number of inversions whose left end is i."""
    n = len(p)
    return [sum(1 for j in range(i + 1, n) if p[j] < p[i]) for i in range(n)]


def all_bonds(p):
    return [i for i in range(len(p) - 1) if abs(p[i] - p[i + 1]) == 1]


def inc_bonds(p):
    return [i for i in range(len(p) - 1) if p[i + 1] == p[i] + 1]


def dec_bonds(p):
    return [i for i in range(len(p) - 1) if p[i + 1] == p[i] - 1]


# cycle-type listings (docstrings: "i < x > P(x) where x = P(i)", the index i is listed)

def cyclic_peaks(p):
    return [i for i in range(len(p)) if i < p[i] and p[i] > p[p[i]]]


def cyclic_valleys(p):
    return [i for i in range(len(p)) if i > p[i] and p[i] < p[p[i]]]


def double_excedance(p):
    return [i for i in range(len(p)) if i < p[i] and p[i] < p[p[i]]]


def double_drops(p):
    return [i for i in range(len(p)) if i > p[i] and p[i] > p[p[i]]]


# The next four cite arXiv:1908.01084 (not available here).  The docstrings say "P(i) is both a
# double ascent and ltrmax" etc.; the docstring examples fix the reading: "double ascent" = an
# ascent of step size two at index i (p[i+1] == p[i] + 2), and the record is at the same index i.
# e.g. Perm((1, 3, 5, 2, 4, 0)).foremaxima() == [0, 1]: steps of size two at 0, 1, 3; ltr maxima
# at 0, 1, 2.

def foremaxima(p):
    rec = set(ltrmax(p))
    return [i for i in ascents(p, 2) if i in rec]


def afterminima(p):
    rec = set(rtlmin(p))
    return [i for i in ascents(p, 2) if i in rec]


def aftermaxima(p):
    rec = set(rtlmax(p))
    return [i for i in descents(p, 2) if i in rec]


def foreminima(p):
    rec = set(ltrmin(p))
    return [i for i in descents(p, 2) if i in rec]


# --------------------------------------------------------------------------------------------
# numbers
# --------------------------------------------------------------------------------------------


def is_prime(m):
    """m >= 2 and no divisor d with 1 < d < m."""
    return m >= 2 and all(m % d != 0 for d in range(2, m))


def prime_table(limit):
    """list t with t[m] == (m is prime) for 0 <= m <= limit: strike out every product a*b with
    a, b >= 2."""
    t = [True] * (limit + 1)
    for m in range(0, min(2, limit + 1)):
        t[m] = False
    for a in range(2, limit + 1):
        if a * a > limit:
            break
        for prod in range(a * a, limit + 1, a):
            t[prod] = False
    return t


def column_sum_primes(p):
    """two-line notation with 1-based entries: column i is (i+1, p[i]+1)."""
    return sum(1 for i in range(len(p)) if is_prime((i + 1) + (p[i] + 1)))


def compose(p, q):
    """(p o q)(i) = p[q[i]]"""
    return tuple(p[q[i]] for i in range(len(q)))


def order_naive(p):
    """least k >= 1 with p^k = identity, by repeated composition."""
    ident = tuple(range(len(p)))
    k, power = 1, tuple(p)
    while power != ident:
        power = compose(p, power)
        k += 1
    return k


def perm_power(p, k):
    """p composed with itself k times (k >= 0), by repeated squaring - integers only."""
    result = tuple(range(len(p)))
    base = tuple(p)
    while k:
        if k & 1:
            result = compose(result, base)
        base = compose(base, base)
        k >>= 1
    return result


_ORDER_MEMO = {}


def order_long(p):
    """Integer-only reference for long permutations whose order can be astronomically large: the
    least common multiple of the orbit sizes (math.gcd on ints, exact floor division).  Checked
    against the definition on the spot: p**k is the identity (always), and p**(k/q) is not the
    identity for every prime q dividing k (lengths up to 130; every such q is <= len(p))."""
    p = tuple(p)
    k = _ORDER_MEMO.get(p)
    if k is not None:
        return k
    k = 1
    for orb in cycles(p):
        m = len(orb)
        k = (k * m) // math.gcd(k, m)
    ident = tuple(range(len(p)))
    assert perm_power(p, k) == ident, "reference order is not an exponent"
    if len(p) <= 130:
        for q in range(2, len(p) + 1):
            if is_prime(q) and k % q == 0:
                assert perm_power(p, k // q) != ident, "reference order is not minimal"
    if len(_ORDER_MEMO) > 5000:
        _ORDER_MEMO.clear()
    _ORDER_MEMO[p] = k
    return k


def order(p):
    """least k >= 1 with p^k = identity (definition by repeated composition up to length 12, the
    verified integer lcm form beyond)."""
    return order_naive(p) if len(p) <= 12 else order_long(p)


def cycles(p):
    """The cycles as a set of frozensets of elements (orbits of i -> p[i])."""
    out = set()
    for i in range(len(p)):
        orb, x = {i}, p[i]
        while x != i:
            orb.add(x)
            x = p[x]
        out.add(frozenset(orb))
    return out


def is_involution(p):
    return all(p[p[i]] == i for i in range(len(p)))


def major_index(p):
    """sum of the 1-based positions of the descents."""
    return sum(i + 1 for i in descents(p))


def depth(p):
    """Petersen-Tenner depth = sum of the sizes of the excedances = half the total displacement
    (the displacements sum to zero)."""
    total = sum(abs(p[i] - i) for i in range(len(p)))
    assert total % 2 == 0
    return total // 2


def max_drop_size(p):
    """Docstring examples (0,)->0, (0,1)->0, (1,0)->1, (2,0,1)->2 fix the reading
    max(p[i] - i) (0 for the empty permutation).  FindStat St000141 is not available offline."""
    return max([p[i] - i for i in range(len(p))], default=0)


def count_bounces(p):
    """FindStat St000133 is not available offline; the docstring has only three examples
    ((0,)->0, (0,1)->1, (1,0)->0).  Restated behaviour (bounce path): b_1 = 1 + position of the
    value 0; b_{k+1} = 1 + the right-most position among the values 0..b_k; stop as soon as
    b_k >= n; the statistic is sum(n - b_k)."""
    n = len(p)
    if n == 0:
        return 0
    pos = {p[i]: i for i in range(n)}
    b = [pos[0] + 1]
    while b[-1] < n:
        b.append(max(pos[v] for v in range(0, b[-1] + 1)) + 1)
    return sum(n - x for x in b)


def _delta(s):
    return sum(1 for x in s if x + 1 not in s)


def holeyness_naive(p):
    """max over all subsets S of positions of delta(p(S)) - delta(S), delta(S) = number of m in S
    with m+1 not in S (docstring cites FindStat St001469 / MathOverflow 340179; examples
    (1,0)->0, (0,1,2)->0, (0,2,1)->1, (1,0,2)->1)."""
    n = len(p)
    best = None
    for r in range(n + 1):
        for s in itertools.combinations(range(n), r):
            s = set(s)
            val = _delta({p[i] for i in s}) - _delta(s)
            if best is None or val > best:
                best = val
    return best


_DELTA_TABLES = {}


def _delta_table(n):
    t = _DELTA_TABLES.get(n)
    if t is None:
        t = [_delta({i for i in range(n) if mask >> i & 1}) for mask in range(1 << n)]
        _DELTA_TABLES[n] = t
    return t


def holeyness(p):
    """Same definition as holeyness_naive; subsets are bitmasks, delta is tabulated per n from the
    set definition, the image mask is built from the image mask of the subset without its lowest
    element.  Cross-checked against holeyness_naive in selftest()."""
    n = len(p)
    delta = _delta_table(n)
    img = [0] * (1 << n)
    best = 0  # the empty subset
    for mask in range(1, 1 << n):
        low = (mask & -mask).bit_length() - 1
        img[mask] = img[mask & (mask - 1)] | (1 << p[low])
        val = delta[img[mask]] - delta[mask]
        if val > best:
            best = val
    return best


def stack_sort(seq):
    """One pass through a stack: before pushing x, pop everything smaller than x."""
    out, stack = [], []
    for x in seq:
        while stack and stack[-1] < x:
            out.append(stack.pop())
        stack.append(x)
    while stack:
        out.append(stack.pop())
    return tuple(out)


def pop_stack_sort(seq):
    """One pass through a pop stack: the stack must stay decreasing towards the top; if x is
    larger than the top the WHOLE stack is emptied first."""
    out, stack = [], []
    for x in seq:
        if stack and stack[-1] < x:
            while stack:
                out.append(stack.pop())
        stack.append(x)
    while stack:
        out.append(stack.pop())
    return tuple(out)


def passes_needed(p, device):
    ident = tuple(range(len(p)))
    cur, k = tuple(p), 0
    while cur != ident:
        cur = device(cur)
        k += 1
        assert k <= len(p) + 1
    return k


def min_gapsize(p):
    """taxicab distance of the closest two points; defined for n >= 2."""
    return min(abs(i - j) + abs(p[i] - p[j]) for i, j in itertools.combinations(range(len(p)), 2))


def maximal_decreasing_run(p):
    """largest k such that n-1, n-2, ..., n-k appear in this order from left to right."""
    n = len(p)
    pos = {p[i]: i for i in range(n)}
    k = 0
    while k < n and (k == 0 or pos[n - 1 - k] > pos[n - k]):
        k += 1
    return k


def longest_runs(p, ascending=True):
    """(L, starts): L = largest length of a window of consecutive positions that is strictly
    ascending (descending); starts = first positions of all windows of that length.  (0, []) for
    the empty permutation."""
    n = len(p)
    if n == 0:
        return (0, [])

    def mono(i, j):   # window i..j inclusive
        return all((p[t] < p[t + 1]) if ascending else (p[t] > p[t + 1]) for t in range(i, j))

    best = max(j - i + 1 for i in range(n) for j in range(i, n) if mono(i, j))
    return (best, [i for i in range(n - best + 1) if mono(i, i + best - 1)])


def longest_monotone_subsequence(p, ascending=True):
    """length of the longest increasing (decreasing) subsequence: end[i] = longest one ending
    at i."""
    end = []
    for i in range(len(p)):
        prev = [end[j] for j in range(i) if (p[j] < p[i] if ascending else p[j] > p[i])]
        end.append(1 + max(prev, default=0))
    return max(end, default=0)


def longest_monotone_subsequence_naive(p, ascending=True):
    n = len(p)
    for k in range(n, 0, -1):
        for idx in itertools.combinations(range(n), k):
            vals = [p[i] for i in idx]
            if all((vals[t] < vals[t + 1]) if ascending else (vals[t] > vals[t + 1])
                   for t in range(k - 1)):
                return k
    return 0


def pattern_counts(p, k):
    """Counter: pattern of length k -> number of occurrences."""
    c = Counter()
    for idx in itertools.combinations(range(len(p)), k):
        vals = [p[i] for i in idx]
        c[tuple(sum(1 for w in vals if w < v) for v in vals)] += 1
    return c


# --------------------------------------------------------------------------------------------
# layers: first layer = rtl maxima united with ltr minima; remove it; repeat on what remains.
# Each layer is reported as the sorted positions *within the sequence that remained* (docstring
# example: [[0, 3, 5, 6, 7, 8], ...]).
# --------------------------------------------------------------------------------------------


def _layers(p, ltrmin_func):
    seq = list(p)
    out = []
    while seq:
        layer = sorted(set(rtlmax(seq)) | set(ltrmin_func(seq)))
        out.append(layer)
        seq = [seq[i] for i in range(len(seq)) if i not in layer]
    return out


def layers(p):
    """By the docstring text: 'the next layer is defined similarly for the permutation with the
    first layer removed'.  Records only depend on the relative order, so no standardisation is
    needed for a definitional reference."""
    return _layers(p, ltrmin)


def _ltrmin_capped(seq):
    """DEVIATION MODEL of the open finding: left-to-right minima computed with the sentinel
    len(seq), i.e. entries >= len(seq) are never minima (correct on standardised input only)."""
    return [i for i in range(len(seq))
            if seq[i] < len(seq) and all(seq[j] > seq[i] for j in range(i))]


def layers_deviation(p):
    return _layers(p, _ltrmin_capped)


# --------------------------------------------------------------------------------------------
# the statistics table, by NAME
# --------------------------------------------------------------------------------------------

LIS = "Longest increasing subsequence"
LDS = "Longest decreasing subsequence"

TABLE = (
    ("Number of inversions", lambda p: len(inversions(p))),
    ("Number of non-inversions", lambda p: len(non_inversions(p))),
    ("Major index", major_index),
    ("Number of descents", lambda p: len(descents(p))),
    ("Number of ascents", lambda p: len(ascents(p))),
    ("Number of peaks", lambda p: len(peaks(p))),
    ("Number of valleys", lambda p: len(valleys(p))),
    ("Number of cycles", lambda p: len(cycles(p))),
    ("Number of left-to-right minimas", lambda p: len(ltrmin(p))),
    ("Number of left-to-right maximas", lambda p: len(ltrmax(p))),
    ("Number of right-to-left minimas", lambda p: len(rtlmin(p))),
    ("Number of right-to-left maximas", lambda p: len(rtlmax(p))),
    ("Number of fixed points", lambda p: len(fixed_points(p))),
    ("Order", order),
    (LIS, lambda p: longest_monotone_subsequence(p, True)),
    (LDS, lambda p: longest_monotone_subsequence(p, False)),
    ("Depth", depth),
    ("Number of bounces", count_bounces),
    ("Maximum drop size", max_drop_size),
    ("Number of primes in the column sums", column_sum_primes),
    ("Holeyness of a permutation", holeyness),
    ("Number of stack-sorts needed", lambda p: passes_needed(p, stack_sort)),
    ("Number of pop-stack-sorts needed", lambda p: passes_needed(p, pop_stack_sort)),
    ("Number of pinnacles", lambda p: len(pinnacles(p))),
    ("Number of cyclic peaks", lambda p: len(cyclic_peaks(p))),
    ("Number of cyclic valleys", lambda p: len(cyclic_valleys(p))),
    ("Number of double excedance", lambda p: len(double_excedance(p))),
    ("Number of double drops", lambda p: len(double_drops(p))),
    ("Number of foremaxima", lambda p: len(foremaxima(p))),
    ("Number of afterminima", lambda p: len(afterminima(p))),
    ("Number of aftermaxima", lambda p: len(aftermaxima(p))),
    ("Number of foreminima", lambda p: len(foreminima(p))),
)
NAMES = tuple(name for name, _ in TABLE)
FUNC = dict(TABLE)

# DEVIATION MODEL of the open finding on the two table entries: longest ascending / descending
# *run* (consecutive positions) instead of subsequence.
DEVIATION = {
    LIS: lambda p: (longest_runs(p, True) if len(p) <= 12 else longest_runs_long(p, True))[0],
    LDS: lambda p: (longest_runs(p, False) if len(p) <= 12 else longest_runs_long(p, False))[0],
}


def table_values(p):
    """(reference vector, deviation vector) in the order of NAMES."""
    ref = tuple(f(p) for _, f in TABLE)
    dev = tuple(DEVIATION[name](p) if name in DEVIATION else ref[i]
                for i, name in enumerate(NAMES))
    return ref, dev


# --------------------------------------------------------------------------------------------
# bijections used as DATA for the preservation tools
# --------------------------------------------------------------------------------------------


def foata_cycles_to_word(p):
    """Fundamental transformation: write every cycle starting with its largest element, order the
    cycles by increasing largest element, erase the parentheses.  Sends the number of cycles to the
    number of left-to-right maxima."""
    cycs = []
    for orb in cycles(p):
        m = max(orb)
        cyc, x = [m], p[m]
        while x != m:
            cyc.append(x)
            x = p[x]
        cycs.append(cyc)
    cycs.sort(key=lambda c: c[0])
    return tuple(v for c in cycs for v in c)


def simion_schmidt(p):
    """123-avoider -> 132-avoider with the same left-to-right minima (values and positions): every
    other position, from left to right, receives the smallest unused value larger than the closest
    left-to-right minimum to its left."""
    n = len(p)
    mins = set(ltrmin(p))
    out = [None] * n
    used = {p[i] for i in mins}
    cur = None
    for i in range(n):
        if i in mins:
            out[i] = cur = p[i]
        else:
            v = min(x for x in range(n) if x not in used and x > cur)
            out[i] = v
            used.add(v)
    return tuple(out)


def contains(text, patt):
    k = len(patt)
    for idx in itertools.combinations(range(len(text)), k):
        vals = [text[i] for i in idx]
        if tuple(sum(1 for w in vals if w < v) for v in vals) == tuple(patt):
            return True
    return False


# --------------------------------------------------------------------------------------------


def selftest(maxn=5):
    """The two tabulated/DP references agree with their naive forms; a few docstring examples."""
    for n in range(maxn + 1):
        for p in itertools.permutations(range(n)):
            assert holeyness(p) == holeyness_naive(p), p
            for asc in (True, False):
                assert longest_monotone_subsequence(p, asc) == \
                    longest_monotone_subsequence_naive(p, asc), p
            assert depth(p) == sum(p[i] - i for i in range(n) if p[i] > i)
            assert order_long(p) == order_naive(p), p
            for asc in (True, False):
                assert longest_runs_long(p, asc) == longest_runs(p, asc), p
            assert len(inversions(p)) + len(non_inversions(p)) == n * (n - 1) // 2
    t = prime_table(200)
    assert all(t[m] == is_prime(m) for m in range(201))
    assert layers((2, 7, 3, 1, 4, 8, 6, 0, 5))[0] == [0, 3, 5, 6, 7, 8]
    assert layers_deviation((2, 7, 3, 1, 4, 8, 6, 0, 5)) == [[0, 3, 5, 6, 7, 8], [0, 2], [0]]
    assert foremaxima((1, 3, 5, 2, 4, 0)) == [0, 1]
    assert afterminima((3, 1, 0, 2, 4, 6, 5)) == [2, 3, 4]
    assert aftermaxima((5, 4, 3, 1, 2, 0)) == [2, 4]
    assert foreminima((6, 4, 2, 3, 5, 1, 0)) == [0, 1]
    assert maximal_decreasing_run((5, 0, 4, 1, 2, 3)) == 3
    assert count_bounces((0, 1)) == 1 and count_bounces((1, 0)) == 0 and count_bounces((0,)) == 0
    assert max_drop_size((2, 0, 1)) == 2
    assert passes_needed((4, 0, 2, 1, 3, 5), pop_stack_sort) == 4
    assert passes_needed((1, 2, 0), stack_sort) == 2
    assert simion_schmidt((2, 1, 0)) == (2, 1, 0) and simion_schmidt((1, 0, 2)) == (1, 0, 2)
    return True


# --------------------------------------------------------------------------------------------
# scale families: sparse, structured, fully enumerated families of LONG permutations (no sampling)
# --------------------------------------------------------------------------------------------


def _dsum(a, b):
    return tuple(a) + tuple(v + len(a) for v in b)


def _ssum(a, b):
    return tuple(v + len(b) for v in a) + tuple(b)


def scale_shapes(n):
    """Structured permutations of length n (n >= 7) with their labels: identity, reverse, rotations,
    one adjacent transposition in identity / reverse, i -> k*i mod n, layered permutations, 'q first
    then monotone rest', direct / skew sums of a small permutation with a long monotone one.
    Returned as a list of (label, tuple), each tuple once."""
    ident = tuple(range(n))
    rev = tuple(range(n - 1, -1, -1))
    out = [("identity", ident), ("reverse", rev)]
    for r in sorted({1, 2, 7, 8, 9, n // 2, n - 1}):
        if 0 < r < n:
            out.append(("rotate-left-%d" % r, ident[r:] + ident[:r]))
            out.append(("reverse-rotate-left-%d" % r, rev[r:] + rev[:r]))
    for i in sorted({0, 1, n // 2, n - 3, n - 2}):
        if 0 <= i < n - 1:
            for lab, base in (("identity", ident), ("reverse", rev)):
                q = list(base)
                q[i], q[i + 1] = q[i + 1], q[i]
                out.append(("%s-swap-%d" % (lab, i), tuple(q)))
    for k in (2, 3, 5, 7):
        if all(n % d or k % d for d in range(2, k + 1)):       # gcd(k, n) == 1
            out.append(("%d*i mod n" % k, tuple(k * i % n for i in range(n))))
            out.append(("%d*(i+1) mod n" % k, tuple(k * (i + 1) % n for i in range(n))))
    # layered: blocks of decreasing entries, blocks increasing
    for lab, sizes in (("layers-of-2", [2] * (n // 2) + [1] * (n % 2)),
                       ("layers-1-2-3..", None),
                       ("one-big-layer", [1, n - 2, 1])):
        if sizes is None:
            sizes, s = [], 1
            while sum(sizes) + s <= n:
                sizes.append(s)
                s += 1
            if sum(sizes) < n:
                sizes.append(n - sum(sizes))
        q, base = [], 0
        for s in sizes:
            q.extend(range(base + s - 1, base - 1, -1))
            base += s
        out.append((lab, tuple(q)))
        out.append((lab + "-complement", tuple(n - 1 - v for v in q)))
    for qv in sorted({0, 1, n // 2, n - 2}):
        rest_dec = [v for v in rev if v != qv]
        out.append(("first-%d-then-decreasing" % qv, (qv,) + tuple(rest_dec)))
        out.append(("first-%d-then-increasing" % qv, (qv,) + tuple(reversed(rest_dec))))
    for small in ((1, 0), (1, 2, 0), (2, 0, 3, 1)):
        m = n - len(small)
        for mlab, mono in (("inc", tuple(range(m))), ("dec", tuple(range(m - 1, -1, -1)))):
            out.append(("%s (+) %s" % (small, mlab), _dsum(small, mono)))
            out.append(("%s (+) %s" % (mlab, small), _dsum(mono, small)))
            out.append(("%s (-) %s" % (small, mlab), _ssum(small, mono)))
            out.append(("%s (-) %s" % (mlab, small), _ssum(mono, small)))
    seen, uniq = set(), []
    for lab, p in out:
        assert sorted(p) == list(range(n)), lab
        if p not in seen:
            seen.add(p)
            uniq.append((lab, p))
    return uniq


def holey_extremal(n):
    """Permutations built around the extremal structure of holeyness (a set of positions with few
    runs whose image has many runs): an interval I of k consecutive positions (every k with
    n//2 + 1 <= k <= n-1, every offset) carries a value set V whose complement C consists of
    n-k pairwise non-adjacent interior values (every such C), so V splits into n-k+1 runs; V is
    written increasing or decreasing in I, C increasing in the remaining positions.  Plus block
    sums: every sequence of blocks from {0, 1302, 2031} of total length n, as direct and as skew
    sum, and the multiplicative permutations i -> k*(i+1) mod (n+1) - 1 for every k coprime to
    n+1.  Returned as (label, tuple), each tuple once."""
    out = []
    for k in range(n // 2 + 1, n):
        for comp in itertools.combinations(range(1, n - 1), n - k):
            if any(comp[t + 1] - comp[t] == 1 for t in range(len(comp) - 1)):
                continue
            vals = [v for v in range(n) if v not in comp]
            for a in range(0, n - k + 1):
                for lab, inner in (("inc", vals), ("dec", vals[::-1])):
                    q = list(comp[:a]) + list(inner) + list(comp[a:])
                    out.append(("interval k=%d at %d, C=%s, %s" % (k, a, list(comp), lab), tuple(q)))
    blocks = ((0,), (1, 3, 0, 2), (2, 0, 3, 1))

    def seqs(rem):
        if rem == 0:
            yield ()
            return
        for b in blocks:
            if len(b) <= rem:
                for rest in seqs(rem - len(b)):
                    yield (b,) + rest

    for sq in seqs(n):
        if all(len(b) == 1 for b in sq):
            continue
        d, s = (), ()
        for b in sq:
            d, s = _dsum(d, b), _ssum(s, b)
        lab = "+".join("".join(map(str, b)) for b in sq)
        out.append(("direct sum " + lab, d))
        out.append(("skew sum " + lab, s))
    for k in range(2, n + 1):
        if math.gcd(k, n + 1) == 1:
            out.append(("%d*(i+1) mod %d - 1" % (k, n + 1),
                        tuple(k * (i + 1) % (n + 1) - 1 for i in range(n))))
    seen, uniq = set(), []
    for lab, p in out:
        assert sorted(p) == list(range(n)), lab
        if p not in seen:
            seen.add(p)
            uniq.append((lab, p))
    return uniq


def longest_runs_long(p, ascending=True):
    """Same definition as longest_runs, quadratic instead of cubic (for the long shapes): the
    longest monotone window starting at i is found by extending it step by step.  Cross-checked
    against longest_runs in selftest()."""
    n = len(p)
    if n == 0:
        return (0, [])
    ext = []
    for i in range(n):
        j = i
        while j + 1 < n and ((p[j] < p[j + 1]) if ascending else (p[j] > p[j + 1])):
            j += 1
        ext.append(j - i + 1)
    best = max(ext)
    return (best, [i for i in range(n) if ext[i] >= best])


# --------------------------------------------------------------------------------------------
# value scale: statistics whose VALUE (not the input size) crosses 2**53 and 2**64.  Of the
# statistics of this property only the order can: everything else is bounded by a polynomial in
# the length (< n**4).  Direct sums of cycles of pairwise coprime lengths drive the order up.
# --------------------------------------------------------------------------------------------

FIRST_PRIMES = (2, 3, 5, 7, 11, 13, 17, 19, 23, 29, 31, 37, 41, 43, 47, 53, 59, 61)
PRIME_POWERS = (4, 8, 9, 25, 27)


def cycle_sum(lengths):
    """direct sum of cycles: on each block of the given length, i -> i + 1 (mod length)."""
    out, base = [], 0
    for m in lengths:
        out.extend(base + (i + 1) % m for i in range(m))
        base += m
    return tuple(out)


def value_family(rmax=18):
    """(label, perm): cycle sums with lengths the first r primes, r = 1..rmax; the same with one
    prime power inserted (after its prime); and the reverse, complement and inverse of each."""
    base = []
    for r in range(1, rmax + 1):
        primes = list(FIRST_PRIMES[:r])
        base.append(("cycles %s" % primes, cycle_sum(primes)))
        for pw in PRIME_POWERS:
            lens = sorted(primes + [pw])
            base.append(("cycles %s" % lens, cycle_sum(lens)))
    out, seen = [], set()
    for lab, p in base:
        n = len(p)
        for vlab, q in (("", p), (" reversed", p[::-1]), (" complemented", tuple(n - 1 - v for v in p)),
                        (" inverted", inverse_of(p))):
            if q not in seen:
                seen.add(q)
                out.append((lab + vlab, q))
    return out


def inverse_of(p):
    q = [0] * len(p)
    for i, v in enumerate(p):
        q[v] = i
    return tuple(q)
