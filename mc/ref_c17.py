"""Reference code for C17 (BiSC), written from the definitions on plain tuples; imports nothing
from permuta and shares no code with it.

A permutation is a tuple of 0..k-1, a cell is a pair (x, y) with 0 <= x, y <= k: column x lies
between the points at positions x-1 and x, row y between the values y-1 and y.
"""
from __future__ import annotations

import itertools

from . import refmodel as R


# --------------------------------------------------------------------------------------------
# permutation in mesh pattern
# --------------------------------------------------------------------------------------------

def occupied_cells(text, idx):
    """Cells of the grid drawn through the occurrence idx that hold a point of text."""
    s = set(idx)
    return frozenset(R.cell_of(idx, text, i) for i in range(len(text)) if i not in s)


class OccTable:
    """For a fixed universe of texts: (pattern -> list of (text, occupied-cell set)) for every
    occurrence of every pattern of length <= maxk.  Plain tabulation of the definition."""

    def __init__(self, texts, maxk):
        self.by_text = {}
        for t in texts:
            d = {}
            n = len(t)
            for k in range(0, min(maxk, n) + 1):
                for idx in itertools.combinations(range(n), k):
                    p = R.std([t[i] for i in idx])
                    d.setdefault(p, []).append(occupied_cells(t, idx))
            self.by_text[t] = d

    def occ_sets(self, text, patt):
        return self.by_text[text].get(patt, ())

    def contains(self, text, patt, shading):
        """text contains the mesh pattern (patt, shading)."""
        for occ in self.by_text[text].get(patt, ()):
            if not (occ & shading):
                return True
        return False


def contains_mesh(text, patt, shading):
    shading = frozenset(shading)
    k = len(patt)
    for idx in itertools.combinations(range(len(text)), k):
        if R.std([text[i] for i in idx]) == tuple(patt):
            if not (occupied_cells(text, idx) & shading):
                return True
    return False


# --------------------------------------------------------------------------------------------
# mesh pattern in mesh pattern
# --------------------------------------------------------------------------------------------

def region(p, idx, cell):
    """The cells of p's grid that make up cell (a, b) of the grid drawn through the occurrence
    idx of a shorter pattern in p."""
    k = len(p)
    a, b = cell
    pos = [-1] + list(idx) + [k]
    val = [-1] + sorted(p[i] for i in idx) + [k]
    xs = range(pos[a] + 1, pos[a + 1] + 1)
    ys = range(val[b] + 1, val[b + 1] + 1)
    return [(x, y) for x in xs for y in ys]


def mesh_in_mesh(p, rp, q, sq):
    """(p, rp) contains (q, sq): there is an occurrence of q in p such that every cell of sq
    corresponds to a region of p's grid that holds no point of p and is completely shaded."""
    rp = frozenset(rp)
    sq = frozenset(sq)
    for idx in itertools.combinations(range(len(p)), len(q)):
        if R.std([p[i] for i in idx]) != tuple(q):
            continue
        if occupied_cells(p, idx) & sq:
            continue
        if all(c in rp for cell in sq for c in region(p, idx, cell)):
            return True
    return False


# --------------------------------------------------------------------------------------------
# maximal shading of an occurrence
# --------------------------------------------------------------------------------------------

def maximal_shading(text, idx):
    k = len(idx)
    occ = occupied_cells(text, idx)
    return frozenset(c for c in R.all_cells(k) if c not in occ)
