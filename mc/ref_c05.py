"""Reference code for C05 (and the pattern descriptions shared with C08).  No permuta import.

A pattern is *described* by a JSON-able spec
    ["perm",   [p...]]
    ["mesh",   [p...], [[x, y], ...]]
    ["biv",    [p...], [adjacent indices], [adjacent values]]
    ["vinc",   [p...], [adjacent indices]]
    ["covinc", [p...], [adjacent values]]
and *means* the pair (perm, frozenset of shaded cells); a classical pattern means (perm, {}).

Containment of a mesh pattern q in a mesh pattern p (definition, stated geometrically): draw p on
the grid [0, n+1]^2 with its points at (i+1, p[i]+1); cell (c, r) of p is the open unit square
(c, c+1) x (r, r+1).  An occurrence idx of q's permutation in p's permutation cuts the grid into
(k+1)^2 open rectangles; rectangle (a, b) is (X[a], X[a+1]) x (Y[b], Y[b+1]) with
X = [0] + [i+1 for i in idx] + [n+1], Y = [0] + sorted(p[i]+1 for i in idx) + [n+1].
idx is an occurrence of q in p iff for every shaded cell (a, b) of q every unit cell of p inside
the rectangle is shaded and no point of p lies inside the rectangle.
"""
from __future__ import annotations

import itertools

from . import refmodel as R


# --------------------------------------------------------------------------------------------
# specs
# --------------------------------------------------------------------------------------------

def sem(spec):
    """(perm, shading) meant by a spec."""
    kind = spec[0]
    p = tuple(spec[1])
    n = len(p)
    if kind == "perm":
        return (p, frozenset())
    if kind == "mesh":
        return (p, frozenset((x, y) for x, y in spec[2]))
    if kind == "biv":
        idx, val = spec[2], spec[3]
    elif kind == "vinc":
        idx, val = spec[2], []
    elif kind == "covinc":
        idx, val = [], spec[2]
    else:
        raise ValueError(kind)
    cells = set()
    for c in idx:                       # nothing between positions c-1 and c: whole column c
        for r in range(n + 1):
            cells.add((c, r))
    for r in val:                       # nothing between values r-1 and r: whole row r
        for c in range(n + 1):
            cells.add((c, r))
    return (p, frozenset(cells))


def is_classical(spec):
    return spec[0] == "perm"


def spec_size(spec):
    """Simplest-first key."""
    p, sh = sem(spec)
    return (len(p), len(sh), p, sorted(sh), spec[0])


# --------------------------------------------------------------------------------------------
# containment between mesh patterns
# --------------------------------------------------------------------------------------------

def mesh_in_mesh_occurrences(q, p):
    (qp, qs), (pp, ps) = q, p
    n = len(pp)
    out = []
    for idx in R.occurrences(qp, pp):
        X = [0] + [i + 1 for i in idx] + [n + 1]
        Y = [0] + sorted(pp[i] + 1 for i in idx) + [n + 1]
        ok = True
        for (a, b) in qs:
            x0, x1, y0, y1 = X[a], X[a + 1], Y[b], Y[b + 1]
            # unit cells (c, r) with x0 <= c < x1 and y0 <= r < y1 lie inside the rectangle
            for c in range(x0, x1):
                for r in range(y0, y1):
                    if (c, r) not in ps:
                        ok = False
            # points (i+1, pp[i]+1) strictly inside
            for i in range(n):
                if x0 < i + 1 < x1 and y0 < pp[i] + 1 < y1:
                    ok = False
            if not ok:
                break
        if ok:
            out.append(idx)
    return out


def mesh_in_mesh(q, p):
    return bool(mesh_in_mesh_occurrences(q, p))


def minimal(elements):
    """The minimal elements (w.r.t. containment) of a collection of (perm, shading) pairs."""
    els = set(elements)
    return frozenset(e for e in els
                     if not any(f != e and mesh_in_mesh(f, e) for f in els))


def sort_plain(elements):
    """A deterministic order on (perm, shading) pairs, only used to hand elements to the library
    in *some* fixed order (the library must not care)."""
    return sorted(elements, key=lambda e: (len(e[0]), e[0], len(e[1]), sorted(e[1])))


# --------------------------------------------------------------------------------------------
# avoidance classes on S<=N as bitmasks
# --------------------------------------------------------------------------------------------

class Horizon:
    def __init__(self, n):
        self.n = n
        self.perms = R.perms_upto(n)
        self._mask = {}

    def cmask(self, e):
        """bit i set iff perms[i] contains the mesh pattern e."""
        m = self._mask.get(e)
        if m is None:
            m = 0
            for i, s in enumerate(self.perms):
                if R.mesh_contains(s, e[0], e[1]):
                    m |= 1 << i
            self._mask[e] = m
        return m

    def class_mask(self, elements):
        """bit i set iff perms[i] contains at least one of the patterns (complement of Av)."""
        m = 0
        for e in elements:
            m |= self.cmask(e)
        return m


# --------------------------------------------------------------------------------------------
# pools
# --------------------------------------------------------------------------------------------

def cells_list(sh):
    return [list(c) for c in sorted(sh)]


def full_pool():
    """DESIGN 5/C05: S<=3, Mesh<=1 (all 18), the <=1-cell shadings of length 2, all vincular and
    covincular patterns of length <= 2, bivincular with one index and one value (length <= 2)."""
    pool = []
    for p in R.perms_upto(3):
        pool.append(["perm", list(p)])
    for k in (0, 1):
        for p in R.perms(k):
            for sh in R.all_shadings(k):
                pool.append(["mesh", list(p), cells_list(sh)])
    for p in R.perms(2):
        pool.append(["mesh", list(p), []])
        for c in R.all_cells(2):
            pool.append(["mesh", list(p), [list(c)]])
    for k in (0, 1, 2):
        for p in R.perms(k):
            for r in range(0, k + 2):
                for adj in itertools.combinations(range(k + 1), r):
                    pool.append(["vinc", list(p), list(adj)])
                    pool.append(["covinc", list(p), list(adj)])
            for i in range(k + 1):
                for v in range(k + 1):
                    pool.append(["biv", list(p), [i], [v]])
    # the plain mesh pattern with the same shading as each one-adjacency (co)vincular pattern
    for p in R.perms(2):
        for a in range(3):
            for kind in ("vinc", "covinc"):
                pool.append(["mesh", list(p), cells_list(sem([kind, list(p), [a]])[1])])
    pool.sort(key=spec_size)
    return pool


def sub_pool():
    """30 patterns chosen to contain every mechanism: classical chains, the two patterns over the
    empty permutation, sub/superset shadings of one point, the same shading written as a plain
    mesh pattern and as a (bi/co)vincular pattern, incomparable and comparable length-2 shadings."""
    pool = [
        ["perm", []], ["perm", [0]], ["perm", [0, 1]], ["perm", [1, 0]],
        ["perm", [0, 1, 2]], ["perm", [0, 2, 1]], ["perm", [1, 0, 2]],
        ["mesh", [], []], ["mesh", [], [[0, 0]]],
        ["mesh", [0], []], ["mesh", [0], [[0, 0]]], ["mesh", [0], [[0, 1]]],
        ["mesh", [0], [[0, 0], [0, 1]]], ["mesh", [0], [[1, 1]]],
        ["mesh", [0], [[0, 0], [1, 1]]], ["mesh", [0], [[0, 0], [0, 1], [1, 0], [1, 1]]],
        ["mesh", [0, 1], [[1, 1]]], ["mesh", [0, 1], [[0, 0]]], ["mesh", [1, 0], [[1, 1]]],
        ["vinc", [0, 1], [1]], ["vinc", [1, 0], [1]], ["vinc", [0, 1], [0]],
        ["covinc", [0, 1], [1]], ["covinc", [1, 0], [1]],
        ["biv", [0, 1], [1], [1]], ["biv", [1, 0], [1], [1]], ["biv", [0, 1], [0], [2]],
        ["mesh", [0, 1], [[1, 0], [1, 1], [1, 2]]],      # == vinc 01 [1]
        ["mesh", [0, 1], [[0, 1], [1, 1], [2, 1]]],      # == covinc 01 [1]
        ["vinc", [0], [0]],
    ]
    pool.sort(key=spec_size)
    return pool


def deep_pool():
    """14 patterns for the longest sequences."""
    pool = [
        ["perm", [0]], ["perm", [0, 1]], ["perm", [1, 0]], ["perm", [0, 2, 1]],
        ["mesh", [], [[0, 0]]],
        ["mesh", [0], [[0, 1]]], ["mesh", [0], [[0, 0], [0, 1]]], ["mesh", [0], [[1, 1]]],
        ["mesh", [0, 1], [[1, 1]]], ["mesh", [1, 0], [[1, 1]]],
        ["vinc", [0, 1], [1]], ["covinc", [0, 1], [1]], ["biv", [0, 1], [1], [1]],
        ["mesh", [0, 1], [[1, 0], [1, 1], [1, 2]]],
    ]
    pool.sort(key=spec_size)
    return pool


# --------------------------------------------------------------------------------------------
# text forms of classical patterns
# --------------------------------------------------------------------------------------------

def text0(p):
    return "".join(str(v) for v in p)


def text1(p):
    return "".join(str(v + 1) for v in p)


SEPARATORS = [", ", " ", ",", "_", "\n", " | ", "; ", "abc", "-", ".", "\t", ") ("]
WRAPS = [("", ""), ("Av(", ")"), ("{", "}"), ("[", "]"), ("  ", "\n")]


def strided(n, stride):
    """Every stride-th permutation of length n in lexicographic order (a stated, fixed family)."""
    return [p for i, p in enumerate(itertools.permutations(range(n))) if i % stride == 0]


# --------------------------------------------------------------------------------------------
# large regions: point-free rectangles of boxes, shaded fully or with a hole / a missing line
# (same family as mc/checks/c06.py `holes`; regions of 3 x 3 boxes need length >= 5)
# --------------------------------------------------------------------------------------------

def pointfree_rects(patt, minside):
    """Every rectangle of boxes [a..b] x [c..d] of the grid of patt with both sides >= minside
    that has no point of patt strictly inside."""
    k = len(patt)
    for a in range(k + 1):
        for b in range(a + minside - 1, k + 1):
            for c in range(k + 1):
                for d in range(c + minside - 1, k + 1):
                    if not any(a <= i < b and c <= patt[i] < d for i in range(k)):
                        yield a, b, c, d


def rect_shadings(rect):
    """The rectangle itself, minus one box (every box in turn: corner, border, interior), minus
    one column, minus one row."""
    a, b, c, d = rect
    full = frozenset((x, y) for x in range(a, b + 1) for y in range(c, d + 1))
    out = {full}
    for box in full:
        out.add(full - {box})
    for x in range(a, b + 1):
        out.add(frozenset(z for z in full if z[0] != x))
    for y in range(c, d + 1):
        out.add(frozenset(z for z in full if z[1] != y))
    return out


def holes_of(patt, minside):
    out = set()
    for rect in pointfree_rects(patt, minside):
        out |= rect_shadings(rect)
    return sorted(out, key=lambda sh: (len(sh), sorted(sh)))


def symmetry_representatives(n):
    """The permutations of length n that are the lexicographically least member of their orbit
    under the eight symmetries."""
    return [p for p in R.perms(n) if p == min(R.orbit(p))]


def holes_small_patterns(thorough):
    """The small partner p: every shading of the one-point pattern with >= 1 cell (15) and the
    shaded pattern over the empty permutation; thorough: also the one-cell shadings of length 2."""
    out = [["mesh", [], [[0, 0]]]]
    for sh in R.all_shadings(1):
        if sh:
            out.append(["mesh", [0], cells_list(sh)])
    if thorough:
        for p in R.perms(2):
            for c in R.all_cells(2):
                out.append(["mesh", list(p), [list(c)]])
    return out
