"""E3 - stateless schedule exploration of real threads with iterative preemption bounding.

A cooperative scheduler runs N real `threading.Thread`s strictly one at a time (baton = one
semaphore per thread).  Scheduling points are
  * every `line` event (optionally every `opcode` event) of a frame whose code lives in one of the
    watched source files (sys.settrace), and
  * every acquire of a cooperative lock (CoopLock), which replaces the library's locks.
At a point the running thread consults the choice sequence: choice 0 = keep running (canonical
order of the enabled threads: the running thread first if still enabled, then ascending ids);
any other choice while the running thread is enabled is a *preemption*.  Blocking on a held
CoopLock and thread exit are forced (free) switches.  No enabled thread while some are blocked =
deadlock.  Only points with >= 2 alternatives are recorded, so a schedule is a short list of ints.

    run_once(bodies, prefix, setup, ...) -> Execution
    explore(bodies, setup, bound, check, roots=None) -> generator of Execution (DFS, guidance idiom)
"""
from __future__ import annotations

import sys
import threading


class Divergence(RuntimeError):
    """Replaying a prefix met a point whose number of alternatives does not fit the recorded
    choice: the execution is not deterministic under the scheduler - a hard harness error."""


class _Abort(BaseException):
    pass


_TLS = threading.local()
_CURRENT = [None]          # the active Sched (one exploration at a time per process)


class Sched:
    def __init__(self, n, prefix, expect=None):
        self.n = n
        self.expect = expect
        self.sems = [threading.Semaphore(0) for _ in range(n)]
        self.state = ["ready"] * n          # ready | blocked | done
        self.blocked_on = [None] * n
        self.prefix = list(prefix)
        self.points = []                    # (alternatives, running_still_enabled)
        self.choices = []
        self.results = [None] * n
        self.done_evt = threading.Event()
        self.deadlock = False
        self.aborting = False
        self.error = None
        self.npoints_all = 0                # including single-alternative points
        self.expr = False                   # expression-level points (instrumented modules) on?

    # -- choice ---------------------------------------------------------------------------
    def _choose(self, running):
        en = [t for t in range(self.n) if self.state[t] == "ready"]
        if not en:
            return None
        run_en = running is not None and self.state[running] == "ready"
        if run_en:
            en.remove(running)
            en.insert(0, running)
        self.npoints_all += 1
        if len(en) == 1:
            return en[0]
        i = len(self.choices)
        if i < len(self.prefix):
            c = self.prefix[i]
            if not 0 <= c < len(en):
                self.error = Divergence("choice %d at point %d but only %d alternatives"
                                        % (c, i, len(en)))
                self._abort()
                raise _Abort()
        else:
            c = 0
        if self.expect is not None and i < len(self.expect) and \
                tuple(self.expect[i]) != (len(en), run_en):
            self.error = Divergence("point %d: expected %r, got %r"
                                    % (i, tuple(self.expect[i]), (len(en), run_en)))
            self._abort()
            raise _Abort()
        self.points.append((len(en), run_en))
        self.choices.append(c)
        return en[c]

    def _abort(self):
        self.aborting = True
        self.done_evt.set()
        for s in self.sems:
            s.release()

    def _wait(self, tid):
        self.sems[tid].acquire()
        if self.aborting:
            raise _Abort()

    # -- called by the running thread -----------------------------------------------------------
    def point(self, tid):
        if self.aborting:
            raise _Abort()
        nxt = self._choose(tid)
        if nxt != tid:
            self.sems[nxt].release()
            self._wait(tid)

    def block(self, tid, lock):
        self.state[tid] = "blocked"
        self.blocked_on[tid] = lock
        nxt = self._choose(None)
        if nxt is None:
            self.deadlock = True
            self._abort()
            raise _Abort()
        self.sems[nxt].release()
        self._wait(tid)

    def unblock(self, lock):
        for t in range(self.n):
            if self.state[t] == "blocked" and self.blocked_on[t] is lock:
                self.state[t] = "ready"
                self.blocked_on[t] = None

    def thread_exit(self, tid):
        self.state[tid] = "done"
        if self.aborting:
            return
        try:
            nxt = self._choose(None)
        except _Abort:
            return
        if nxt is None:
            if any(s == "blocked" for s in self.state):
                self.deadlock = True
                self._abort()
            self.done_evt.set()
        else:
            self.sems[nxt].release()


class CoopLock:
    """Drop-in for threading.Lock / RLock / multiprocessing.Lock inside the explored library."""

    def __init__(self, reentrant=False):
        self.owner = None
        self.depth = 0
        self.reentrant = reentrant
        # creating a lock at run time (lazily, per object, through a defaultdict factory ...) is a
        # synchronisation-related step: other threads may run between "decide a lock is needed"
        # and "publish it", so it is a scheduling point inside an exploration
        s = _CURRENT[0]
        tid = getattr(_TLS, "tid", None)
        if s is not None and tid is not None and not s.aborting:
            s.point(tid)

    def acquire(self, blocking=True, timeout=-1):
        s = _CURRENT[0]
        tid = getattr(_TLS, "tid", None)
        if s is None or tid is None:
            # outside an exploration (sequential set-up code): plain lock, never contended
            if self.owner is not None and not (self.reentrant and self.owner == "main"):
                raise RuntimeError("CoopLock held by %r outside exploration" % (self.owner,))
            self.owner = "main"
            self.depth += 1
            return True
        s.point(tid)
        if self.reentrant and self.owner == tid:
            self.depth += 1
            return True
        while self.owner is not None:
            if not blocking:
                return False
            s.block(tid, self)
        self.owner = tid
        self.depth = 1
        return True

    def release(self):
        self.depth -= 1
        if self.depth > 0 and self.reentrant:
            return
        self.depth = 0
        self.owner = None
        s = _CURRENT[0]
        if s is not None:
            s.unblock(self)

    def locked(self):
        return self.owner is not None

    __enter__ = acquire

    def __exit__(self, *exc):
        self.release()
        return False


class Execution:
    __slots__ = ("points", "choices", "results", "deadlock", "hang", "npoints_all", "error")

    def preemptions_before(self, i):
        return sum(1 for j in range(i) if self.choices[j] != 0 and self.points[j][1])

    def preemptions(self):
        return self.preemptions_before(len(self.choices))


_MUTATORS = frozenset("append add update extend setdefault pop clear insert remove discard popitem "
                      "appendleft popleft rotate sort reverse".split())


def state_writers(package_dir, skip=()):
    """(file name, co_firstlineno) of every function of the package - outside the files in `skip` -
    that WRITES state which can outlive the call: a store to (or deletion of) an attribute or a
    subscript of an attribute, a mutating method call on an attribute, a global/nonlocal
    declaration.  Constructors are left out (the object is not shared yet).  Found by an AST scan of
    the tree under test, so a memo added by a change is picked up without touching the harness.
    Lines of these functions are scheduling points too: memo tables on shared pattern objects
    and class-level tables of other modules are shared state of concurrent queries."""
    import ast
    import os
    out = set()
    for dp, _dn, fns in os.walk(package_dir):
        for f in fns:
            path = os.path.join(dp, f)
            if not f.endswith(".py") or path in skip:
                continue
            try:
                tree = ast.parse(open(path).read())
            except SyntaxError:
                continue
            for node in ast.walk(tree):
                if not isinstance(node, (ast.FunctionDef, ast.AsyncFunctionDef)):
                    continue
                if node.name in ("__init__", "__new__", "__post_init__"):
                    continue
                hit = False
                for sub in ast.walk(node):
                    tg = []
                    if isinstance(sub, ast.Assign):
                        tg = sub.targets
                    elif isinstance(sub, (ast.AugAssign, ast.AnnAssign)):
                        tg = [sub.target]
                    elif isinstance(sub, ast.Delete):
                        tg = sub.targets
                    for t in tg:
                        for tt in ast.walk(t):
                            if isinstance(tt, ast.Attribute) and isinstance(tt.ctx, (ast.Store, ast.Del)):
                                hit = True
                            if (isinstance(tt, ast.Subscript) and isinstance(tt.ctx, (ast.Store, ast.Del))
                                    and isinstance(tt.value, ast.Attribute)):
                                hit = True
                    if isinstance(sub, (ast.Global, ast.Nonlocal)):
                        hit = True
                    if (isinstance(sub, ast.Call) and isinstance(sub.func, ast.Attribute)
                            and sub.func.attr in _MUTATORS and isinstance(sub.func.value, ast.Attribute)):
                        hit = True
                if hit:
                    out.add((path, min([d.lineno for d in node.decorator_list] + [node.lineno])))
    return frozenset(out)


def _make_tracer(s, tid, watched, opcodes, calls=False):
    """`calls`: additionally a scheduling point at the entry of and the return from every Python
    function of an UNWATCHED file that is called from a watched frame - the switch then happens
    in the middle of the calling source line (after the operands were read, before/after the
    callee ran).  Deterministic, unlike instruction events."""
    def local(frame, event, arg):
        if event == ("opcode" if opcodes else "line"):
            s.point(tid)
        return local

    def callee(frame, event, arg):
        if event == "return":
            s.point(tid)
        return callee

    def glob(frame, event, arg):
        if event == "call":
            code = frame.f_code
            if code.co_filename in watched or (code.co_filename, code.co_firstlineno) in watched:
                if opcodes:
                    frame.f_trace_opcodes = True
                return local
            if calls and code is not _pt.__code__:
                back = frame.f_back
                if back is not None and back.f_code.co_filename in watched:
                    frame.f_trace_lines = False
                    s.point(tid)
                    return callee
        return None

    return glob


def run_once(bodies, prefix, shared, watched, opcodes=False, timeout=20.0, expect=None,
             calls=False, expr=False):
    """Run the thread bodies (callables taking `shared`) under the schedule `prefix` (then choice
    0).  Returns an Execution."""
    n = len(bodies)
    s = Sched(n, prefix, expect)
    s.expr = expr
    _CURRENT[0] = s

    def wrapper(i):
        _TLS.tid = i
        res = None
        try:
            s._wait(i)
            sys.settrace(_make_tracer(s, i, watched, opcodes, calls))
            try:
                res = ("ok", bodies[i](shared))
            finally:
                sys.settrace(None)
        except _Abort:
            res = ("aborted", None)
        except BaseException as exc:  # noqa - an exception in a query is an observation
            res = ("exc", type(exc).__name__ + ": " + str(exc)[:200])
        s.results[i] = res
        _TLS.tid = None
        s.thread_exit(i)

    threads = [threading.Thread(target=wrapper, args=(i,), daemon=True) for i in range(n)]
    for t in threads:
        t.start()
    try:
        first = s._choose(None)
        s.sems[first].release()
    except _Abort:
        pass
    hang = not s.done_evt.wait(timeout)
    if hang:
        s._abort()
    for t in threads:
        t.join(5.0)
    _CURRENT[0] = None
    ex = Execution()
    ex.points, ex.choices, ex.results = s.points, s.choices, list(s.results)
    ex.deadlock, ex.hang, ex.npoints_all, ex.error = s.deadlock, hang, s.npoints_all, s.error
    if s.error is not None:
        raise s.error
    if len(ex.choices) < len(prefix) and not (ex.deadlock or ex.hang):
        raise Divergence("execution ended after %d choice points, the replayed prefix has %d: "
                         "state leaks between executions or the run is not deterministic"
                         % (len(ex.choices), len(prefix)))
    return ex


def explore(run, bound, roots=None, max_exec=None):
    """Depth-first exploration with preemption bound, exactly the guidance idiom.
    run(prefix, expect) -> Execution (expect = the (alternatives, running_enabled) pairs the
    replayed prefix must meet again; a mismatch is a Divergence).  Yields every execution.  `roots`: list of prefixes to start from
    (default: the empty prefix).  The subtree of a root contains every schedule extending it within
    the bound (alternatives at points *after* the root prefix)."""
    stack = [(list(r[0]), r[1]) for r in (roots if roots is not None else [([], None)])]
    count = 0
    while stack:
        prefix, expect = stack.pop()
        x = run(prefix, expect)
        count += 1
        yield x
        if max_exec is not None and count >= max_exec:
            return
        cost = x.preemptions_before(len(prefix))
        # iterate later points; alternatives in reverse so that the DFS visits them in order
        new = []
        for i in range(len(prefix), len(x.points)):
            nalt, run_en = x.points[i]
            c = cost + (1 if run_en else 0)
            if c <= bound:
                for alt in range(1, nalt):
                    new.append((x.choices[:i] + [alt], x.points[:i + 1]))
        stack.extend(reversed(new))


def split(run, bound, min_cost, max_expand=800):
    """Executes the default schedule and, breadth first, every prefix whose preemption cost is
    below `min_cost` (their subtrees are the big ones: free switches - which thread starts, who
    runs after an exit or a block - cost nothing).  Returns (executions, roots): the executions
    made here (to be checked by the caller like any other) and the remaining prefixes, each the
    root of an independent subtree, to be explored elsewhere with `explore(..., roots=...)`.
    Together they cover exactly the schedules `explore(run, bound)` would visit."""
    execs, roots = [], []
    queue = [([], None, 0)]
    while queue:
        prefix, expect, cost = queue.pop(0)
        if prefix and (cost >= min_cost or len(execs) >= max_expand):
            roots.append((prefix, expect))
            continue
        x = run(prefix, expect)
        execs.append(x)
        for i in range(len(prefix), len(x.points)):
            nalt, run_en = x.points[i]
            c = cost + (1 if run_en else 0)
            if c <= bound:
                for alt in range(1, nalt):
                    queue.append((x.choices[:i] + [alt], x.points[:i + 1], c))
    return execs, roots


def first_level(run, bound):
    """The default execution plus all one-deviation prefixes: used to split the tree into
    independent subtrees for worker processes."""
    x = run([], None)
    roots = []
    for i in range(len(x.points)):
        nalt, run_en = x.points[i]
        if (1 if run_en else 0) <= bound:
            for alt in range(1, nalt):
                roots.append((x.choices[:i] + [alt], x.points[:i + 1]))
    return x, roots


# --------------------------------------------------------------------------------------------
# making a library's locks cooperative, from outside
# --------------------------------------------------------------------------------------------

class _LockNamespace:
    """Stands in for the `multiprocessing` / `threading` module object *inside the library's
    namespace*: locks the library creates at run time are cooperative too; everything else is
    forwarded to the real module."""

    def __init__(self, real):
        self._real = real

    def Lock(self, *a, **k):  # noqa
        return CoopLock(False)

    def RLock(self, *a, **k):  # noqa
        return CoopLock(True)

    def __getattr__(self, name):
        return getattr(self._real, name)


def _is_lock(obj):
    import _thread
    import multiprocessing.synchronize as ms
    return isinstance(obj, (ms.Lock, ms.RLock, _thread.LockType, _thread.RLock, CoopLock))


def cooperative_locks(module):
    """Replace every lock bound at module level / class level in `module`, and the module's
    references to `threading` / `multiprocessing` (also `Lock`/`RLock` imported by name), by
    cooperative ones.  Returns the number of lock objects replaced."""
    import multiprocessing
    import threading as th
    import _thread
    import multiprocessing.synchronize as ms
    n = 0
    for k, v in list(vars(module).items()):
        if v is multiprocessing or v is th:
            setattr(module, k, _LockNamespace(v))
        elif v in (th.Lock, multiprocessing.Lock) or v is getattr(_thread, "allocate_lock", None):
            setattr(module, k, lambda *a, **kw: CoopLock(False))
        elif v in (th.RLock, multiprocessing.RLock):
            setattr(module, k, lambda *a, **kw: CoopLock(True))
        elif _is_lock(v):
            setattr(module, k, CoopLock(isinstance(v, (ms.RLock, _thread.RLock))))
            n += 1
        elif isinstance(v, type) and getattr(v, "__module__", None) == module.__name__:
            for ck, cv in list(vars(v).items()):
                if _is_lock(cv):
                    setattr(v, ck, CoopLock(isinstance(cv, (ms.RLock, _thread.RLock))))
                    n += 1
    return n


def _containers(module):
    """(owner, key, container) for every mutable container bound at module or class level, and -
    one level down - for the instance dictionary of every plain object bound there (descriptors,
    singletons, registries: a lazily initialised attribute of such an object is state too)."""
    import collections
    import types
    for owner in [module] + [v for v in vars(module).values()
                             if isinstance(v, type) and getattr(v, "__module__", None) == module.__name__]:
        for k, v in list(vars(owner).items()):
            if k.startswith("__"):
                continue
            if isinstance(v, (dict, list, set, collections.deque)):
                yield owner, k, v
            elif (not isinstance(v, (type, types.ModuleType, types.FunctionType, types.BuiltinFunctionType,
                                     classmethod, staticmethod, property, CoopLock, _LockNamespace))
                  and type(v).__module__ == module.__name__
                  and isinstance(getattr(v, "__dict__", None), dict)):
                yield v, None, v.__dict__


def snapshot_state(module):
    """Shallow copies of every mutable container bound at module or class level (taken right after
    import): the per-execution reset puts them back, so that nothing an execution leaves behind
    (lazily created locks, registries, memo tables) leaks into the next one."""
    return [(owner, k, type(v), list(v.items()) if isinstance(v, dict) else list(v))
            for owner, k, v in _containers(module)]


def restore_state(module, snap):
    for owner, k, typ, content in snap:
        cur = vars(owner).get(k) if k is not None else owner.__dict__
        if not isinstance(cur, typ):
            continue          # rebound to something else by the library itself (e.g. clear_cache)
        cur.clear()
        if isinstance(cur, dict):
            cur.update(content)
        elif isinstance(cur, set):
            cur.update(content)
        else:
            cur.extend(content)


PT_NAME = "__mc_pt__"


def _pt(value):
    """Identity; inside an exploration at granularity 'expr' also a scheduling point.  Calls to it
    are woven into the watched modules at import (see instrument_source): after every attribute
    read, subscript read and call return inside a function body - i.e. between any two reads of
    shared state in ONE source line."""
    s = _CURRENT[0]
    if s is not None and s.expr:
        tid = getattr(_TLS, "tid", None)
        if tid is not None and not s.aborting:
            s.point(tid)
    return value


def instrument_source(source, filename):
    """AST of `source` with every Load-context Attribute / Subscript and every Call inside a
    function body wrapped as __mc_pt__(<expr>).  Evaluation order and results are unchanged
    (identity call); decorators, defaults, annotations and class-level statements are left alone
    (they run at import, never under the scheduler)."""
    import ast

    class T(ast.NodeTransformer):
        def __init__(self):
            self.depth = 0

        def _func(self, node):
            self.depth += 1
            node.body = [self.visit(b) for b in node.body]
            self.depth -= 1
            return node

        visit_FunctionDef = _func
        visit_AsyncFunctionDef = _func

        def visit_Lambda(self, node):
            self.depth += 1
            node.body = self.visit(node.body)
            self.depth -= 1
            return node

        def visit_ClassDef(self, node):
            saved, self.depth = self.depth, 0
            node.body = [self.visit(b) for b in node.body]
            self.depth = saved
            return node

        def visit_AnnAssign(self, node):
            if node.value is not None:
                node.value = self.visit(node.value)
            node.target = self.visit(node.target)
            return node

        def _wrap(self, node):
            node = self.generic_visit(node)
            if self.depth and isinstance(getattr(node, "ctx", ast.Load()), ast.Load):
                new = ast.Call(func=ast.Name(id=PT_NAME, ctx=ast.Load()), args=[node], keywords=[])
                return ast.copy_location(new, node)
            return node

        visit_Attribute = _wrap
        visit_Subscript = _wrap

        def visit_Call(self, node):
            if isinstance(node.func, ast.Name) and node.func.id == "super" and not node.args:
                return node
            return self._wrap(node)

    tree = T().visit(ast.parse(source, filename))
    ast.fix_missing_locations(tree)
    return tree


def import_with_cooperative_locks(package, instrument=()):
    """(Re-)import `package` while multiprocessing.Lock/RLock and threading.Lock/RLock create
    cooperative locks, so that also factories captured at import time (e.g.
    defaultdict(multiprocessing.Lock)) are cooperative.  Third-party modules are loaded first by
    a plain import, then only the package's own modules are re-imported under the patch.
    `instrument`: file names whose source is compiled through instrument_source (expression-level
    scheduling points); needs an interpreter that finds no cached byte code for them (the runner
    uses -B and a private, empty PYTHONPYCACHEPREFIX)."""
    import builtins
    import importlib
    import importlib.util
    import importlib.machinery as mach
    import multiprocessing
    import threading as th
    importlib.import_module(package)
    for name in [m for m in sys.modules if m == package or m.startswith(package + ".")]:
        del sys.modules[name]
    saved = (multiprocessing.Lock, multiprocessing.RLock, th.Lock, th.RLock)
    multiprocessing.Lock = lambda *a, **k: CoopLock(False)
    multiprocessing.RLock = lambda *a, **k: CoopLock(True)
    th.Lock = lambda *a, **k: CoopLock(False)
    th.RLock = lambda *a, **k: CoopLock(True)
    setattr(builtins, PT_NAME, _pt)
    instrument = frozenset(instrument)
    done = []
    orig_s2c = mach.SourceFileLoader.source_to_code
    orig_get = mach.SourceFileLoader.get_code

    def source_to_code(self, data, path, *a, **k):
        if path in instrument:
            done.append(path)
            src = importlib.util.decode_source(data) if isinstance(data, bytes) else data
            return compile(instrument_source(src, path), path, "exec", dont_inherit=True)
        return orig_s2c(self, data, path, *a, **k)

    def get_code(self, fullname):
        path = self.get_filename(fullname)
        if path in instrument:        # never from cached byte code
            return self.source_to_code(self.get_data(path), path)
        return orig_get(self, fullname)

    mach.SourceFileLoader.source_to_code = source_to_code
    mach.SourceFileLoader.get_code = get_code
    try:
        mod = importlib.import_module(package)
    finally:
        multiprocessing.Lock, multiprocessing.RLock, th.Lock, th.RLock = saved
        mach.SourceFileLoader.source_to_code = orig_s2c
        mach.SourceFileLoader.get_code = orig_get
    missing = instrument - frozenset(done)
    if missing:
        raise RuntimeError("not instrumented (imported from elsewhere?): %r" % sorted(missing))
    return mod


def reset_locks(module):
    """Fresh cooperative locks before every execution (an aborted execution may leave one held)."""
    for k, v in list(vars(module).items()):
        if isinstance(v, CoopLock):
            setattr(module, k, CoopLock(v.reentrant))
        elif isinstance(v, type) and getattr(v, "__module__", None) == module.__name__:
            for ck, cv in list(vars(v).items()):
                if isinstance(cv, CoopLock):
                    setattr(v, ck, CoopLock(cv.reentrant))
