"""Reference code for C18 (shading lemma, point insertion, region tests, rendering).

Nothing here imports permuta.  A mesh pattern is (patt, shading): patt a tuple, shading a set of
cells (x, y), 0 <= x, y <= k.  Cell (x, y) is the open unit square between vertical grid lines
x and x+1 and horizontal grid lines y and y+1, where pattern point i sits on the crossing of
vertical line i+1 and horizontal line patt[i]+1 (so the grid lines are numbered 1..k, and 0 / k+1
are the border).

Containment is decided through *occupancy tables*: for a classical pattern pi and a text sigma,
every occurrence of pi in sigma (itertools.combinations + standardisation, refmodel.occurrences)
has an occupancy mask = the set of cells that hold at least one further entry of sigma
(refmodel.cell_of).  sigma contains (pi, R) iff some occurrence has mask & R == 0.  That is the
definition of mesh containment, only grouped by mask so that all shadings of pi share the work.
"""
from __future__ import annotations

import itertools

from . import refmodel as R

SHADE_CH = "▒"
POINT_CH = "●"


def cbit(k, cell):
    return 1 << (cell[0] * (k + 1) + cell[1])


def mask_of(k, cells):
    m = 0
    for c in cells:
        m |= cbit(k, c)
    return m


def cells_of(k, mask):
    return [(x, y) for x in range(k + 1) for y in range(k + 1) if mask >> (x * (k + 1) + y) & 1]


def texts_upto(n):
    """S<=n, shortest first, lexicographic within a length; the index in this list is the bit
    number of the text in every bitset below."""
    return R.perms_upto(n)


# --------------------------------------------------------------------------------------------
# occupancy tables
# --------------------------------------------------------------------------------------------

def occupancy(patt_len, idx, text):
    """(mask, inc, dec) of one occurrence: mask = cells holding >= 1 other entry, inc = cells
    holding two other entries forming an increasing pair, dec = ... a decreasing pair."""
    k = patt_len
    s = set(idx)
    by_cell = {}
    for i in range(len(text)):
        if i in s:
            continue
        by_cell.setdefault(R.cell_of(idx, text, i), []).append(text[i])
    mask = inc = dec = 0
    for cell, vals in by_cell.items():
        b = cbit(k, cell)
        mask |= b
        for a, c in itertools.combinations(vals, 2):      # a is left of c
            if a < c:
                inc |= b
            else:
                dec |= b
    return mask, inc, dec


def table_chunk(args):
    """Occupancy of every occurrence of every pattern of length <= maxk in texts[lo:hi].
    Returns {patt: {(mask, inc, dec): bitset of text indices}}."""
    texts, lo, hi, maxk = args
    out = {}
    for t in range(lo, hi):
        text = texts[t]
        n = len(text)
        bit = 1 << t
        for k in range(0, min(maxk, n) + 1):
            for idx in itertools.combinations(range(n), k):
                patt = R.std([text[i] for i in idx])
                key = occupancy(k, idx, text)
                d = out.setdefault(patt, {})
                d[key] = d.get(key, 0) | bit
    return out


def merge_tables(parts):
    out = {}
    for part in parts:
        for patt, d in part.items():
            o = out.setdefault(patt, {})
            for key, bits in d.items():
                o[key] = o.get(key, 0) | bits
    return out


class Sem:
    """Containing sets (bitsets over texts_upto(N)) of all shadings of one classical pattern."""

    def __init__(self, patt, rich):
        self.patt = tuple(patt)
        self.k = len(self.patt)
        self.ncells = (self.k + 1) ** 2
        self.rich = rich                      # {(mask, inc, dec): bits}
        plain = {}
        for (m, _i, _d), bits in rich.items():
            plain[m] = plain.get(m, 0) | bits
        self.plain = plain                    # {mask: bits}
        self._f = None

    def contain(self, shading_mask):
        """Bitset of the texts containing (patt, shading)."""
        if self._f is not None:
            return self._f[shading_mask]
        out = 0
        for m, bits in self.plain.items():
            if not m & shading_mask:
                out |= bits
        return out

    def tabulate(self):
        """contain() for all shadings at once: f[Rm] = OR of plain[m] over m disjoint from Rm
        (= m a subset of the complement), by the subset-sum recurrence over the cells."""
        if self._f is not None or self.ncells > 16:
            return
        size = 1 << self.ncells
        full = size - 1
        g = [0] * size                        # g[A] = OR of plain[m], m subset of A
        for m, bits in self.plain.items():
            g[m] = bits
        for b in range(self.ncells):
            bit = 1 << b
            for a in range(size):
                if a & bit:
                    g[a] |= g[a ^ bit]
        self._f = [g[full ^ r] for r in range(size)]

    def with_point(self, shading_mask):
        """{cell bit: (pt, inc, dec)}: bitsets of the texts having an occurrence of (patt, shading)
        with >= 1 entry in the cell / with an increasing pair in it / with a decreasing pair."""
        res = {1 << b: [0, 0, 0] for b in range(self.ncells)}
        for (m, inc, dec), bits in self.rich.items():
            if m & shading_mask:
                continue
            mm = m
            while mm:
                low = mm & -mm
                r = res[low]
                r[0] |= bits
                if inc & low:
                    r[1] |= bits
                if dec & low:
                    r[2] |= bits
                mm ^= low
        return res


class LocalSem:
    """Containment of all shadings of ONE classical pattern pi of length k, decided on
    texts = every permutation obtained from pi by inserting at most `extra` new points
    (refmodel.insert_point) = every sigma of length <= k + extra that contains pi classically;
    permutations not containing pi contain no shading of it, so this is the same horizon as
    S<=k+extra.  Kept per text (tuple of the distinct occupancy masks of its occurrences of pi)
    so that it also works for grids with more than 16 cells."""

    def __init__(self, patt, extra):
        self.patt = tuple(patt)
        self.k = k = len(self.patt)
        self.ncells = (k + 1) ** 2
        self.extra = extra
        level = {self.patt}
        texts = [self.patt]
        for _ in range(extra):
            nxt = set()
            for t in level:
                n = len(t)
                for i in range(n + 1):
                    for v in range(n + 1):
                        nxt.add(R.insert_point(t, i, v))
            level = nxt
            texts.extend(sorted(nxt))
        self.texts = texts
        self.occs = []
        for t in texts:
            ms = set()
            for idx in itertools.combinations(range(len(t)), k):
                if R.std([t[i] for i in idx]) == self.patt:
                    ms.add(occupancy(k, idx, t)[0])
            self.occs.append(tuple(sorted(ms)))

    def contain(self, shading_mask):
        out = 0
        for ti, ms in enumerate(self.occs):
            for m in ms:
                if not m & shading_mask:
                    out |= 1 << ti
                    break
        return out

    def analyse(self, shading_mask):
        """(bitset of the texts containing (patt, shading), forced): forced = the cells c such
        that some containing text has an entry in c in EVERY occurrence that respects the shading,
        i.e. exactly the cells whose shading would lose that text."""
        base = forced = 0
        for ti, ms in enumerate(self.occs):
            inter = -1
            for m in ms:
                if not m & shading_mask:
                    inter &= m
            if inter != -1:
                base |= 1 << ti
                forced |= inter
        return base, forced

    def lost(self, shading_mask, extra_mask):
        """First text containing (patt, shading) but not (patt, shading + extra cells), or None."""
        for ti, ms in enumerate(self.occs):
            ok = [m for m in ms if not m & shading_mask]
            if ok and all(m & extra_mask for m in ok):
                return self.texts[ti]
        return None


# --------------------------------------------------------------------------------------------
# the 'fresh' dimension: what a caller may do to an answer it received
# --------------------------------------------------------------------------------------------

SENTINEL = -7          # never a point value, a cell coordinate or a key


def damage(obj, kind):
    """Edit a returned object in place at every nesting level (kind 'append': put the sentinel
    into every list / dict / set; kind 'clear': empty them).  Immutable objects are left alone;
    a pattern object is searched through its attributes.  Returns True iff something was edited."""
    if isinstance(obj, list):
        for x in list(obj):
            damage(x, kind)
        if kind == "append":
            obj.append(SENTINEL)
        else:
            obj.clear()
        return True
    if isinstance(obj, dict):
        for x in list(obj.values()):
            damage(x, kind)
        if kind == "append":
            obj[SENTINEL] = [SENTINEL]
        else:
            obj.clear()
        return True
    if isinstance(obj, set):
        if kind == "append":
            obj.add((SENTINEL, SENTINEL))
        else:
            obj.clear()
        return True
    if isinstance(obj, (tuple, frozenset, str, int)) or obj is None:
        done = False
        if isinstance(obj, tuple):
            for x in obj:
                done = damage(x, kind) or done
        return done
    done = False
    for name in ("pattern", "shading"):
        if hasattr(obj, name):
            done = damage(getattr(obj, name), kind) or done
    return done


def norm_result(obj):
    """A plain, comparable, JSON-able picture of a result."""
    if isinstance(obj, list):
        return ["list", [norm_result(x) for x in obj]]
    if isinstance(obj, tuple):
        return ["tuple", [norm_result(x) for x in obj]]
    if isinstance(obj, dict):
        return ["dict", sorted(([norm_result(k), norm_result(v)] for k, v in obj.items()), key=repr)]
    if isinstance(obj, (set, frozenset)):
        return ["set", sorted((norm_result(x) for x in obj), key=repr)]
    if isinstance(obj, (int, str, bool)) or obj is None:
        return obj
    if hasattr(obj, "pattern") and hasattr(obj, "shading"):
        return ["meshpatt", norm_result(tuple(obj.pattern)), norm_result(frozenset(obj.shading))]
    return repr(obj)


def holds_sentinel(n):
    if isinstance(n, list):
        return any(holds_sentinel(x) for x in n)
    return n == SENTINEL and not isinstance(n, bool)


def first_bit(x):
    return (x & -x).bit_length() - 1


# --------------------------------------------------------------------------------------------
# geometry of the grid: corners, regions
# --------------------------------------------------------------------------------------------

def point_coords(patt):
    """Grid-line coordinates of the pattern points."""
    return [(i + 1, v + 1) for i, v in enumerate(patt)]


def cell_corners(cell):
    x, y = cell
    return {(x, y), (x + 1, y), (x, y + 1), (x + 1, y + 1)}


def corner_point_values(patt, cells):
    """Values of the pattern points that are a corner of every one of the given cells."""
    common = None
    for c in cells:
        cc = cell_corners(c)
        common = cc if common is None else common & cc
    return {v for i, v in enumerate(patt) if (i + 1, v + 1) in (common or set())}


def cells_around_point(i, v):
    """The four cells that have the point with index i and value v on a corner."""
    px, py = i + 1, v + 1
    return {(a, b) for a in (px - 1, px) for b in (py - 1, py)}


def cells_on_side(i, v, direction):
    """Those of the four cells whose centre is displaced from the point in the named direction
    ('default' / 'none': no cell)."""
    px, py = i + 1, v + 1
    out = set()
    for (a, b) in cells_around_point(i, v):
        cx, cy = a + 0.5, b + 0.5
        if (direction == "east" and cx > px) or (direction == "west" and cx < px) or \
                (direction == "north" and cy > py) or (direction == "south" and cy < py):
            out.add((a, b))
    return out


# --------------------------------------------------------------------------------------------
# the shading lemmas themselves, stated on the box grid for each of the four corners / sides
# (Hilmarsson, Jonsdottir, Sigurdardottir, Vidarsdottir, Ulfarsson 2015, Lemma "Shading Lemma";
# Claesson, Tenner, Ulfarsson 2017, "Simultaneous Shading Lemma").  Both are theorems, and the
# mirrored statements are theorems because containment is invariant under the symmetries of the
# square; so a shading they license is sound for every horizon.  They are NOT complete: a shading
# they do not license may still be sound, which is why the checks never demand these answers but
# only use them to skip the containment search.  Polynomial in the length of the pattern.
# --------------------------------------------------------------------------------------------

def _cell_from(px, py, sx, sy):
    """The cell touching grid crossing (px, py) in quadrant (sx, sy)."""
    return (px if sx > 0 else px - 1, py if sy > 0 else py - 1)


def ref_lemma_points(patt, shading, cell):
    """Values of the pattern points through which the shading lemma licenses shading `cell`."""
    k = len(patt)
    out = []
    if cell in shading:
        return out
    for i, v in enumerate(patt):
        px, py = i + 1, v + 1
        for sx, sy in ((1, 1), (-1, 1), (-1, -1), (1, -1)):
            if _cell_from(px, py, sx, sy) != cell:
                continue
            # the box diagonally opposite (across the point) is not shaded
            if _cell_from(px, py, -sx, -sy) in shading:
                continue
            # at most one of the two other boxes around the point is shaded
            if _cell_from(px, py, sx, -sy) in shading and _cell_from(px, py, -sx, sy) in shading:
                continue
            # along the horizontal line through the point (away from the point): a shaded box on
            # the far side of the line has its partner on the cell's side shaded
            near_row, far_row = cell[1], (py - 1 if sy > 0 else py)
            if any((l, far_row) in shading and (l, near_row) not in shading
                   for l in range(k + 1) if l not in (px - 1, px)):
                continue
            # the same along the vertical line through the point
            near_col, far_col = cell[0], (px - 1 if sx > 0 else px)
            if any((far_col, l) in shading and (near_col, l) not in shading
                   for l in range(k + 1) if l not in (py - 1, py)):
                continue
            out.append(v)
    return out


def ref_simul_points(patt, shading, c1, c2):
    """Values of the pattern points through which the simultaneous shading lemma licenses shading
    the two adjacent cells c1, c2 (the point sits in the middle of a long side of the domino)."""
    k = len(patt)
    out = []
    if c1 in shading or c2 in shading or abs(c1[0] - c2[0]) + abs(c1[1] - c2[1]) != 1:
        return out
    common = cell_corners(c1) & cell_corners(c2)
    for i, v in enumerate(patt):
        px, py = i + 1, v + 1
        if (px, py) not in common:
            continue
        if c1[0] == c2[0]:
            # vertical domino in column a, rows py-1 and py; the other side is column oc
            a = c1[0]
            oc = px - 1 if a == px else px
            rows = (py - 1, py)
            if (oc, rows[0]) in shading or (oc, rows[1]) in shading:
                continue
            if any((oc, l) in shading and (a, l) not in shading for l in range(k + 1) if l not in rows):
                continue
            if any(((l, rows[0]) in shading) != ((l, rows[1]) in shading)
                   for l in range(k + 1) if l not in (px - 1, px)):
                continue
        else:
            # horizontal domino in row b, columns px-1 and px; the other side is row orow
            b = c1[1]
            orow = py - 1 if b == py else py
            cols = (px - 1, px)
            if (cols[0], orow) in shading or (cols[1], orow) in shading:
                continue
            if any((l, orow) in shading and (l, b) not in shading for l in range(k + 1) if l not in cols):
                continue
            if any(((cols[0], l) in shading) != ((cols[1], l) in shading)
                   for l in range(k + 1) if l not in (py - 1, py)):
                continue
        out.append(v)
    return out


def point_dominoes(patt):
    """Unordered adjacent cell pairs that have a pattern point in the middle of a long side."""
    out = set()
    for i, v in enumerate(patt):
        px, py = i + 1, v + 1
        for a in (px - 1, px):
            out.add(((a, py - 1), (a, py)))
        for b in (py - 1, py):
            out.add(((px - 1, b), (px, b)))
    return sorted(out)


def ref_is_shaded_rect(shading, ll, ur):
    return all((x, y) in shading for x in range(ll[0], ur[0] + 1) for y in range(ll[1], ur[1] + 1))


def ref_is_pointfree(patt, ll, ur):
    """The union of the cells ll..ur is the open rectangle (ll.x, ur.x+1) x (ll.y, ur.y+1) in
    grid-line coordinates; it is point free iff no pattern point lies strictly inside."""
    for (px, py) in point_coords(patt):
        if ll[0] < px < ur[0] + 1 and ll[1] < py < ur[1] + 1:
            return False
    return True


def ref_non_pointless(patt):
    k = len(patt)
    pts = set(point_coords(patt))
    return {c for c in R.all_cells(k) if cell_corners(c) & pts}


def ref_anchored(patt, shading):
    k = len(patt)
    rng = range(k + 1)
    return (all((k, i) in shading for i in rng), all((i, k) in shading for i in rng),
            all((0, i) in shading for i in rng), all((i, 0) in shading for i in rng))


def rectangles(k):
    out = []
    for x0 in range(k + 1):
        for y0 in range(k + 1):
            for x1 in range(x0, k + 1):
                for y1 in range(y0, k + 1):
                    out.append(((x0, y0), (x1, y1)))
    return out


# --------------------------------------------------------------------------------------------
# reading a plot back
# --------------------------------------------------------------------------------------------

class PlotError(Exception):
    pass


def parse_plot(text, s):
    """Read the picture as a person would: rows from top to bottom are cell row k, grid line k,
    cell row k-1, ..., grid line 1, cell row 0; a cell row is s text lines, a cell is s characters
    wide, cells are separated by one '|' (cell rows) and grid crossings by s '-' (grid lines).
    Missing characters at the end of a line are blanks.  Returns (patt, shading)."""
    lines = text.split("\n")
    L = len(lines)
    if (L - s) % (s + 1):
        raise PlotError("line count %d does not fit cell size %d" % (L, s))
    k = (L - s) // (s + 1)
    width = (k + 1) * s + k
    shading = set()
    col_of_row = {}
    pos = 0
    for y in range(k, -1, -1):
        for _ in range(s):
            ln = lines[pos]
            pos += 1
            if len(ln) > width:
                raise PlotError("line too long: %r" % ln)
            ln = ln.ljust(width)
            for x in range(k + 1):
                chunk = ln[x * (s + 1): x * (s + 1) + s]
                if chunk == SHADE_CH * s:
                    shading.add((x, y, _))
                elif chunk != " " * s:
                    raise PlotError("cell (%d,%d) drawn as %r" % (x, y, chunk))
                if x < k and ln[x * (s + 1) + s] != "|":
                    raise PlotError("missing '|' in %r" % ln)
        if y > 0:
            ln = lines[pos]
            pos += 1
            if len(ln) != width:
                raise PlotError("grid line %r has the wrong width" % ln)
            for x in range(k + 1):
                if ln[x * (s + 1): x * (s + 1) + s] != "-" * s:
                    raise PlotError("grid line %r" % ln)
                if x < k:
                    ch = ln[x * (s + 1) + s]
                    if ch == POINT_CH:
                        if (y - 1) in col_of_row:
                            raise PlotError("two points on grid line %d" % y)
                        col_of_row[y - 1] = x
                    elif ch != "+":
                        raise PlotError("crossing drawn as %r" % ch)
    # a cell counts as shaded only if all of its s text lines are shaded
    cells = {}
    for (x, y, r) in shading:
        cells.setdefault((x, y), set()).add(r)
    for c, rows in cells.items():
        if len(rows) != s:
            raise PlotError("cell %r is only partly shaded" % (c,))
    patt = [None] * k
    for val, col in col_of_row.items():
        if patt[col] is not None:
            raise PlotError("two points on vertical line %d" % (col + 1))
        patt[col] = val
    if any(v is None for v in patt):
        raise PlotError("not every vertical line carries a point")
    return tuple(patt), set(cells)
