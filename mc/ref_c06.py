"""Reference code for C06 (mesh pattern inside mesh pattern; induced sub-pattern).

Plain tuples, no permuta import.  Two independent formulations of "the sub-pattern of p induced
on the index set I":

  region(...)     the docstring formulation: cell (x, y) of the induced pattern is shaded iff
                  every original cell of the merged region is shaded and no point of p lies
                  strictly inside the region.
  strongest(...)  the semantic formulation, which knows nothing about regions: cell (x, y) is
                  shaded iff for NO permutation sigma and NO occurrence o of the mesh pattern p
                  in sigma a point of sigma outside o[I] lies in cell (x, y) of the grid drawn
                  through o[I].  (If some sigma has such a point z then sigma restricted to
                  o + {z} -- or to o, if z is a point of o -- has one as well, so sigma of
                  length <= |p| + 1 decide; `Sem(patt, maxlen)` can be asked for a larger
                  horizon to confirm this.)

  "q occurs in p at occ, pointwise soundly" (for every sigma and every occurrence o of p in
  sigma, o[occ] is an occurrence of q in sigma)  <=>  occ is a classical occurrence of q's
  pattern in p's pattern and no cell hit in the sense above is shaded in q
  <=>  shading(q) is a subset of strongest(p, occ).
"""
from __future__ import annotations

import itertools

from . import refmodel as R


def index_subsets(k):
    return [I for r in range(k + 1) for I in itertools.combinations(range(k), r)]


def region(patt, shading, I):
    """(induced pattern, frozenset of shaded cells) by merged regions."""
    I = tuple(sorted(I))
    n, k = len(patt), len(I)
    sub = R.std([patt[i] for i in I])
    cols = [-1] + list(I) + [n]                          # positions of the kept vertical lines
    rows = [-1] + sorted(patt[i] for i in I) + [n]       # values of the kept horizontal lines
    out = set()
    for x in range(k + 1):
        for y in range(k + 1):
            # original column c lies between positions c-1 and c; it is inside sub-column x iff
            # cols[x] <= c-1 and c <= cols[x+1]
            cells = [(c, r) for c in range(cols[x] + 1, cols[x + 1] + 1)
                     for r in range(rows[y] + 1, rows[y + 1] + 1)]
            inside = any(cols[x] < i < cols[x + 1] and rows[y] < patt[i] < rows[y + 1]
                         for i in range(n))
            if not inside and all(c in shading for c in cells):
                out.add((x, y))
    return sub, frozenset(out)


def strongest_naive(patt, shading, I, maxlen):
    """One-shot semantic definition over all sigma of length <= maxlen."""
    I = tuple(sorted(I))
    hit = set()
    for n in range(len(patt), maxlen + 1):
        for sigma in R.perms(n):
            for o in R.mesh_occurrences(patt, shading, sigma):
                oi = tuple(o[i] for i in I)
                for z in range(n):
                    if z not in oi:
                        hit.add(R.cell_of(oi, sigma, z))
    return frozenset(R.all_cells(len(I))) - hit


class Sem:
    """The same, with everything that does not depend on the shading tabulated per underlying
    pattern: one entry per (sigma, classical occurrence o)."""

    def __init__(self, patt, maxlen, max_subset=None):
        self.patt = tuple(patt)
        self.k = len(patt)
        self.maxlen = maxlen
        self.subsets = [I for I in index_subsets(self.k) if max_subset is None or len(I) <= max_subset]
        self.cells = {I: frozenset(R.all_cells(len(I))) for I in self.subsets}
        self.entries = []       # (len sigma, sigma, o, occupied cells w.r.t. o, {I: cells hit w.r.t. o[I]})
        for n in range(self.k, maxlen + 1):
            for sigma in R.perms(n):
                for o in R.occurrences(self.patt, sigma):
                    so = set(o)
                    occupied = frozenset(R.cell_of(o, sigma, z) for z in range(n) if z not in so)
                    hits = {}
                    for I in self.subsets:
                        oi = tuple(o[i] for i in I)
                        hits[I] = frozenset(R.cell_of(oi, sigma, z) for z in range(n) if z not in oi)
                    self.entries.append((n, sigma, o, occupied, hits))

    def strongest_all(self, shading, maxlen=None):
        """{I: strongest shading on I} for the mesh pattern (patt, shading)."""
        hit = {I: set() for I in self.subsets}
        for n, _sigma, _o, occupied, hits in self.entries:
            if maxlen is not None and n > maxlen:
                continue
            if occupied.isdisjoint(shading):            # o is an occurrence of the mesh pattern
                for I in self.subsets:
                    hit[I] |= hits[I]
        return {I: self.cells[I] - hit[I] for I in self.subsets}

    def witness(self, shading, I, cell):
        """(sigma, o) such that o is an occurrence of (patt, shading) in sigma and a point of
        sigma outside o[I] lies in `cell` of the grid through o[I]; None if there is none."""
        for _n, sigma, o, occupied, hits in self.entries:
            if occupied.isdisjoint(shading) and cell in hits[I]:
                return sigma, o
        return None


def strongest_by_insertion(patt, shading, I):
    """The semantic formulation for LONG patterns (polynomial).  Only two kinds of sigma matter
    (see the module docstring): patt itself, where the points outside I hit their cells, and patt
    with ONE extra point placed in a box (bx, by) that is not shaded - the old points then form
    an occurrence of (patt, shading) and the extra point lies, in the grid through the chosen
    points, in column #{i in I : i < bx} and row #{i in I : patt[i] < by}."""
    I = tuple(sorted(I))
    n = len(patt)
    hit = set()
    for z in range(n):
        if z not in I:
            hit.add(R.cell_of(I, patt, z))
    for bx in range(n + 1):
        for by in range(n + 1):
            if (bx, by) not in shading:
                hit.add((sum(1 for i in I if i < bx), sum(1 for i in I if patt[i] < by)))
    return frozenset(R.all_cells(len(I))) - hit


def mim_expected(qpatt, qshading, ppatt, strongest_of_p):
    """Occurrences of q in p: classical occurrences whose induced (strongest) shading covers q's."""
    return [occ for occ in R.occurrences(qpatt, ppatt) if qshading <= strongest_of_p[occ]]


def selfcheck(maxk=2, horizon=4):
    """region == strongest (tabulated) == strongest (one-shot), horizon |p|+1 and `horizon`."""
    n_cmp = 0
    for k in range(maxk + 1):
        for p in R.perms(k):
            sem = Sem(p, max(k + 1, horizon))
            for sh in R.all_shadings(k):
                a = sem.strongest_all(sh, k + 1)
                b = sem.strongest_all(sh)
                for I in sem.subsets:
                    sub, reg = region(p, sh, I)
                    assert sub == R.std([p[i] for i in I])
                    assert reg == a[I] == b[I], (p, sorted(sh), I, sorted(reg), sorted(a[I]), sorted(b[I]))
                    assert strongest_by_insertion(p, sh, I) == reg, (p, sorted(sh), I)
                    if len(sh) in (0, 1, (k + 1) ** 2 - 1, (k + 1) ** 2):
                        assert strongest_naive(p, sh, I, k + 1) == reg, (p, sorted(sh), I)
                    n_cmp += 1
    return n_cmp
