"""Entry point:  python -m mc.runner <Cxx> [--tier quick|thorough] [--replay <file>]"""
from __future__ import annotations

import argparse
import importlib
import json
import os
import sys
import traceback

from . import core


def main(argv=None):
    ap = argparse.ArgumentParser()
    ap.add_argument("prop")
    ap.add_argument("--tier", default=os.environ.get("VERIF_TIER", "quick"),
                    choices=["quick", "thorough"])
    ap.add_argument("--replay", default=None)
    ap.add_argument("--only", default=None, help="comma list of sub-checks (debugging only; "
                    "evidence is then not written)")
    args = ap.parse_args(argv)
    prop = args.prop.upper()
    try:
        seed = int(os.environ.get("VERIF_SEED", "0"))
    except ValueError:
        seed = 0

    # the repository under test: always the working tree, never an installed copy
    sys.path.insert(0, core.REPO)
    mod = importlib.import_module("mc.checks.%s" % prop.lower())
    if getattr(mod, "IMPORT_PERMUTA", True):
        import permuta  # noqa
        assert os.path.abspath(permuta.__file__).startswith(os.path.abspath(core.REPO) + os.sep), \
            "permuta imported from %s, not from %s" % (permuta.__file__, core.REPO)

    ctx = core.Ctx(prop, args.tier, seed, mod.LEVEL)
    ctx.extra["only"] = args.only
    if args.only:
        ctx.extra["partial_run_only"] = args.only
    try:
        if args.replay:
            with open(args.replay) as fh:
                rec = json.load(fh)
            ctx.replaying = True
            mod.replay(ctx, rec)
            # determinism: a replay must give the same verdict twice
            n1 = ctx.nviol
            mod.replay(ctx, rec)
            if ctx.nviol not in (0, 2 * n1) or (n1 == 0) != (ctx.nviol == 0):
                print("REPLAY-NONDETERMINISTIC property=%s" % prop)
                return 2
            print("replay %s: %s" % (args.replay, "still fails" if n1 else "passes"))
            rc = core.finish(ctx, write_evidence=False)
            return rc
        only = set(args.only.split(",")) if args.only else None
        if only is not None:
            mod.run(ctx, only=only)
        else:
            mod.run(ctx)
    except SystemExit:
        raise
    except BaseException as exc:
        traceback.print_exc()
        tb = traceback.extract_tb(exc.__traceback__)
        inner = os.path.abspath(tb[-1].filename) if tb else ""
        if inner.startswith(os.path.join(os.path.abspath(core.REPO), "permuta") + os.sep):
            # the library itself raised where no check expected it to: that is an observation
            # about the code under test, reported as a violation with the traceback as the case
            ctx.violation("uncaught-library-exception",
                          {"traceback": traceback.format_exc().splitlines()[-12:]},
                          detail=repr(exc))
            return core.finish(ctx, write_evidence=not args.only)
        # harness failure: never a verdict
        print("HARNESS-ERROR property=%s (no verdict)" % prop)
        import shutil
        shutil.rmtree(ctx.work, ignore_errors=True)
        return 2
    return core.finish(ctx, write_evidence=not args.only)


if __name__ == "__main__":
    sys.exit(main())
