"""Reference code for C03 (mesh / bivincular occurrences in permutations).

Plain tuples, no permuta import.  Both tables are the definitions of refmodel.mesh_occurrences /
refmodel.biv_occurrences with the part that does not depend on the shading (resp. on the adjacency
sets) computed once per (underlying pattern, text) so that it can be reused for every shading:

  mesh:  an occurrence idx of the underlying pattern is an occurrence of (patt, shading) iff no
         other point of the text lies in a shaded cell of the grid drawn through idx, i.e. iff the
         set of cells occupied by the other points is disjoint from the shading.
  biv:   column c may be required adjacent iff nothing of the text lies strictly between
         occurrence positions c-1 and c (c = 0: before the first, c = k: after the last);
         rows likewise with values.  No shadings are involved.

`selfcheck` compares both with the one-shot definitions in refmodel.
"""
from __future__ import annotations

import itertools

from . import refmodel as R


def mesh_table(patt, text):
    """[(idx, frozenset of cells occupied by the points of text outside idx)] for every classical
    occurrence idx of patt in text, in lexicographic order."""
    out = []
    n = len(text)
    for idx in R.occurrences(patt, text):
        inside = set(idx)
        occupied = frozenset(R.cell_of(idx, text, i) for i in range(n) if i not in inside)
        out.append((idx, occupied))
    return out


def mesh_from_table(table, shading):
    return [idx for idx, occupied in table if occupied.isdisjoint(shading)]


def biv_table(patt, text):
    """[(idx, columns that are gap-free, rows that are gap-free)]."""
    out = []
    n = len(text)
    k = len(patt)
    for idx in R.occurrences(patt, text):
        pos = [-1] + list(idx) + [n]
        vals = [-1] + sorted(text[i] for i in idx) + [n]
        cols = frozenset(c for c in range(k + 1) if pos[c + 1] - pos[c] == 1)
        rows = frozenset(r for r in range(k + 1) if vals[r + 1] - vals[r] == 1)
        out.append((idx, cols, rows))
    return out


def biv_from_table(table, adj_idx, adj_val):
    ai, av = set(adj_idx), set(adj_val)
    return [idx for idx, cols, rows in table if ai <= cols and av <= rows]


def biv_shading(k, adj_idx, adj_val):
    """The mesh shading that a bivincular pattern stands for: full columns / full rows."""
    return frozenset([(c, y) for c in adj_idx for y in range(k + 1)]
                     + [(x, r) for r in adj_val for x in range(k + 1)])


def subsets(seq):
    seq = list(seq)
    for r in range(len(seq) + 1):
        yield from itertools.combinations(seq, r)


def shadings_by_size(k, sizes):
    cells = R.all_cells(k)
    for r in sizes:
        for sub in itertools.combinations(cells, r):
            yield frozenset(sub)


def mask_to_shading(k, mask):
    """Bit i of mask <-> cell number i in refmodel.all_cells(k) order."""
    cells = R.all_cells(k)
    return frozenset(c for i, c in enumerate(cells) if mask >> i & 1)


# --------------------------------------------------------------------------------------------
# long texts: the same definitions, but the classical occurrences are found by extending prefixes
# (combinations + standardisation is exponential when the pattern is nearly as long as the text)
# --------------------------------------------------------------------------------------------

def occurrences_dfs(patt, text):
    """All index tuples of text order-isomorphic to patt, in lexicographic order: a prefix is
    extended by every later position whose value compares with all chosen values exactly as the
    next pattern entry compares with the earlier pattern entries."""
    k, n = len(patt), len(text)
    out, idx = [], []

    def rec(j, start):
        if j == k:
            out.append(tuple(idx))
            return
        for i in range(start, n - (k - j) + 1):
            v = text[i]
            if all((text[idx[a]] < v) == (patt[a] < patt[j]) for a in range(j)):
                idx.append(i)
                rec(j + 1, i + 1)
                idx.pop()

    import sys
    if sys.getrecursionlimit() < k + 200:
        sys.setrecursionlimit(k + 1000)
    rec(0, 0)
    return out


def mesh_table_dfs(patt, text):
    """mesh_table for long texts."""
    out = []
    n = len(text)
    for idx in occurrences_dfs(patt, text):
        inside = set(idx)
        occupied = frozenset(R.cell_of(idx, text, i) for i in range(n) if i not in inside)
        out.append((idx, occupied))
    return out


def std_sorted(seq):
    """Standardisation through sorting (for long sequences); cross-checked with refmodel.std."""
    order = sorted(range(len(seq)), key=lambda i: seq[i])
    out = [0] * len(seq)
    for r, i in enumerate(order):
        out[i] = r
    return tuple(out)


def selfcheck_dfs(maxk=4, maxn=6):
    n_cmp = 0
    for n in range(maxn + 1):
        for t in R.perms(n):
            assert std_sorted([2 * v + 1 for v in t]) == R.std(t) == t
            for k in range(min(maxk, n) + 1):
                for p in R.perms(k):
                    assert occurrences_dfs(p, t) == R.occurrences(p, t), (p, t)
                    n_cmp += 1
    return n_cmp


def selfcheck(maxk=2, maxn=4):
    """The tables against the one-shot definitions, all shadings / all adjacency sets."""
    n_cmp = 0
    for k in range(maxk + 1):
        shs = list(R.all_shadings(k))
        adjs = list(subsets(range(k + 1)))
        for p in R.perms(k):
            for n in range(maxn + 1):
                for t in R.perms(n):
                    mt = mesh_table(p, t)
                    for sh in shs:
                        assert mesh_from_table(mt, sh) == R.mesh_occurrences(p, sh, t), (p, sh, t)
                        n_cmp += 1
                    bt = biv_table(p, t)
                    for ai in adjs:
                        for av in adjs:
                            a = biv_from_table(bt, ai, av)
                            assert a == R.biv_occurrences(p, ai, av, t), (p, ai, av, t)
                            # the two formulations of the bivincular family agree with each other
                            assert a == mesh_from_table(mt, biv_shading(k, ai, av)), (p, ai, av, t)
                            n_cmp += 1
    return n_cmp
