"""Reference definitions for C10 (algebraic and structural operations), written from the
mathematical definitions on plain tuples.  Nothing here imports permuta and nothing is shared with
mc/refmodel.py except the conventions (a permutation of length n is a tuple of 0..n-1; as a point
set it is {(i, p[i])}).

Constructions are done on POINT SETS / SORT KEYS and converted back with `from_points` / `ranks`,
which assert that the outcome is a bijection - so a reference answer is a permutation by
construction or the harness stops with an AssertionError (never a verdict).
"""
from __future__ import annotations

import itertools


# --------------------------------------------------------------------------------------------
# basics
# --------------------------------------------------------------------------------------------

def is_perm(t):
    return sorted(t) == list(range(len(t)))


def ranks(keys):
    """keys: pairwise distinct sortable (and hashable) objects.  Position i gets the rank of
    keys[i]."""
    keys = list(keys)
    order = sorted(keys)
    assert all(order[i] < order[i + 1] for i in range(len(order) - 1)), "keys not distinct"
    rank = {k: r for r, k in enumerate(order)}
    return tuple(rank[k] for k in keys)


def from_points(pts):
    """The permutation whose plot is the given point set (x's must be exactly 0..m-1)."""
    pts = sorted(pts)
    assert [x for x, _ in pts] == list(range(len(pts))), pts
    out = tuple(y for _, y in pts)
    assert is_perm(out), pts
    return out


# --------------------------------------------------------------------------------------------
# composition
# --------------------------------------------------------------------------------------------

def compose(*ps):
    """(ps[0] o ps[1] o ... o ps[-1])(i): the right-most map is applied first."""
    n = len(ps[0])
    assert all(len(q) == n for q in ps)
    out = []
    for i in range(n):
        x = i
        for q in ps[::-1]:
            x = q[x]
        out.append(x)
    return tuple(out)


def inverse(p):
    return from_points([(v, i) for i, v in enumerate(p)])


# --------------------------------------------------------------------------------------------
# sums and inflation as point configurations
# --------------------------------------------------------------------------------------------

def direct_sum(*comps):
    """Blocks placed left to right, each entirely above everything to its left."""
    pts = []
    off = 0
    for c in comps:
        pts.extend((off + i, off + v) for i, v in enumerate(c))
        off += len(c)
    return from_points(pts)


def skew_sum(*comps):
    """Blocks placed left to right, each entirely below everything to its left."""
    total = sum(len(c) for c in comps)
    pts = []
    xoff, top = 0, total
    for c in comps:
        top -= len(c)
        pts.extend((xoff + i, top + v) for i, v in enumerate(c))
        xoff += len(c)
    return from_points(pts)


def inflate(p, comps):
    """Point i of p is replaced by the block comps[i] (None = a single point, () = nothing).
    A point of the result is (i, j) = j-th point of block i; positions are ordered by (i, j),
    values by (p[i], value inside the block)."""
    assert len(comps) == len(p)
    pos, val = [], []
    for i, c in enumerate(comps):
        c = (0,) if c is None else tuple(c)
        for j, w in enumerate(c):
            pos.append((i, j))
            val.append((p[i], w))
    assert pos == sorted(pos)
    return ranks(val)


# --------------------------------------------------------------------------------------------
# insertion / removal
# --------------------------------------------------------------------------------------------

def insert(p, i, v):
    """New point at position i with value v; old points at positions >= i move one to the right,
    old values >= v move one up.  i = len(p) + 1 is accepted by the library's assert and means
    the right end as well."""
    n = len(p)
    assert 0 <= i <= n + 1 and 0 <= v <= n
    i = min(i, n)
    pts = [(x + (1 if x >= i else 0), y + (1 if y >= v else 0)) for x, y in enumerate(p)]
    pts.append((i, v))
    return from_points(pts)


def remove_at(p, i):
    return ranks([v for j, v in enumerate(p) if j != i])


def remove_value(p, v):
    return ranks([w for w in p if w != v])


# --------------------------------------------------------------------------------------------
# shifts
# --------------------------------------------------------------------------------------------

def shift_right(p, t):
    n = len(p)
    if n == 0:
        return ()
    return from_points([((i + t) % n, v) for i, v in enumerate(p)])


def shift_up(p, t):
    n = len(p)
    if n == 0:
        return ()
    return from_points([(i, (v + t) % n) for i, v in enumerate(p)])


# --------------------------------------------------------------------------------------------
# sum / skew decomposition
# --------------------------------------------------------------------------------------------

def sum_cuts(p):
    """0 < i < n such that the first i entries are exactly the i smallest values."""
    n = len(p)
    return [i for i in range(1, n) if sorted(p[:i]) == list(range(i))]


def skew_cuts(p):
    n = len(p)
    return [i for i in range(1, n) if sorted(p[:i]) == list(range(n - i, n))]


def _split(p, cuts):
    if not p:
        return []
    b = [0] + list(cuts) + [len(p)]
    return [ranks(p[b[k]:b[k + 1]]) for k in range(len(b) - 1)]


def sum_decomposition(p):
    return _split(p, sum_cuts(p))


def skew_decomposition(p):
    return _split(p, skew_cuts(p))


def is_sum_decomposable(p):
    return bool(sum_cuts(p))


def is_skew_decomposable(p):
    return bool(skew_cuts(p))


# --------------------------------------------------------------------------------------------
# intervals (blocks), simplicity
# --------------------------------------------------------------------------------------------

def intervals(p):
    """dict length -> sorted start positions of the windows of that length (2 <= length <= n-1)
    whose set of values is a set of consecutive integers."""
    n = len(p)
    out = {}
    for length in range(2, n):
        for s in range(0, n - length + 1):
            vs = sorted(p[s:s + length])
            if vs == list(range(vs[0], vs[0] + length)):
                out.setdefault(length, []).append(s)
    return out


def intervals_minmax(p):
    """Same answer as `intervals` for long permutations: a set of L distinct integers is a set of
    consecutive integers iff max - min = L - 1.  Every window is looked at on its own (built-in
    max / min of the slice, no running state).  Cross-checked against `intervals` on S<=6 by the
    check before it is used."""
    n = len(p)
    out = {}
    for length in range(2, n):
        for s in range(0, n - length + 1):
            vs = p[s:s + length]
            if max(vs) - min(vs) == length - 1:
                out.setdefault(length, []).append(s)
    return out


def block_table(p):
    """The shape Perm.block_decomposition documents: list of n lists, index = block length."""
    iv = intervals(p)
    return [iv.get(length, []) for length in range(len(p))]


def is_simple(p):
    return not intervals(p)


def simples(n):
    """All simple permutations of length n (brute force over S_n)."""
    return [p for p in itertools.permutations(range(n)) if is_simple(p)]


def children(p):
    return {remove_at(p, i) for i in range(len(p))}


def is_strongly_simple(p):
    return is_simple(p) and all(is_simple(c) for c in children(p))


# --------------------------------------------------------------------------------------------
# monotone blocks (bonds) and contractions
# --------------------------------------------------------------------------------------------

def monotone_runs(p, steps, with_ones):
    """All maximal windows [s, e] (inclusive, s < e) in which every step p[i+1] - p[i] equals one
    and the same d from `steps`; with_ones adds (i, i) for the positions in no such window.
    Sorted by start."""
    n = len(p)
    runs = []
    for s in range(n):
        for e in range(s + 1, n):
            for d in steps:
                if all(p[i + 1] - p[i] == d for i in range(s, e)):
                    grows_left = s > 0 and p[s] - p[s - 1] == d
                    grows_right = e < n - 1 and p[e + 1] - p[e] == d
                    if not grows_left and not grows_right:
                        runs.append((s, e))
    runs.sort()
    return with_singletons(n, runs) if with_ones else runs


def monotone_runs_linear(p, steps, with_ones):
    """Same answer as `monotone_runs` in linear time: label every adjacent pair of positions by
    its step if that is in `steps`, cut the labels into maximal groups of equal labels.
    Cross-checked against `monotone_runs` on S<=6 by the check before it is used."""
    n = len(p)
    labels = [(p[i + 1] - p[i]) if (p[i + 1] - p[i]) in steps else None for i in range(n - 1)]
    runs = []
    i = 0
    for label, grp in itertools.groupby(labels):
        size = len(list(grp))
        if label is not None:
            runs.append((i, i + size))
        i += size
    return with_singletons(n, runs) if with_ones else runs


def with_singletons(n, runs):
    """Add (i, i) for every position 0..n-1 lying in none of the given windows; sorted by start."""
    covered = {i for s, e in runs for i in range(s, e + 1)}
    return sorted(list(runs) + [(i, i) for i in range(n) if i not in covered])


def contract(p, steps):
    """Every bond (adjacent positions whose values differ by a d in steps) is merged into its
    left end point: keep p[i] iff it does not continue a bond from p[i-1]."""
    kept = [v for i, v in enumerate(p) if i == 0 or (v - p[i - 1]) not in steps]
    return ranks(kept)


# --------------------------------------------------------------------------------------------
# covers: q covers p iff deleting ONE point of q leaves p
# --------------------------------------------------------------------------------------------

def cover_table(n):
    """dict p (length n) -> set of q (length n+1) having p as a child."""
    up = {p: set() for p in itertools.permutations(range(n))}
    for q in itertools.permutations(range(n + 1)):
        for c in children(q):
            up[c].add(q)
    return up
