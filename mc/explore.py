"""E2 - explicit-state breadth-first search over operation histories on the real objects.

A *state* is identified with a history (tuple of operations) that reaches it.  `build(hist)`
replays a history on fresh real objects and returns (canonical_state, observations) where
  canonical_state : hashable, the COMPLETE behaviour-relevant state (no abstraction)
  observations    : list of violation tuples found while replaying the LAST operation
Live generators cannot be copied, so every transition replays its history from scratch.

    bfs(initial_histories, menu, build, depth, on_violation) -> Stats
"""
from __future__ import annotations

import collections


class Stats:
    def __init__(self):
        self.states = 0
        self.transitions = 0
        self.depth_completed = 0
        self.max_depth_seen = 0
        self.per_depth = []
        self.sample_histories = []


def bfs(initials, menu, build, depth, on_violation, enabled=None, max_states=None):
    """initials: list of histories (tuples) to start from (non-initial states included).
    menu: list of operations (hashable, JSON-able).
    build(hist) -> (canon, viols): replays hist on fresh objects; viols = violations observed
        on the last operation only (earlier ones were reported when that prefix was explored).
    enabled(canon, hist) -> iterable of operations (default: whole menu).
    Returns Stats.  Exhaustive up to `depth` operations beyond each initial history unless
    max_states is hit (then stats.capped is True)."""
    st = Stats()
    st.capped = False
    seen = {}
    frontier = collections.deque()
    for h in initials:
        h = tuple(h)
        canon, viols = build(h)
        for v in viols:
            on_violation(h, v)
        if canon not in seen:
            seen[canon] = h
            frontier.append((h, 0, canon))
    st.per_depth.append(len(seen))
    cur_depth = 0
    level_new = 0
    while frontier:
        hist, d, canon = frontier.popleft()
        if d > cur_depth:
            st.per_depth.append(level_new)
            level_new = 0
            cur_depth = d
        if d >= depth:
            continue
        ops = menu if enabled is None else list(enabled(canon, hist))
        for op in ops:
            nh = hist + (op,)
            ncanon, viols = build(nh)
            st.transitions += 1
            for v in viols:
                on_violation(nh, v)
            if ncanon not in seen:
                seen[ncanon] = nh
                level_new += 1
                if len(st.sample_histories) < 4 and d + 1 >= 2:
                    st.sample_histories.append(list(nh))
                if max_states is not None and len(seen) >= max_states:
                    st.capped = True
                    frontier.clear()
                    break
                frontier.append((nh, d + 1, ncanon))
                st.max_depth_seen = max(st.max_depth_seen, d + 1)
    st.per_depth.append(level_new)
    st.states = len(seen)
    st.depth_completed = depth if not st.capped else cur_depth
    return st
