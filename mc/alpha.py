"""Shared alphabets: JSON-able pattern descriptors and their construction with the library.

descriptor        library object                      reference (perm, shading)
("c", p)          Perm(p)                             (p, {})
("m", p, cells)   MeshPatt(Perm(p), cells)            (p, cells)
("b", p, I, V)    BivincularPatt(Perm(p), I, V)       columns I and rows V fully shaded
("v", p, I)       VincularPatt(Perm(p), I)
("co", p, V)      CovincularPatt(Perm(p), V)
"""
from __future__ import annotations

import itertools

from . import refmodel as R


def norm(d):
    """Normalise a descriptor that went through JSON (lists -> tuples)."""
    kind = d[0]
    if kind == "c":
        return ("c", tuple(d[1]))
    if kind == "m":
        return ("m", tuple(d[1]), tuple(sorted(tuple(c) for c in d[2])))
    if kind == "b":
        return ("b", tuple(d[1]), tuple(d[2]), tuple(d[3]))
    if kind in ("v", "co"):
        return (kind, tuple(d[1]), tuple(d[2]))
    raise ValueError(d)


def mk(d):
    from permuta import BivincularPatt, CovincularPatt, MeshPatt, Perm, VincularPatt
    kind = d[0]
    if kind == "c":
        return Perm(d[1])
    if kind == "m":
        return MeshPatt(Perm(d[1]), [tuple(c) for c in d[2]])
    if kind == "b":
        return BivincularPatt(Perm(d[1]), d[2], d[3])
    if kind == "v":
        return VincularPatt(Perm(d[1]), d[2])
    if kind == "co":
        return CovincularPatt(Perm(d[1]), d[2])
    raise ValueError(d)


def ref_of(d):
    """(perm, frozenset of cells) - the mathematical content of a descriptor."""
    kind = d[0]
    p = tuple(d[1])
    k = len(p)
    if kind == "c":
        return p, frozenset()
    if kind == "m":
        return p, frozenset(tuple(c) for c in d[2])
    if kind == "b":
        idx, val = d[2], d[3]
    elif kind == "v":
        idx, val = d[2], ()
    else:
        idx, val = (), d[2]
    cells = {(i, y) for i in idx for y in range(k + 1)} | {(x, v) for v in val for x in range(k + 1)}
    return p, frozenset(cells)


def mesh_all(k):
    """All mesh descriptors of length k (every shading)."""
    out = []
    for p in R.perms(k):
        for sh in R.all_shadings(k):
            out.append(("m", p, tuple(sorted(sh))))
    return out


def biv_all(k):
    out = []
    rng = range(k + 1)
    subsets = [s for r in range(k + 2) for s in itertools.combinations(rng, r)]
    for p in R.perms(k):
        for I in subsets:
            out.append(("v", p, I))
            out.append(("co", p, I))
            for V in subsets:
                out.append(("b", p, I, V))
    return out


def is_mesh(d):
    return d[0] != "c"
