"""Reference model for C13 (finiteness, polynomial growth, regular insertion encodings).

Nothing here imports permuta.  Permutations are tuples of 0..n-1.  Two independent formulations of
every structural class are given and cross-checked by `selftest`:

  (D) the definition: a *horizontal juxtaposition* of two monotone sequences (some split point k
      such that p[:k] and p[k:] are monotone in the required directions), the *vertical* ones as
      the same thing for the inverse, L2 = direct sums of blocks 1 and 21, L2R = its reverse;
  (B) the finite basis of the class (classical pattern avoidance by itertools.combinations).

Theorems used as oracles
  * Erdos-Szekeres: Av(B) is finite  <=>  B has an increasing and a decreasing element; then no
    member is longer than (a-1)(b-1), a / b the shortest increasing / decreasing element.
  * Kaiser-Klazar, Huczynska-Vatter, Albert-Atkinson-Brignall: Av(B) has polynomial growth <=> B
    has an element in each of the ten classes below  <=>  |Av_n(B)| < F_n for some n
    (F_0 = F_1 = 1); otherwise Av(B) contains one of the ten classes, the smallest of which (L2)
    has exactly F_n members of length n.
  * Vatter: the insertion encoding (inserting a new maximum, "topmost") of Av(B) is regular <=> B
    has an element in each of Av(132,312), Av(213,231), Av(123,3142,3412), Av(321,2143,2413)
    (1-based), i.e. the four vertical juxtapositions; the rightmost variant is the inverse
    statement (the four horizontal juxtapositions).
"""
from __future__ import annotations

import itertools

from . import refmodel as R

# -------------------------------------------------------------------------------------------
# (D) definitions
# -------------------------------------------------------------------------------------------


def mono(seq, direction):
    """direction '+' : strictly increasing, '-' : strictly decreasing (length 0/1: both)."""
    if direction == "+":
        return all(seq[i] < seq[i + 1] for i in range(len(seq) - 1))
    return all(seq[i] > seq[i + 1] for i in range(len(seq) - 1))


def juxt(p, d1, d2):
    """p is a d1-monotone sequence followed by a d2-monotone sequence."""
    return any(mono(p[:k], d1) and mono(p[k:], d2) for k in range(len(p) + 1))


def sum_blocks(p):
    """Finest direct-sum decomposition: list of standardised blocks."""
    blocks, start, top = [], 0, -1
    for i, v in enumerate(p):
        top = max(top, v)
        if top == i:
            blocks.append(tuple(w - start for w in p[start:i + 1]))
            start = i + 1
    return blocks


def in_L2(p):
    return all(b in ((0,), (1, 0)) for b in sum_blocks(p))


def in_L2R(p):
    return in_L2(tuple(reversed(p)))


CLASSES = ["W++", "W+-", "W-+", "W--", "Wi++", "Wi+-", "Wi-+", "Wi--", "L2", "L2R"]
HORIZONTAL = CLASSES[0:4]      # relevant for rightmost insertion
VERTICAL = CLASSES[4:8]        # relevant for topmost insertion (Vatter's four classes)
BIT = {c: 1 << i for i, c in enumerate(CLASSES)}
ALL10 = (1 << 10) - 1
HMASK = sum(BIT[c] for c in HORIZONTAL)
VMASK = sum(BIT[c] for c in VERTICAL)


def member_def(p, cls):
    if cls == "L2":
        return in_L2(p)
    if cls == "L2R":
        return in_L2R(p)
    if cls.startswith("Wi"):
        return juxt(R.inverse(p), cls[2], cls[3])
    return juxt(p, cls[1], cls[2])


# -------------------------------------------------------------------------------------------
# (B) bases of the same classes (0-based)
# -------------------------------------------------------------------------------------------

def _one(s):
    return tuple(int(c) - 1 for c in s)


CLASS_BASIS = {
    "W++": [_one("321"), _one("2143"), _one("3142")],
    "W--": [_one("123"), _one("3412"), _one("2413")],
    "W+-": [_one("213"), _one("312")],
    "W-+": [_one("132"), _one("231")],
    # Vatter's four, as printed in "Finding regular insertion encodings for permutation classes"
    "Wi++": [_one("321"), _one("2143"), _one("2413")],
    "Wi--": [_one("123"), _one("3142"), _one("3412")],
    "Wi+-": [_one("213"), _one("231")],
    "Wi-+": [_one("132"), _one("312")],
    "L2": [_one("231"), _one("312"), _one("321")],
    "L2R": [_one("132"), _one("213"), _one("123")],
}


def member_basis(p, cls):
    return not any(R.contains(p, b) for b in CLASS_BASIS[cls])


def types(p):
    """Bitmask of the ten classes p belongs to (definition D)."""
    m = 0
    for c in CLASSES:
        if member_def(p, c):
            m |= BIT[c]
    return m


_TYPES = {}


def types_cached(p):
    v = _TYPES.get(p)
    if v is None:
        # long permutations: the linear-time formulation (cross-checked with the definition in selftest)
        v = _TYPES[p] = types(p) if len(p) <= 8 else types_fast(p)
    return v


def selftest(maxlen):
    """(D) == (B) for every permutation of length <= maxlen and every class; the class counts are
    the known ones (L2: Fibonacci; wedges: 2^(n-1); parallel: 2^n - n).  Raises AssertionError."""
    for n in range(0, maxlen + 1):
        cnt = dict.fromkeys(CLASSES, 0)
        for p in R.perms(n):
            for c in CLASSES:
                d = member_def(p, c)
                assert d == member_basis(p, c), ("reference formulations disagree", p, c)
                cnt[c] += d
            assert types_fast(p) == types(p), ("linear-time membership disagrees", p)
        if n >= 1:
            assert cnt["L2"] == cnt["L2R"] == fib(n), (n, cnt)
            for c in ("W+-", "W-+", "Wi+-", "Wi-+"):
                assert cnt[c] == 2 ** (n - 1), (n, c, cnt)
            for c in ("W++", "W--", "Wi++", "Wi--"):
                assert cnt[c] == 2 ** n - n, (n, c, cnt)
    return True


# -------------------------------------------------------------------------------------------
# verdicts
# -------------------------------------------------------------------------------------------

def is_incr(p):
    return all(v == i for i, v in enumerate(p))


def is_decr(p):
    return all(v == len(p) - 1 - i for i, v in enumerate(p))


def fib(n):
    a, b = 1, 1
    for _ in range(n):
        a, b = b, a + b
    return a


def verdicts(basis):
    """(finite, polynomial, rightmost, topmost) for a collection of permutations (any order,
    repetitions allowed; depends on the set only)."""
    basis = [tuple(b) for b in basis]
    m = 0
    for b in basis:
        m |= types_cached(b)
    finite = any(is_incr(b) for b in basis) and any(is_decr(b) for b in basis)
    return (finite, m == ALL10, m & HMASK == HMASK, m & VMASK == VMASK)


def es_bound(basis):
    """(a-1)(b-1) for the shortest increasing / decreasing element; None if not finite."""
    inc = [len(b) for b in basis if is_incr(b)]
    dec = [len(b) for b in basis if is_decr(b)]
    if not inc or not dec:
        return None
    return (min(inc) - 1) * (min(dec) - 1)


def probe_contexts(maxlen=4):
    """For every class X a context Q_X: a list of permutations none of which lies in X and which
    together lie in every other class.  Then  verdict(Q_X + [p]) is True  <=>  p in X,  which makes
    each of the ten (resp. four) per-permutation tests observable through the public functions.
    The elements are the smallest (length, lex) members of Y minus X for every other class Y.
    Returns {"poly": {X: Q}, "right": {X: Q}, "top": {X: Q}}."""
    pool = [p for n in range(1, maxlen + 1) for p in R.perms(n)]
    out = {"poly": {}, "right": {}, "top": {}}
    for kind, universe in (("poly", CLASSES), ("right", HORIZONTAL), ("top", VERTICAL)):
        for X in universe:
            Q = []
            for Y in universe:
                if Y == X:
                    continue
                q = next(p for p in pool if types_cached(p) & BIT[Y] and not types_cached(p) & BIT[X])
                if q not in Q:
                    Q.append(q)
            m = 0
            for q in Q:
                m |= types_cached(q)
            want = sum(BIT[c] for c in universe)
            assert m & want == want & ~BIT[X], (kind, X, Q)
            out[kind][X] = Q
    return out


def sequences(elems):
    """All orders of the set, and all sequences of length k+1 that use every element (one element
    repeated), for a set of k <= 3 elements; the empty set gives the empty sequence."""
    elems = list(elems)
    k = len(elems)
    out = [tuple(s) for s in itertools.permutations(elems)]
    if k:
        for s in itertools.product(elems, repeat=k + 1):
            if len(set(s)) == k:
                out.append(s)
    return out


# -------------------------------------------------------------------------------------------
# 'related elements' family: bases {p, r(p)} + completion
# -------------------------------------------------------------------------------------------

UNIVERSE = {"poly": ALL10, "right": HMASK, "top": VMASK}


def related(p):
    """[(relation name, q)] with q != p: the seven non-identity symmetries of p (inverse first) and
    its distinct one-point deletions - the elements from which a per-call shortcut could want to
    derive the answer for p (or the other way round)."""
    out = []
    names = ["inverse"] + [s for s in R.SYMS if s not in ("id", "inverse")]
    for s in names:
        q = R.apply_sym(s, p)
        if q != p:
            out.append((s, q))
    seen = set()
    for i in range(len(p)):
        q = R.delete_point(p, i)
        if q not in seen and len(q) >= 1:
            seen.add(q)
            out.append(("delete%d" % i, q))
    return out


def _pop(m):
    return bin(m).count("1")


_COMPLETION = {}
_POOL4 = None


def completion(kind, X, T):
    """A completion of a pair whose joint type mask is T, for the class X of the universe `kind`
    (poly: ten classes, right / top: four): a list C of permutations of length <= 4, none in X,
    that meets every class of the universe except X and the classes in T.  Greedy and
    deterministic: repeatedly take the pool element that shares the fewest classes with T (so the
    pair stays the sole witness of its own classes where short patterns allow it), then covers the
    most still-missing classes, then comes first in (length, lex) order.
    verdict(pair + C) is then True  <=>  X in T."""
    global _POOL4
    U = UNIVERSE[kind]
    key = (kind, X, T & U)
    C = _COMPLETION.get(key)
    if C is not None:
        return C
    if _POOL4 is None:
        _POOL4 = [p for n in range(1, 5) for p in R.perms(n)]
    xb = BIT[X]
    needed = U & ~xb & ~T
    C = []
    while needed:
        best, bestkey = None, None
        for i, c in enumerate(_POOL4):
            t = types_cached(c)
            if t & xb or not t & needed:
                continue
            k = (_pop(t & T & U), -_pop(t & needed), i)
            if bestkey is None or k < bestkey:
                best, bestkey = c, k
        assert best is not None, (kind, X, T)
        C.append(best)
        needed &= ~types_cached(best)
    _COMPLETION[key] = C
    return C


def arrangements(p, q, C):
    """The pair inside the list: adjacent both ways, separated by the completion both ways, after
    the completion both ways."""
    C = list(C)
    return [[p, q] + C, [q, p] + C, [p] + C + [q], [q] + C + [p], C + [p, q], C + [q, p]]


# -------------------------------------------------------------------------------------------
# 'scale' family: long elements with a prescribed small descent set, linear-time membership
# -------------------------------------------------------------------------------------------

def _mono_prefix(p, d):
    """Length of the longest d-monotone prefix."""
    a = min(len(p), 1)
    while a < len(p) and ((p[a - 1] < p[a]) if d == "+" else (p[a - 1] > p[a])):
        a += 1
    return a


def _mono_suffix(p, d):
    """Smallest b such that p[b:] is d-monotone."""
    b = max(len(p) - 1, 0)
    while b > 0 and ((p[b - 1] < p[b]) if d == "+" else (p[b - 1] > p[b])):
        b -= 1
    return b


def juxt_fast(p, d1, d2):
    """Same as juxt, in linear time: p[:k] is monotone for k <= a, p[k:] is monotone for k >= b."""
    return _mono_prefix(p, d1) >= _mono_suffix(p, d2)


def types_fast(p):
    """types(p) in linear time (for long permutations)."""
    q = R.inverse(p)
    m = 0
    for c in CLASSES[:8]:
        w = q if c.startswith("Wi") else p
        if juxt_fast(w, c[-2], c[-1]):
            m |= BIT[c]
    if in_L2(p):
        m |= BIT["L2"]
    if in_L2R(p):
        m |= BIT["L2R"]
    return m


def descent_set(p):
    return tuple(i for i in range(len(p) - 1) if p[i] > p[i + 1])


RULES = ("skew", "riffle", "lexmin")


def perm_with_descents(n, D, rule):
    """A permutation of length n whose descent set is exactly D, by one of three fixed rules:
    skew   - the increasing runs are intervals of values, earlier runs above later runs;
    riffle - values ordered by (position inside its run, later runs first), so the runs interleave;
    lexmin - the identity with every maximal block of consecutive descent positions reversed
             (the lexicographically smallest permutation with that descent set)."""
    D = sorted(D)
    assert all(0 <= d <= n - 2 for d in D)
    run, inrun = [], []
    r = k = 0
    for i in range(n):
        run.append(r)
        inrun.append(k)
        k += 1
        if i in D:
            r, k = r + 1, 0
    if rule == "skew":
        keys = [(-run[i], inrun[i]) for i in range(n)]
    elif rule == "riffle":
        keys = [(inrun[i], -run[i]) for i in range(n)]
    else:
        p = list(range(n))
        i = 0
        Ds = set(D)
        while i < n - 1:
            if i in Ds:
                j = i
                while j in Ds:
                    j += 1
                p[i:j + 1] = p[i:j + 1][::-1]
                i = j
            else:
                i += 1
        assert descent_set(p) == tuple(D), (n, D, rule, p)
        return tuple(p)
    order = sorted(range(n), key=lambda i: keys[i])
    p = [0] * n
    for v, i in enumerate(order):
        p[i] = v
    assert descent_set(p) == tuple(D), (n, D, rule, p)
    return tuple(p)


def probe_positions(n):
    return sorted(x for x in {0, 1, 2, 7, 8, 9, 31, 32, 33, n - 3, n - 2} if 0 <= x <= n - 2)


def scale_descent_sets(n, maxsize):
    """Every descent set of size 0..maxsize over the probe positions (ends, the 8-slot and 32-slot
    set-table boundaries); for n >= 33 additionally every set of 5..7 positions out of
    {0,1,2,3,4,31,32} (a 5..18 element set holding a value >= 32)."""
    out = []
    P = probe_positions(n)
    for r in range(0, maxsize + 1):
        out.extend(itertools.combinations(P, r))
    if n >= 33 and maxsize >= 4:
        Q = [x for x in (0, 1, 2, 3, 4, 31, 32) if x <= n - 2]
        for r in (5, 6, 7):
            out.extend(itertools.combinations(Q, r))
    return out
