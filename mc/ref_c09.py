"""Reference code for C09 (generation, ranking, notations).  Plain tuples, no permuta import, no
itertools.permutations (the implementation uses it): the (length, lexicographic) order is built
from its definition.
"""
from __future__ import annotations


def lex_perms(n):
    """All permutations of 0..n-1, smallest first entry first, recursively: this IS the
    lexicographic order (compare first entries, then the rest)."""
    def rec(prefix, rest):
        if not rest:
            yield prefix
            return
        for i, v in enumerate(rest):            # rest is kept ascending
            yield from rec(prefix + (v,), rest[:i] + rest[i + 1:])
    yield from rec((), tuple(range(n)))


def lex_perms_desc(n):
    """The same set, lexicographically largest first."""
    def rec(prefix, rest):
        if not rest:
            yield prefix
            return
        for i in range(len(rest) - 1, -1, -1):
            yield from rec(prefix + (rest[i],), rest[:i] + rest[i + 1:])
    yield from rec((), tuple(range(n)))


def lex_perms_with_prefix(n, prefix):
    """Lexicographic list of the permutations of 0..n-1 that start with `prefix`."""
    prefix = tuple(prefix)
    rest = tuple(v for v in range(n) if v not in prefix)

    def rec(pre, rest):
        if not rest:
            yield pre
            return
        for i, v in enumerate(rest):
            yield from rec(pre + (v,), rest[:i] + rest[i + 1:])
    yield from rec(prefix, rest)


def fact(n):
    out = 1
    for i in range(2, n + 1):
        out *= i
    return out


def offset(n):
    """Number of permutations of length < n = rank of the identity of length n."""
    return sum(fact(m) for m in range(n))


_GRADED = {}


def graded(n):
    """All permutations of length 0..n in (length, lexicographic) order; index = rank."""
    g = _GRADED.get(n)
    if g is None:
        g = []
        for m in range(n + 1):
            g.extend(lex_perms(m))
        _GRADED[n] = g
    return g


def selftest(n):
    """The reference order is what it claims to be: strictly increasing for the key
    (length, tuple), n! distinct bijections per length."""
    g = graded(n)
    assert len(g) == offset(n + 1)
    for a, b in zip(g, g[1:]):
        assert (len(a), a) < (len(b), b)
    for p in g:
        assert sorted(p) == list(range(len(p)))
    for m in range(min(n, 7) + 1):
        assert list(lex_perms_desc(m)) == list(lex_perms(m))[::-1]
    return True


# ---- notations ------------------------------------------------------------------------------

def digits0(p):
    return "".join(str(v) for v in p)


def digits1(p):
    return "".join(str(v + 1) for v in p)


def is_bijection(t):
    return all(type(v) is int for v in t) and sorted(t) == list(range(len(t)))


# ---- mesh shadings <-> numbers (layout documented by the doctests of MeshPatt.unrank/rank:
# 386 = 0b110000010 on a length-3 pattern is {(0,1),(1,3),(2,0)}: cell (x, y) is bit x*(k+1)+y) --

def cell_bit(k, x, y):
    return x * (k + 1) + y


def shading_of_number(k, number):
    return frozenset((x, y) for x in range(k + 1) for y in range(k + 1)
                     if (number >> cell_bit(k, x, y)) & 1)


def number_of_shading(k, cells):
    return sum(1 << cell_bit(k, x, y) for (x, y) in set(cells))


assert shading_of_number(3, 386) == frozenset({(0, 1), (1, 3), (2, 0)})
assert number_of_shading(3, {(0, 0), (3, 0), (0, 2), (2, 1), (2, 3), (1, 2), (3, 3), (3, 1),
                             (1, 1)}) == 47717
