"""Reference code for C09 (generation, ranking, notations).  Plain tuples, no permuta import, no
itertools.permutations (the implementation uses it): the (length, lexicographic) order is built
from its definition.
"""
from __future__ import annotations


def lex_perms(n):
    """All permutations of 0..n-1, smallest first entry first, recursively: this IS the
    lexicographic order (compare first entries, then the rest)."""
    def rec(prefix, rest):
        if not rest:
            yield prefix
            return
        for i, v in enumerate(rest):            # rest is kept ascending
            yield from rec(prefix + (v,), rest[:i] + rest[i + 1:])
    yield from rec((), tuple(range(n)))


def lex_perms_desc(n):
    """The same set, lexicographically largest first."""
    def rec(prefix, rest):
        if not rest:
            yield prefix
            return
        for i in range(len(rest) - 1, -1, -1):
            yield from rec(prefix + (rest[i],), rest[:i] + rest[i + 1:])
    yield from rec((), tuple(range(n)))


def lex_perms_with_prefix(n, prefix):
    """Lexicographic list of the permutations of 0..n-1 that start with `prefix`."""
    prefix = tuple(prefix)
    rest = tuple(v for v in range(n) if v not in prefix)

    def rec(pre, rest):
        if not rest:
            yield pre
            return
        for i, v in enumerate(rest):
            yield from rec(pre + (v,), rest[:i] + rest[i + 1:])
    yield from rec(prefix, rest)


def fact(n):
    out = 1
    for i in range(2, n + 1):
        out *= i
    return out


def offset(n):
    """Number of permutations of length < n = rank of the identity of length n."""
    return sum(fact(m) for m in range(n))


_GRADED = {}


def graded(n):
    """All permutations of length 0..n in (length, lexicographic) order; index = rank."""
    g = _GRADED.get(n)
    if g is None:
        g = []
        for m in range(n + 1):
            g.extend(lex_perms(m))
        _GRADED[n] = g
    return g


def selftest(n):
    """The reference order is what it claims to be: strictly increasing for the key
    (length, tuple), n! distinct bijections per length."""
    g = graded(n)
    assert len(g) == offset(n + 1)
    for a, b in zip(g, g[1:]):
        assert (len(a), a) < (len(b), b)
    for p in g:
        assert sorted(p) == list(range(len(p)))
    for m in range(min(n, 7) + 1):
        assert list(lex_perms_desc(m)) == list(lex_perms(m))[::-1]
    for m in range(0, 7):          # the integer-only reference against the enumerated order
        for i, p in enumerate(lex_perms(m)):
            assert rank_by_counting(p) == i and lehmer_unrank(i, m) == p
    return True


# ---- integer-only Lehmer code reference (long permutations; no enumeration, no floats) --------

def rank_by_counting(p):
    """Number of permutations of the same length that are lexicographically smaller: for every
    position i, (number of later entries smaller than p[i]) * (n-1-i)!."""
    n = len(p)
    r = 0
    for i in range(n):
        c = 0
        for j in range(i + 1, n):
            if p[j] < p[i]:
                c += 1
        r += c * fact(n - 1 - i)
    return r


def lehmer_unrank(r, n):
    """The permutation of length n with exactly r lexicographically smaller ones (integers only:
    digit i of the factorial number system picks the digit-th smallest unused value)."""
    assert 0 <= r < fact(n)
    rest = list(range(n))
    out = []
    for i in range(n):
        f = fact(n - 1 - i)
        d = r // f
        r = r - d * f
        out.append(rest.pop(d))
    return tuple(out)


def scale_ranks(n):
    """Sorted ranks (within length n) at which a decoder's arithmetic is most exposed:
    0, n!-1; for every suffix length m = 2..n and every q = 1..m-1 the block boundary
    q*(m-1)! - 1, q*(m-1)!, q*(m-1)! + 1 of the suffix, behind an increasing prefix (leading
    digits 0) and behind a decreasing prefix (leading digits maximal) of length n-m; and
    2^e - 1, 2^e, 2^e + 1 for e = 52..70 where below n!."""
    F = [fact(i) for i in range(n + 1)]
    out = {0, F[n] - 1}
    for m in range(2, n + 1):
        dec_prefix = sum((n - 1 - i) * F[n - 1 - i] for i in range(n - m))
        for q in range(1, m):
            for base in (0, dec_prefix):
                for d in (-1, 0, 1):
                    r = base + q * F[m - 1] + d
                    if 0 <= r < F[n]:
                        out.add(r)
    for e in range(52, 71):
        for d in (-1, 0, 1):
            if 0 <= 2 ** e + d < F[n]:
                out.add(2 ** e + d)
    return sorted(out)


def scale_perms(n):
    """Structured permutations of length n with a cheap reference: identity, reverse, one adjacent
    transposition at every position, rotations, i -> k*i mod n, layered (reversed blocks of 3),
    and `first value q then decreasing rest` behind increasing prefixes of length 0..3."""
    ident = tuple(range(n))
    out = [ident, ident[::-1]]
    for i in range(n - 1):
        t = list(ident)
        t[i], t[i + 1] = t[i + 1], t[i]
        out.append(tuple(t))
    for k in (1, 2, n - 1):
        if 0 < k < n:
            out.append(ident[k:] + ident[:k])
    for k in (2, 3, 5, 7):
        if n > k and all(n % d or k % d for d in range(2, k + 1)):
            out.append(tuple((k * i) % n for i in range(n)))
    out.append(tuple(v for b in range(0, n, 3) for v in reversed(range(b, min(n, b + 3)))))
    for pre in range(0, min(4, n - 1)):
        rest = list(range(pre, n))
        for q in rest:
            out.append(tuple(range(pre)) + (q,) + tuple(v for v in reversed(rest) if v != q))
    seen, uniq = set(), []
    for p in out:
        if p not in seen:
            seen.add(p)
            uniq.append(p)
    return uniq


# ---- notations ------------------------------------------------------------------------------

def digits0(p):
    return "".join(str(v) for v in p)


def digits1(p):
    return "".join(str(v + 1) for v in p)


def is_bijection(t):
    return all(type(v) is int for v in t) and sorted(t) == list(range(len(t)))


# ---- mesh shadings <-> numbers (layout documented by the doctests of MeshPatt.unrank/rank:
# 386 = 0b110000010 on a length-3 pattern is {(0,1),(1,3),(2,0)}: cell (x, y) is bit x*(k+1)+y) --

def cell_bit(k, x, y):
    return x * (k + 1) + y


def shading_of_number(k, number):
    return frozenset((x, y) for x in range(k + 1) for y in range(k + 1)
                     if (number >> cell_bit(k, x, y)) & 1)


def number_of_shading(k, cells):
    return sum(1 << cell_bit(k, x, y) for (x, y) in set(cells))


assert shading_of_number(3, 386) == frozenset({(0, 1), (1, 3), (2, 0)})
assert number_of_shading(3, {(0, 0), (3, 0), (0, 2), (2, 1), (2, 3), (1, 2), (3, 3), (3, 1),
                             (1, 1)}) == 47717
