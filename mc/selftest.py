"""Self-tests of the engines (MANIFEST.setup_cmd).  Nothing is built; this only checks that the
harness itself works in this interpreter: reference model tabulations against the naive
definitions, the BFS engine on a toy machine, the thread scheduler on a toy race (must find the
lost update without a lock with ONE preemption, must find nothing with the cooperative lock, must
report a deadlock for a lock-order inversion, and must reproduce a schedule exactly)."""
from __future__ import annotations

import sys
import tempfile
import types

from . import explore, refmodel as R, sched as S


def t_refmodel():
    prof = R.Profiles(6, 4)
    for n in range(0, 6):
        for p in R.perms(n):
            for q in prof.patterns:
                assert bool(prof.prof[p] & prof.bit[q]) == R.contains(p, q), (p, q)
    for basis in [[(0, 1, 2)], [(0, 2, 1), (0, 1, 2, 3)], [(1, 0)], [(0,)], [(2, 0, 1), (1, 2, 0)]]:
        for n in range(0, 7):
            assert prof.avoiders(basis, n) == R.avoiders_naive(basis, n)
            assert prof.count(basis, n) == len(R.avoiders_naive(basis, n))
    assert [len(prof.avoiders([(0, 1, 2)], n)) for n in range(7)] == [1, 1, 2, 5, 14, 42, 132]
    # symmetries: group relations on point sets
    for p in R.perms(4):
        assert R.apply_sym("rot90", R.apply_sym("rot90", p)) == R.apply_sym("rot180", p)
        assert R.apply_sym("rot90", R.apply_sym("rot270", p)) == p
        assert R.apply_sym("inverse", p) == R.inverse(p)
        assert R.apply_sym("reverse", p) == tuple(reversed(p))
        assert R.apply_sym("antidiagonal", p) == R.apply_sym("rot180", R.inverse(p))
        assert len(R.orbit(p)) in (1, 2, 4, 8)
    # mesh: equivariance of the reference itself
    sh = frozenset({(0, 1), (2, 2)})
    for name in R.SYMS:
        q, qs = R.apply_sym_mesh(name, (0, 1), sh)
        for t in R.perms(4):
            assert R.mesh_contains(t, (0, 1), sh) == R.mesh_contains(R.apply_sym(name, t), q, qs)
    assert R.std("caaba") == (4, 0, 1, 3, 2)
    assert R.biv_occurrences((0, 1), (1,), (), (0, 2, 1)) == R.mesh_occurrences(
        (0, 1), {(1, 0), (1, 1), (1, 2)}, (0, 2, 1))


def t_bfs():
    # toy machine: counter mod 5 with ops +1, +2; invariant: never 4 -> reached at depth 2
    viol = []

    def build(h):
        x = 0
        for op in h:
            x = (x + op) % 5
        return x, ([{"x": x}] if x == 4 and h else [])

    st = explore.bfs([()], [1, 2], build, 4, lambda h, v: viol.append((h, v)))
    assert st.states == 5 and viol and len(viol[0][0]) == 2, (st.states, viol[:1])


_RACY = '''
import threading
LOCK = threading.Lock()
L2 = threading.Lock()
class Box:
    def __init__(self):
        self.v = 0
    def incr(self):
        t = self.v
        t = t + 1
        self.v = t
    def incr_locked(self):
        with LOCK:
            t = self.v
            t = t + 1
            self.v = t
    def ab(self):
        with LOCK:
            with L2:
                self.v += 1
    def ba(self):
        with L2:
            with LOCK:
                self.v += 1
'''


def t_sched():
    d = tempfile.mkdtemp(prefix="mcself")
    path = d + "/racy_mod.py"
    with open(path, "w") as fh:
        fh.write(_RACY)
    mod = types.ModuleType("racy_mod")
    mod.__file__ = path
    exec(compile(_RACY, path, "exec"), mod.__dict__)
    sys.modules["racy_mod"] = mod
    assert S.cooperative_locks(mod) == 2
    watched = frozenset([path])

    def outcomes(meth_a, meth_b, bound):
        outs, n = set(), 0
        dead = 0

        def run(prefix, expect):
            S.reset_locks(mod)
            box = mod.Box()
            ex = S.run_once([lambda b: getattr(b, meth_a)(), lambda b: getattr(b, meth_b)()],
                            prefix, box, watched, expect=expect)
            ex.results.append(box.v)
            return ex
        for ex in S.explore(run, bound):
            n += 1
            dead += ex.deadlock
            outs.add(ex.results[-1] if not ex.deadlock else "deadlock")
        return outs, n

    o0, n0 = outcomes("incr", "incr", 0)
    assert o0 == {2}, o0                                  # no preemption: no lost update
    o1, n1 = outcomes("incr", "incr", 1)
    assert o1 == {1, 2} and n1 > n0, (o1, n1)             # one preemption finds it
    o2, n2 = outcomes("incr_locked", "incr_locked", 2)
    assert o2 == {2} and n2 > 10, (o2, n2)                # with the lock: never
    o3, _ = outcomes("ab", "ba", 1)
    assert "deadlock" in o3, o3                           # lock-order inversion -> deadlock
    # reproducibility: the same schedule twice gives the same observation

    def run(prefix, expect=None):
        S.reset_locks(mod)
        box = mod.Box()
        ex = S.run_once([lambda b: b.incr(), lambda b: b.incr()], prefix, box, watched, expect=expect)
        return ex, box.v
    base, _ = run([])
    bad = None
    for i in range(len(base.points)):
        ex, v = run(base.choices[:i] + [1])
        if v == 1:
            bad = ex.choices
            break
    assert bad is not None
    a, va = run(bad)
    b, vb = run(bad, a.points)
    assert (va, a.points, a.choices) == (vb, b.points, b.choices) and va == 1
    import shutil
    shutil.rmtree(d, ignore_errors=True)


def main():
    for f in (t_refmodel, t_bfs, t_sched):
        f()
        print("selftest %s ok" % f.__name__)
    print("selftest: all engines ok")


if __name__ == "__main__":
    main()
