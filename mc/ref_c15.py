"""Reference code for C15 (basis automaton): geometric semantics of pin sequences, plain automata.

Nothing here imports permuta or automata-lib.  Permutations are tuples of 0..n-1.

Pin sequences (Bassino, Bouvel, Pierrot, Rossin): an origin p0 (not a point of the permutation)
and pins p1, p2, ...  A *numeral* k in 1234 puts the next pin strictly outside the bounding box of
everything placed so far (origin included), in quadrant k (1 = up-right, 2 = up-left,
3 = down-left, 4 = down-right).  A *direction* U/L/D/R puts the next pin beyond everything placed
so far on the named side, and on the other axis strictly between the previous pin and everything
placed before it (it "separates" the previous pin from the rest; only possible when the previous
pin is extreme on that other axis).  The permutation of the word is the relative order of the
pins (origin dropped).

The language M: all words over ULDR (the empty word and single letters included) in which
vertical and horizontal letters alternate.  A word of M of length n >= 2 stands for the pin word
of length n - 1 whose first numeral is the quadrant named by the first two letters (RU/UR = 1, LU/UL = 2,
LD/DL = 3, RD/DR = 4) followed by the remaining letters.
"""
from __future__ import annotations

import itertools

DIRS = "ULDR"
VERT = "UD"
HORI = "LR"

QUAD_OF = {frozenset("RU"): "1", frozenset("LU"): "2", frozenset("LD"): "3", frozenset("RD"): "4"}


# --------------------------------------------------------------------------------------------
# the language M and the translation to pin words
# --------------------------------------------------------------------------------------------

def is_alternating(word):
    """True iff no two consecutive letters are both vertical or both horizontal."""
    for a, b in zip(word, word[1:]):
        if (a in VERT) == (b in VERT):
            return False
    return all(c in DIRS for c in word)


def m_words(length):
    """All alternating words of exactly this length, in lexicographic order of DIRS."""
    if length == 0:
        return [""]
    out = []
    for first in DIRS:
        words = [first]
        for _ in range(length - 1):
            words = [w + c for w in words for c in (HORI if w[-1] in VERT else VERT)]
        out.extend(words)
    return out


def m_to_pinword(word):
    """Alternating word of length >= 2 -> strict pin word (numeral + directions)."""
    assert len(word) >= 2 and is_alternating(word)
    return QUAD_OF[frozenset(word[:2])] + word[2:]


# --------------------------------------------------------------------------------------------
# decoding a pin word by ordered insertion into two rank lists
# --------------------------------------------------------------------------------------------

class PinState:
    """Left-to-right order `xs` and bottom-to-top order `ys` of the point ids placed so far
    (id 0 = origin, id i = pin i)."""

    __slots__ = ("xs", "ys")

    def __init__(self, xs=(0,), ys=(0,)):
        self.xs = list(xs)
        self.ys = list(ys)

    def copy(self):
        return PinState(self.xs, self.ys)

    def push(self, char):
        """Place the next pin; raises ValueError when the letter is not placeable."""
        new = len(self.xs)
        last = new - 1
        if char in "1234":
            if char in "14":
                self.xs.append(new)
            else:
                self.xs.insert(0, new)
            if char in "12":
                self.ys.append(new)
            else:
                self.ys.insert(0, new)
            return
        if last == 0:
            raise ValueError("a direction cannot follow the origin")
        if char in VERT:
            # beyond everything vertically; horizontally between the last pin and the rest
            if self.xs[-1] == last:
                self.xs.insert(len(self.xs) - 1, new)
            elif self.xs[0] == last:
                self.xs.insert(1, new)
            else:
                raise ValueError("last pin is not horizontally extreme")
            if char == "U":
                self.ys.append(new)
            else:
                self.ys.insert(0, new)
        elif char in HORI:
            if self.ys[-1] == last:
                self.ys.insert(len(self.ys) - 1, new)
            elif self.ys[0] == last:
                self.ys.insert(1, new)
            else:
                raise ValueError("last pin is not vertically extreme")
            if char == "R":
                self.xs.append(new)
            else:
                self.xs.insert(0, new)
        else:
            raise ValueError("unknown letter %r" % (char,))

    def perm(self):
        """Relative order of the pins, origin dropped."""
        yrank = {}
        r = 0
        for pid in self.ys:
            if pid != 0:
                yrank[pid] = r
                r += 1
        return tuple(yrank[pid] for pid in self.xs if pid != 0)

    def index_of_last(self):
        """Index in perm() of the pin placed last."""
        last = len(self.xs) - 1
        i = 0
        for pid in self.xs:
            if pid == last:
                return i
            if pid != 0:
                i += 1
        raise AssertionError


def decode_pinword(word):
    st = PinState()
    for c in word:
        st.push(c)
    return st.perm()


def decode_m_word(word):
    return decode_pinword(m_to_pinword(word))


# --------------------------------------------------------------------------------------------
# containment: naive, and an incrementally maintained pattern profile
# --------------------------------------------------------------------------------------------

def std(seq):
    srt = sorted(seq)
    return tuple(srt.index(v) for v in seq)


def contains(text, patt):
    k = len(patt)
    patt = tuple(patt)
    for idx in itertools.combinations(range(len(text)), k):
        if std([text[i] for i in idx]) == patt:
            return True
    return False


def patterns_through(text, i, maxk):
    """Set of patterns of length 1..maxk that text contains in an occurrence using index i."""
    out = set()
    others = [j for j in range(len(text)) if j != i]
    for r in range(0, maxk):
        for sub in itertools.combinations(others, r):
            idx = sorted(sub + (i,))
            out.add(std([text[j] for j in idx]))
    return out


def naive_profile(text, maxk):
    """All patterns of length 0..maxk contained in text, straight from the definition."""
    out = set()
    for k in range(0, maxk + 1):
        for p in itertools.permutations(range(k)):
            if contains(text, p):
                out.add(p)
    return out


# --------------------------------------------------------------------------------------------
# plain automata: (initial, finals, delta) with delta[state][letter] -> state, missing = dead
# --------------------------------------------------------------------------------------------

M_REF = {
    # state: what was the last letter (start / vertical / horizontal); no dead state: missing
    "start": {"U": "v", "D": "v", "L": "h", "R": "h"},
    "v": {"L": "h", "R": "h"},
    "h": {"U": "v", "D": "v"},
}


class Plain:
    """Deterministic automaton over DIRS; partial (missing transition = rejecting sink)."""

    def __init__(self, initial, finals, delta):
        self.initial = initial
        self.finals = set(finals)
        self.delta = delta

    def step(self, state, letter):
        if state is None:
            return None
        return self.delta.get(state, {}).get(letter)

    def accepts_state(self, state):
        return state is not None and state in self.finals

    def run(self, word):
        s = self.initial
        for c in word:
            s = self.step(s, c)
        return self.accepts_state(s)


def canonical_form(auto):
    """Numbering-independent description of the reachable part: states renumbered in
    breadth-first order (letters in the order of DIRS); equal for isomorphic automata."""
    idx = {auto.initial: 0}
    order = [auto.initial]
    rows = []
    i = 0
    while i < len(order):
        s = order[i]
        i += 1
        row = [auto.accepts_state(s)]
        for c in DIRS:
            t = auto.step(s, c)
            if t is None:
                row.append(-1)
            else:
                if t not in idx:
                    idx[t] = len(order)
                    order.append(t)
                row.append(idx[t])
        rows.append(tuple(row))
    return tuple(rows)


def m_reference():
    return Plain("start", {"start", "v", "h"}, M_REF)


def product_bfs(autos, restrict=None):
    """Breadth-first search over the reachable tuples of states of the given Plain automata
    (optionally only along words of the Plain automaton `restrict`, whose rejecting sink is not
    entered).  Yields (tuple_of_states, shortest word reaching it).  Returns via generator."""
    start = tuple(a.initial for a in autos)
    rs = restrict.initial if restrict is not None else None
    seen = {(start, rs): ""}
    frontier = [(start, rs)]
    yield start, rs, ""
    while frontier:
        nxt = []
        for key in frontier:
            states, r = key
            word = seen[key]
            for c in DIRS:
                if restrict is not None:
                    r2 = restrict.step(r, c)
                    if r2 is None:
                        continue
                else:
                    r2 = None
                s2 = tuple(a.step(s, c) for a, s in zip(autos, states))
                k2 = (s2, r2)
                if k2 not in seen:
                    seen[k2] = word + c
                    nxt.append(k2)
                    yield s2, r2, word + c
        frontier = nxt


def count_product(autos, restrict=None):
    """(number of reachable product states, number of transitions explored)."""
    n = 0
    for _ in product_bfs(autos, restrict):
        n += 1
    letters = len(DIRS)
    return n, n * letters


def first_difference(a, b, restrict=None):
    """Shortest word (inside `restrict` if given) on which a and b disagree, or None; also the
    number of product states visited."""
    n = 0
    for (sa, sb), r, word in product_bfs([a, b], restrict):
        n += 1
        if restrict is not None and not restrict.accepts_state(r):
            continue
        if a.accepts_state(sa) != b.accepts_state(sb):
            return word, n
    return None, n


def rejected_language_shape(auto, restrict):
    """The language  L(restrict) \\ L(auto).  Returns (finite?, longest word length or None,
    product states, counts_by_length function).  Own cycle search: trim the product to the
    states that are reachable AND can still reach a state accepting for the difference, then
    look for a cycle by iterated removal of states without successors (Kahn)."""
    # reachable product graph
    start = (auto.initial, restrict.initial)
    succ = {}
    order = [start]
    seen = {start}
    i = 0
    while i < len(order):
        s, r = order[i]
        i += 1
        outs = []
        for c in DIRS:
            r2 = restrict.step(r, c)
            if r2 is None:
                continue
            k2 = (auto.step(s, c), r2)
            outs.append(k2)
            if k2 not in seen:
                seen.add(k2)
                order.append(k2)
        succ[(s, r)] = outs

    def good(k):
        return restrict.accepts_state(k[1]) and not auto.accepts_state(k[0])

    # co-reachability of a good state
    pred = {k: [] for k in order}
    for k, outs in succ.items():
        for o in outs:
            pred[o].append(k)
    useful = {k for k in order if good(k)}
    stack = list(useful)
    while stack:
        k = stack.pop()
        for p in pred[k]:
            if p not in useful:
                useful.add(p)
                stack.append(p)
    if start not in useful:
        return True, -1, len(order)       # empty language: longest length -1
    # longest path / cycle detection on the useful subgraph
    indeg = {k: 0 for k in useful}
    for k in useful:
        for o in succ[k]:
            if o in useful:
                indeg[o] += 1
    # Kahn from sources; a cycle leaves nodes unprocessed
    longest = {k: None for k in useful}
    longest[start] = 0
    queue = [k for k in useful if indeg[k] == 0]
    done = 0
    best = -1
    while queue:
        k = queue.pop()
        done += 1
        if longest[k] is not None and good(k):
            best = max(best, longest[k])
        for o in succ[k]:
            if o in useful:
                if longest[k] is not None:
                    cand = longest[k] + 1
                    if longest[o] is None or cand > longest[o]:
                        longest[o] = cand
                indeg[o] -= 1
                if indeg[o] == 0:
                    queue.append(o)
    if done < len(useful):
        return False, None, len(order)
    return True, best, len(order)


# --------------------------------------------------------------------------------------------
# the language of one pin word:  A* f(u1) A* f(u2) ... A*   (own construction)
# --------------------------------------------------------------------------------------------

def pinword_factors(u):
    """Numeral-led factors of a pin word: cut before every numeral."""
    out = []
    for c in u:
        if c in "1234" or not out:
            out.append(c)
        else:
            out[-1] += c
    return out


QUAD_LETTERS = {"1": ("R", "U"), "2": ("L", "U"), "3": ("L", "D"), "4": ("R", "D")}   # (horizontal, vertical)


def factor_images(factor):
    """The alternating words v with m_to_pinword(v) == factor: the numeral becomes the two letters
    of its quadrant, in the order that keeps the word alternating with the first direction letter;
    a lone numeral has both orders."""
    h, v = QUAD_LETTERS[factor[0]]
    rest = factor[1:]
    if not rest:
        return [h + v, v + h]
    if rest[0] in VERT:
        return [v + h + rest]
    return [h + v + rest]


def pinword_language_automaton(u):
    """Deterministic automaton (Plain) of  A* f(u1) A* ... A*  by subset construction over the
    position automaton: NFA states ("gap", i) = in the A* before factor i (i = number of factors:
    accepting), (i, a, j) = j letters of alternative a of factor i read."""
    segs = [factor_images(f) for f in pinword_factors(u)]
    n = len(segs)

    def step(states, c):
        out = set()
        for st in states:
            if st[0] == "gap":
                i = st[1]
                out.add(st)
                if i < n:
                    for a, alt in enumerate(segs[i]):
                        if alt[0] == c:
                            out.add(("gap", i + 1) if len(alt) == 1 else (i, a, 1))
            else:
                i, a, j = st
                alt = segs[i][a]
                if alt[j] == c:
                    out.add(("gap", i + 1) if j + 1 == len(alt) else (i, a, j + 1))
        return frozenset(out)

    start = frozenset({("gap", 0)})
    delta = {}
    order = [start]
    seen = {start}
    k = 0
    while k < len(order):
        s = order[k]
        k += 1
        row = {}
        for c in DIRS:
            t = step(s, c)
            row[c] = t
            if t not in seen:
                seen.add(t)
                order.append(t)
        delta[s] = row
    finals = {s for s in order if ("gap", n) in s}
    return Plain(start, finals, delta)
