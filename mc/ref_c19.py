"""Reference for C19 (enumeration strategies), on plain tuples; no permuta import.

Every hypothesis is restated from its definition:
  * "pattern p is excluded from Av(B)"  <=>  p contains some element of B (brute-force containment)
  * 1 (+) q : first entry is the minimum; q = the rest, standardised
  * q (+) 1 : last entry is the maximum; q = the rest
  * sum / skew decomposability: some proper non-empty prefix is a union of the lowest / highest values
  * last sum / skew component: the part after the LAST proper cut point (cut points found on prefixes)
  * the small mesh pattern: reference mesh containment (refmodel.mesh_contains)
  * insertion encodability: Vatter's criterion stated on juxtapositions of two monotone sequences
  * the eight symmetries: refmodel.SYMS (coordinate maps on point sets)

UNDEF is returned where the stated hypothesis has no meaning (the length-1 permutation after
stripping leaves the empty permutation, which has no last component / is outside the helper's
stated domain `len(perm) > 0`).
"""
from __future__ import annotations

from . import refmodel as R

UNDEF = "undefined"

R_U = (1, 2, 0, 3)   # 2314
C_U = (2, 0, 1, 3)   # 3124
R_D = (1, 3, 0, 2)   # 2413
C_D = (2, 0, 3, 1)   # 3142
P2134 = (1, 0, 2, 3)
P2143 = (1, 0, 3, 2)

# the mesh pattern used by Corollary 9.5 / 10.5: every cell of the 3x3 grid except column 0 row 0
# and the cell right of / below ... (restated cell by cell)
M_CELLS = frozenset([(0, 1), (0, 2), (1, 0), (1, 1), (1, 2), (2, 1), (2, 2)])
M_RD = ((1, 0), M_CELLS)
M_RU = ((0, 1), M_CELLS)

CORE = ["RuCuCoreStrategy", "RdCdCoreStrategy", "RuCuRdCdCoreStrategy", "RuCuCdCoreStrategy",
        "RdCdCuCoreStrategy", "RdCuCoreStrategy", "Rd2134CoreStrategy", "Ru2143CoreStrategy"]
INSENC = "InsertionEncodingStrategy"
FMS = "FinitelyManySimplesStrategy"
FAST = [INSENC] + CORE
SLOW = [FMS]
ALL = FAST + SLOW

NEEDED = {
    "RuCuCoreStrategy": (R_U, C_U),
    "RdCdCoreStrategy": (R_D, C_D),
    "RuCuRdCdCoreStrategy": (R_D, C_D, R_U, C_U),
    "RuCuCdCoreStrategy": (R_U, C_U, C_D),
    "RdCdCuCoreStrategy": (R_D, C_D, C_U),
    "RdCuCoreStrategy": (R_D, C_U),
    "Rd2134CoreStrategy": (R_D, P2134),
    "Ru2143CoreStrategy": (R_U, P2143),
}

# strategies whose shape test strips the length-1 permutation down to the empty permutation and
# then asks for something the empty permutation does not have (known finding #9)
STRIP_TO_EMPTY = ("RdCdCuCoreStrategy", "RdCuCoreStrategy", "Rd2134CoreStrategy",
                  "Ru2143CoreStrategy")


# ---- shapes ------------------------------------------------------------------------------

def starts_with_min(p):
    return len(p) > 0 and p[0] == 0


def drop_leading_min(p):
    """q if p = 1 (+) q, else p."""
    if starts_with_min(p):
        return tuple(v - 1 for v in p[1:])
    return tuple(p)


def drop_trailing_max(p):
    """q if p = q (+) 1, else p."""
    if len(p) > 0 and p[-1] == len(p) - 1:
        return tuple(p[:-1])
    return tuple(p)


def sum_cuts(p):
    """Proper cut points i (0 < i < n) such that the first i entries are exactly the i lowest."""
    n = len(p)
    return [i for i in range(1, n) if set(p[:i]) == set(range(i))]


def skew_cuts(p):
    n = len(p)
    return [i for i in range(1, n) if set(p[:i]) == set(range(n - i, n))]


def sum_indecomposable(p):
    return not sum_cuts(p)


def skew_indecomposable(p):
    return not skew_cuts(p)


def last_sum_comp(p):
    assert len(p) > 0
    c = max(sum_cuts(p), default=0)
    return R.std(p[c:])


def last_skew_comp(p):
    assert len(p) > 0
    c = max(skew_cuts(p), default=0)
    return R.std(p[c:])


def one_plus_skewind(p):
    return starts_with_min(p) and skew_indecomposable(drop_leading_min(p))


def one_plus_sumind(p):
    return starts_with_min(p) and sum_indecomposable(drop_leading_min(p))


def has_ascent_pair(p):
    """contains the pattern 01 (= is not decreasing)"""
    return any(p[i] < p[j] for i in range(len(p)) for j in range(i + 1, len(p)))


def has_descent_pair(p):
    """contains the pattern 10 (= is not increasing)"""
    return any(p[i] > p[j] for i in range(len(p)) for j in range(i + 1, len(p)))


def valid_extension(name, p):
    """The shape demanded of a basis element that is not one of the required patterns.
    True / False / UNDEF."""
    p = tuple(p)
    assert len(p) > 0
    if name in ("RuCuCoreStrategy", "RuCuCdCoreStrategy"):
        return one_plus_skewind(p)
    if name == "RdCdCoreStrategy":
        return one_plus_sumind(p)
    if name == "RuCuRdCdCoreStrategy":
        return starts_with_min(p)
    if name == "RdCdCuCoreStrategy":
        q = drop_trailing_max(p)
        if not q:
            return UNDEF
        return one_plus_sumind(q)
    if name == "RdCuCoreStrategy":
        if not one_plus_skewind(p):
            return False
        q = drop_trailing_max(p)
        if not q:
            return UNDEF
        return one_plus_sumind(q)
    if name == "Rd2134CoreStrategy":
        q = drop_leading_min(p)
        if not q:
            return UNDEF
        if not starts_with_min(p):
            return False
        if R.mesh_contains(q, *M_RD):
            return False
        comp = last_sum_comp(q)
        return has_ascent_pair(comp) or len(comp) == 1      # "not decreasing, or a single point"
    if name == "Ru2143CoreStrategy":
        q = drop_leading_min(p)
        if not q:
            return UNDEF
        if R.mesh_contains(q, *M_RU):
            return False
        return has_descent_pair(last_skew_comp(q))           # "not increasing" (a single point IS increasing)
    raise KeyError(name)


# ---- applicability -----------------------------------------------------------------------

def excluded(p, basis):
    """p is not in Av(basis)."""
    return any(R.contains(p, b) for b in basis)


def sym_images(basis):
    """The (at most eight) distinct symmetric images of a set of permutations."""
    out = []
    for s in R.SYMS:
        img = frozenset(R.apply_sym(s, b) for b in basis)
        if img not in out:
            out.append(img)
    return out


def core_applies_to(name, basis):
    """True / False / UNDEF for ONE image (no symmetries)."""
    needed = NEEDED[name]
    res = True
    if not all(excluded(p, basis) for p in needed):
        return False
    for b in basis:
        if b in needed:
            continue
        v = valid_extension(name, b)
        if v is False:
            return False
        if v == UNDEF:
            res = UNDEF
    return res


def core_applies(name, basis):
    """True / False / UNDEF over all symmetric images."""
    basis = frozenset(map(tuple, basis))
    res = False
    for img in sym_images(basis):
        v = core_applies_to(name, img)
        if v is True:
            return True
        if v == UNDEF:
            res = UNDEF
    return res


# ---- insertion encoding (Vatter): a class has a regular insertion encoding iff it contains only
# finitely many members of each of four juxtaposition families; a family is downward closed, so
# this happens iff some basis element belongs to the family.

def _mono(seq, up):
    return all((a < b) if up else (a > b) for a, b in zip(seq, seq[1:]))


def in_horizontal_juxt(p, left_up, right_up):
    """p = (monotone) | (monotone), side by side: some split point."""
    return any(_mono(p[:i], left_up) and _mono(p[i:], right_up) for i in range(len(p) + 1))


def in_vertical_juxt(p, low_up, high_up):
    """the values below some threshold form one monotone sequence, the others another."""
    return in_horizontal_juxt(R.inverse(p), low_up, high_up)


def insertion_encodable_ref(basis):
    basis = [tuple(b) for b in basis]
    kinds = [(a, b) for a in (True, False) for b in (True, False)]
    horiz = all(any(in_horizontal_juxt(b, l, r) for b in basis) for l, r in kinds)
    vert = all(any(in_vertical_juxt(b, l, r) for b in basis) for l, r in kinds)
    return horiz or vert


# ---- finitely many simples: one-directional (Schmerl-Trotter) -----------------------------

def simples_by_length(maxlen):
    return {n: [p for p in R.perms(n) if R.is_simple(p)] for n in range(4, maxlen + 1)}


# ---- expected report ---------------------------------------------------------------------

def expected(basis):
    """dict strategy name -> True/False/UNDEF for the fast strategies."""
    out = {INSENC: insertion_encodable_ref(basis)}
    for name in CORE:
        out[name] = core_applies(name, basis)
    return out
