"""C20 - persisted and shipped BiSC data and stored automata are faithful.

Sub-checks (all exhaustive over the stated finite spaces, all on the real code in a scratch cwd):

  bisc_hist  E2  BFS over write/read/delete/truncate histories of the BiSC data files (model: file
                 -> dictionaries last written | corrupt | absent); after EVERY history all files of the
                 alphabet are read back and compared with the model.
  db_hist    E2  BFS over store/load/delete/truncate/create/from_db histories of the automaton
                 database, from a bare directory and from an existing empty skeleton; oracle = language
                 equality (own product BFS, mc/ref_c20.py) with a fresh computation; after every
                 history every automaton of the pool is loaded with the memo as the history left it
                 and again as a new process would see the directory.
  bisc_trunc E5  every byte prefix of written BiSC files.
  db_trunc   E5  every byte prefix of stored automaton files.
  malformed  E1  fixed list of malformed / missing inputs of read_bisc_file.
  names      E1  the data-set name is an input: every ordered pair of names from an alphabet of dotted,
                 prefix-related, spaced, ".json"-ending, directory-qualified names, written and read back.
  elsewhere  E1  a path names one file: never-written files named like the shipped data sets under
                 every path form; one base name written to several directories.
  roundtrip  E1  write -> read for the twelve named library predicates, and every ordered pair
                 (first written, then overwritten) of them under one name.
  shipped    E1  the shipped data sets: partition of S_k for every level, equal to the named property
                 (definitional reference mc/ref_c20.py AND the library predicate).
  fresh          a slice of the explored histories re-run in genuinely fresh interpreters
                 (adequacy of the in-process reset; determinism).

State handling: a history is replayed from scratch for every transition (fresh scratch directory,
every lru_cache cleared, every mutable container reachable from the two modules - module level,
class attributes, default arguments, function attributes, closure cells - restored).  The same
containers and the lru_cache sizes are part of the canonical state.  The main process never executes
the code under test, so every worker is forked from the state "just imported".  The shortest
violating histories are re-run in a fresh interpreter before they are recorded; if one only fails
together with what the worker replayed before it (state the reset cannot reach), those histories are
recorded with it, and --replay runs the whole sequence in a fresh interpreter.
"""
from __future__ import annotations

import contextlib
import hashlib
import io
import itertools
import json
import math
import os
import shutil
import subprocess
import sys

from .. import ref_c20 as F
from .. import refmodel as R
from ..core import NPROC, REPO, VERIF, Partial

PROPERTY = "C20"
LEVEL = "model_checking"

SIG_EVAL_CLASS = "C20|load_dfa_for_perm|file-truncated-to-the-3-bytes-DFA"

_WORK = None          # scratch base, set by run()/replay() before any worker is forked


# --------------------------------------------------------------------------------------------
# library access, reset of process-wide state, scratch directories
# --------------------------------------------------------------------------------------------

def _lib():
    import importlib
    from permuta import Perm
    from permuta.permutils.pin_words import PinWords
    B = importlib.import_module("permuta.bisc.bisc")     # permuta.bisc.bisc the MODULE (the package
    return Perm, PinWords, B                             # rebinds the name to the function)


_STATE_MODULES = ["permuta.bisc.bisc", "permuta.permutils.pin_words"]
_INITIAL = None


def _callables():
    """(owner description, callable) for every function defined at module level or as a class
    member (classmethod / staticmethod / lru_cache wrappers included, unwrapped separately) in the
    modules under test."""
    out = []
    for name in _STATE_MODULES:
        mod = sys.modules.get(name)
        if mod is None:
            continue
        for k, v in sorted(vars(mod).items()):
            if isinstance(v, type) and getattr(v, "__module__", None) == name:
                for ck, cv in sorted(vars(v).items()):
                    out.append(((name, v.__name__ + "." + ck), getattr(cv, "__func__", cv)))
            elif callable(v) and getattr(v, "__module__", None) == name:
                out.append(((name, k), v))
    more = []
    for owner, f in out:
        depth = 0
        while hasattr(f, "__wrapped__") and depth < 5:
            f = f.__wrapped__
            depth += 1
            more.append((owner + ("wrapped%d" % depth,), f))
    return [(o, f) for o, f in out + more if callable(f)]


def _containers():
    """(owner description, container) for every mutable container the code under test could keep
    state in between calls: bound at module level, as a class attribute, as a default argument, as
    a function attribute or in a closure cell - in the modules under test."""
    import collections
    kinds = (list, dict, set, collections.deque)
    out = []
    for name in _STATE_MODULES:
        mod = sys.modules.get(name)
        if mod is None:
            continue
        for k, v in sorted(vars(mod).items()):
            if k.startswith("__"):
                continue
            if isinstance(v, kinds):
                out.append(((name, k), v))
            elif isinstance(v, type) and getattr(v, "__module__", None) == name:
                for ck, cv in sorted(vars(v).items()):
                    if isinstance(cv, kinds) and not ck.startswith("__"):
                        out.append(((name, v.__name__ + "." + ck), cv))
    for owner, f in _callables():
        for i, d in enumerate(getattr(f, "__defaults__", None) or ()):
            if isinstance(d, kinds):
                out.append((owner + ("default%d" % i,), d))
        for k, d in sorted((getattr(f, "__kwdefaults__", None) or {}).items()):
            if isinstance(d, kinds):
                out.append((owner + ("kwdefault:" + k,), d))
        try:
            attrs = sorted(vars(f).items())
        except TypeError:
            attrs = []
        for k, d in attrs:
            if isinstance(d, kinds) and not k.startswith("__"):
                out.append((owner + ("attr:" + k,), d))
        for i, cell in enumerate(getattr(f, "__closure__", None) or ()):
            try:
                d = cell.cell_contents
            except ValueError:
                continue
            if isinstance(d, kinds):
                out.append((owner + ("cell%d" % i,), d))
    return out


def _freeze(x):
    import collections
    if isinstance(x, dict):
        return tuple(sorted(((repr(k), _freeze(v)) for k, v in x.items())))
    if isinstance(x, (list, tuple, collections.deque)):
        return tuple(_freeze(v) for v in x)
    if isinstance(x, (set, frozenset)):
        return tuple(sorted(repr(_freeze(v)) for v in x))
    if isinstance(x, (int, str, float, bool, bytes)) or x is None:
        return x
    return type(x).__name__


def _lru_caches():
    out = []
    for owner, f in _callables():
        if hasattr(f, "cache_clear") and hasattr(f, "cache_info"):
            out.append((owner, f))
    return out


def _module_state():
    """In-memory state of the modules under test, as far as it can be seen from outside."""
    return (tuple((owner, _freeze(c)) for owner, c in _containers()),
            tuple((owner, f.cache_info().currsize) for owner, f in _lru_caches()))


# memo tables of pure functions of one integer (all pin words of a length and their permutations);
# the table for length 6 takes seconds to build, so explorations that involve permutations of that
# length keep these three warm and reset everything else
_PURE_TABLES = ("pinword_to_perm_mapping", "perm_to_pinword_mapping", "perm_to_strict_pinword_mapping")
_KEEP_TABLES = False


def _reset(keep_tables=None):
    """Bring every piece of process-wide state of the two stores back to 'just imported'."""
    global _INITIAL
    import copy
    _lib()
    if _INITIAL is None:
        _INITIAL = {owner: copy.deepcopy(c) for owner, c in _containers()}
    keep = _KEEP_TABLES if keep_tables is None else keep_tables
    for owner, f in _lru_caches():
        if keep and str(owner[1]).split(".")[-1] in _PURE_TABLES:
            continue
        f.cache_clear()
    for owner, c in _containers():
        init = _INITIAL.get(owner)
        c.clear()
        if init:
            if isinstance(c, dict):
                c.update(copy.deepcopy(init))
            elif isinstance(c, set):
                c.update(copy.deepcopy(init))
            else:
                c.extend(copy.deepcopy(init))


def _scratch(tag="run", skeleton=()):
    """Empty directory private to this process; becomes the cwd.  The directory itself is reused:
    files are unlinked, sub-directories removed - except those named in `skeleton`, which are
    (re)created empty (rmdir is slow on the file system of the sandbox, so the big explorations
    start from an existing, empty database skeleton and a smaller one from a bare directory)."""
    base = _WORK or os.path.join(VERIF, ".work", "C20-adhoc-%d" % os.getpid())
    d = os.path.join(base, "p%d" % (_OWNER or os.getpid()), tag)
    os.chdir(VERIF)
    keep = {os.path.normpath(os.path.join(d, k)) for k in skeleton}
    if os.path.isdir(d):
        for root, dirs, files in os.walk(d, topdown=False):
            for fn in files:
                os.remove(os.path.join(root, fn))
            for dn in dirs:
                sub = os.path.join(root, dn)
                if os.path.islink(sub):
                    os.remove(sub)
                elif os.path.normpath(sub) not in keep:
                    os.rmdir(sub)
    else:
        os.makedirs(d)
    for k in sorted(keep):
        os.makedirs(k, exist_ok=True)
    os.chdir(d)
    return d


def _listing(canon=None):
    """Complete content of the cwd: sorted (relative path, bytes) for files, (path, None) for dirs.
    canon(path, bytes) may replace the bytes of a file by a canonical description of them."""
    out = []
    for root, dirs, files in os.walk("."):
        dirs.sort()
        for dn in dirs:
            out.append((os.path.relpath(os.path.join(root, dn), "."), None))
        for fn in sorted(files):
            p = os.path.join(root, fn)
            with open(p, "rb") as fh:
                data = fh.read()
            rel = os.path.relpath(p, ".")
            out.append((rel, data if canon is None else canon(rel, data)))
    out.sort(key=lambda t: t[0])
    return tuple(out)


def _digest(obj):
    return hashlib.sha1(repr(obj).encode()).hexdigest()


def _call(fn, *args, **kw):
    """Run a library call with stdout captured.  -> (value, exception, printed)"""
    buf = io.StringIO()
    val = exc = None
    with contextlib.redirect_stdout(buf):
        try:
            val = fn(*args, **kw)
        except Exception as e:  # noqa
            exc = e
    return val, exc, buf.getvalue()


def _put(path, data):
    """Create the file anew with these bytes (unlink first: rewriting in place is slow on ext4)."""
    if os.path.lexists(path):
        os.remove(path)
    with open(path, "wb") as fh:
        fh.write(data)


def _get(path):
    with open(path, "rb") as fh:
        return fh.read()


_OWNER = None    # pid of the process that owns the scratch directory (the one that forks)


def _isolated(fn, *args):
    """Run fn(*args) in a forked child of this process and return its result.  Every execution on
    the real code runs this way: the child starts from the state this process had right after
    importing the library, whatever the code under test keeps in module globals, class attributes,
    default arguments or closures - nothing can leak from one replayed history into the next."""
    global _OWNER
    import pickle
    import traceback
    owner = os.getpid()
    sys.stdout.flush()
    sys.stderr.flush()
    rfd, wfd = os.pipe()
    pid = os.fork()
    if pid == 0:
        code = 0
        _OWNER = owner          # the child works in the scratch directory of its parent
        try:
            os.close(rfd)
            try:
                res = ("ok", fn(*args))
            except BaseException as exc:  # noqa
                tb = traceback.extract_tb(exc.__traceback__)
                inner = os.path.abspath(tb[-1].filename) if tb else ""
                res = ("err", traceback.format_exc(), inner, repr(exc))
            with os.fdopen(wfd, "wb") as fh:
                pickle.dump(res, fh)
        except BaseException:  # noqa
            code = 1
        finally:
            os._exit(code)
    os.close(wfd)
    with os.fdopen(rfd, "rb") as fh:
        data = fh.read()
    os.waitpid(pid, 0)
    if not data:
        raise RuntimeError("isolated child died without an answer")
    res = pickle.loads(data)
    if res[0] == "err":
        raise RuntimeError("isolated child failed:\n" + res[1])
    return res[1]


def _as_part(fn, *args):
    part = Partial()
    fn(part, *args)
    os.chdir(VERIF)
    return part


def _case(dst, fn, *args):
    """Run fn(part, *args) in isolation and add what it reports to dst (a Partial or the Ctx)."""
    src = _isolated(_as_part, fn, *args)
    if hasattr(dst, "merge"):
        dst.merge(src)
        return
    dst.evals += src.evals
    dst.nontrivial += src.nontrivial
    dst.nviol += src.nviol
    dst.viols += src.viols[:max(0, dst.MAXV - len(dst.viols))]
    dst.samples += src.samples[:max(0, 3 - len(dst.samples))]
    for k, n in src.counters.items():
        dst.counters[k] = dst.counters.get(k, 0) + n
    dst.outcomes |= src.outcomes


def _tup(x):
    if isinstance(x, (list, tuple)):
        return tuple(_tup(v) for v in x)
    return x


# --------------------------------------------------------------------------------------------
# BiSC data files: inputs, expected dictionaries, comparison
# --------------------------------------------------------------------------------------------

def _involution(p):
    return all(p[p[i]] == i for i in range(len(p)))


def _always(p):
    return True


def _first_is_max(p):
    return len(p) == 0 or p[0] == len(p) - 1


# the `prop` arguments used as inputs of write_bisc_files (plain functions on tuples; a Perm is a tuple)
def _avoids132(p):
    return F.avoids_classical(p, (0, 2, 1))


# avoids231 / avoids132 are equinumerous on every level: their files have the same byte length but
# (from n = 3 on) different content - an overwrite that changes nothing a stat() can see
PROPS = [("avoids231", F.stack_sortable), ("involution", _involution), ("always", _always),
         ("first_is_max", _first_is_max), ("avoids132", _avoids132)]


def _expected(prop_fn, n, kind):
    want = (kind == "good")
    return {k: [p for p in R.perms(k) if bool(prop_fn(p)) == want] for k in range(n + 1)}


def _compare_dict(got, exp, Perm):
    """None if `got` is exactly the dictionary `exp` (int keys -> list of Perm, same order)."""
    if not isinstance(got, dict):
        return {"why": "not a dict", "got": repr(got)[:200]}
    if sorted(got.keys(), key=repr) != sorted(exp.keys()) or any(type(k) is not int for k in got):
        return {"why": "keys differ", "got_keys": sorted(map(repr, got.keys())), "expected_keys": sorted(exp)}
    for k in sorted(exp):
        g = got[k]
        if not isinstance(g, list) or [tuple(x) for x in g] != exp[k]:
            return {"why": "level %d differs" % k, "got": repr(g)[:300], "expected": repr(exp[k])[:300]}
        if not all(isinstance(x, Perm) for x in g):
            return {"why": "level %d holds non-Perm objects" % k, "got": repr(g)[:200]}
    return None


def _damage(obj):
    """Edit a returned container in place at every nesting level, the way a caller who owns it may:
    nested containers first (reverse, drop the first entry, append a sentinel), then the top level
    (drop a key, add a key).  Immutable members (Perm, tuples, ints) are left alone."""
    import collections
    if isinstance(obj, dict):
        for v in list(obj.values()):
            _damage(v)
        for k in sorted(obj, key=repr)[:1]:
            del obj[k]
        obj["edited by the caller"] = ["edited by the caller"]
    elif isinstance(obj, (list, collections.deque)):
        for v in obj:
            _damage(v)
        obj.reverse()
        if len(obj) > 1:
            del obj[0]
        obj.append("edited by the caller")
    elif isinstance(obj, set):
        obj.clear()
        obj.add("edited by the caller")


def _judge_read(val, exc, out, stem, status, exp, Perm):
    if status == "data":
        if exc is not None:
            return {"file": stem, "model": status, "exception": repr(exc)}, "data:exception"
        bad = _compare_dict(val, exp, Perm)
        if bad is not None:
            bad.update({"file": stem, "model": status, "printed": out[:200]})
            return bad, "data:wrong"
        return None, "data:ok"
    # missing or malformed: must be REPORTED (empty result plus a message, or an exception),
    # never handed out as data
    if exc is not None:
        return None, status + ":exception:" + type(exc).__name__
    if val == {} and out.strip():
        return None, status + ":empty+message"
    return ({"file": stem, "model": status, "got": repr(val)[:300], "printed": out[:200],
             "why": "a %s file was not reported as invalid" % status},
            status + ":unreported")


def _check_read(B, Perm, stem, status, exp):
    """Read <stem>.json with the real reader and compare with the model; then edit the returned
    container in place at every level and read the same path once more: the answer is again what is
    on disk ('fresh' dimension - every read in every sub-check goes through here, and the read-back
    after a history reads every name of the alphabet in turn, so other names holding byte-identical
    content are asked after the edit as well).
    status: 'data' (exp = expected dict), 'corrupt' or 'absent'.  -> (violation detail | None, outcome)"""
    val, exc, out = _call(B.read_bisc_file, stem)
    v, oc = _judge_read(val, exc, out, stem, status, exp, Perm)
    if v is not None:
        return v, oc
    if exc is None:
        try:
            _damage(val)
        except Exception:  # noqa   (an immutable answer cannot be edited: nothing to do)
            pass
    val2, exc2, out2 = _call(B.read_bisc_file, stem)
    v2, oc2 = _judge_read(val2, exc2, out2, stem, status, exp, Perm)
    if v2 is not None:
        v2["second_read"] = "the same path read again after the caller edited the first answer in place"
        return v2, oc2 + ":after-edit"
    if exc2 is None and val2 is val and isinstance(val, (dict, list)):
        return ({"file": stem, "model": status, "why": "two reads returned the very same mutable object"},
                "same-object")
    return None, oc


def _still_complete(cut, full):
    """Does the truncated content still hold the complete document?  (True only when nothing but
    insignificant trailing white space was cut off, e.g. a final newline.)"""
    try:
        return json.loads(cut.decode()) == json.loads(full.decode())
    except ValueError:
        return False


class BiscModel:
    """Histories over the BiSC data files of a scratch directory.
       ("w", name, n, pi)      write_bisc_files(n, PROPS[pi], name)
       ("r", name, kind, n)    read_bisc_file("<name>_<kind>_len<n>")
       ("d", name, kind, n)    delete that file            (enabled when it exists)
       ("t", name, kind, n, m) truncate it: m = "half" -> len//2 bytes, "last" -> len-1 bytes
    """
    kind = "bisc"

    def __init__(self, params):
        self.params = params
        self.names = list(params["names"])
        self.ns = list(params["ns"])
        self.props = list(params["props"])
        self.files = [(nm, kd, n) for nm in self.names for n in self.ns for kd in ("good", "bad")]
        # a name may carry a directory ("d/setA"): those directories exist, empty, from the start
        self.dirs = tuple(sorted({os.path.dirname(nm) for nm in self.names if os.path.dirname(nm)}))
        self.exp = {(pi, n, kd): _expected(PROPS[pi][1], n, kd)
                    for pi in self.props for n in self.ns for kd in ("good", "bad")}

    @staticmethod
    def stem(f):
        return "%s_%s_len%d" % f

    def build(self, hist):
        Perm, _, B = _lib()
        _scratch("bisc", self.dirs)
        _reset()
        model = {}
        viols = []
        outcomes = set()
        last = len(hist) - 1
        for i, op in enumerate(hist):
            v = None
            if op[0] == "w":
                _, nm, n, pi = op
                _, exc, out = _call(B.write_bisc_files, n, PROPS[pi][1], nm)
                if exc is not None:
                    v = {"op": op, "exception": repr(exc)}
                for kd in ("good", "bad"):
                    model[(nm, kd, n)] = ("data", pi)
            elif op[0] == "r":
                f = tuple(op[1:4])
                st = model.get(f, ("absent",))
                v, oc = _check_read(B, Perm, self.stem(f), st[0],
                                    self.exp[(st[1], f[2], f[1])] if st[0] == "data" else None)
                outcomes.add(oc)
                if v is not None:
                    v["op"] = op
            elif op[0] == "d":
                f = tuple(op[1:4])
                path = self.stem(f) + ".json"
                if os.path.exists(path):
                    os.remove(path)
                model.pop(f, None)
            elif op[0] == "t":
                f = tuple(op[1:4])
                path = self.stem(f) + ".json"
                if os.path.exists(path):
                    size = os.path.getsize(path)
                    new = size // 2 if op[4] == "half" else max(0, size - 1)
                    if new < size:
                        full = _get(path)
                        _put(path, full[:new])
                        if not (model.get(f, ("absent",))[0] == "data" and _still_complete(full[:new], full)):
                            model[f] = ("corrupt",)
            else:
                raise ValueError(op)
            if v is not None and i == last:
                viols.append(v)
        listing = _listing()
        canon = (listing, _module_state())
        sizes = {p: (len(c) if c is not None else None) for p, c in listing}
        enabled = []
        for nm in self.names:
            for n in self.ns:
                for pi in self.props:
                    enabled.append(("w", nm, n, pi))
        for f in self.files:
            enabled.append(("r",) + f)
        for f in self.files:
            sz = sizes.get(self.stem(f) + ".json")
            if sz is not None:
                enabled.append(("d",) + f)
                if sz > 0:
                    enabled.append(("t",) + f + ("half",))
                if sz > 1:
                    enabled.append(("t",) + f + ("last",))
        # observation after the history: every file of the alphabet is read back
        for f in self.files:
            st = model.get(f, ("absent",))
            v, oc = _check_read(B, Perm, self.stem(f), st[0],
                                self.exp[(st[1], f[2], f[1])] if st[0] == "data" else None)
            outcomes.add(oc)
            if v is not None:
                v["op"] = "read-back of every file after the history"
                viols.append(v)
                break
        nontrivial = 1 if (sum(1 for s in model.values() if s[0] == "data") >= 1 and len(hist) >= 2) else 0
        return _digest(canon), viols, enabled, outcomes, nontrivial


# --------------------------------------------------------------------------------------------
# automaton database
# --------------------------------------------------------------------------------------------

_REF = {}       # perm tuple -> plain automaton of a fresh computation (clean process state)
_LIBDFA = {}    # perm tuple -> the library DFA object of that computation
_LIBREPR = {}   # perm tuple -> repr of it (what store writes)


def _plain(dfa):
    """Library DFA -> (initial, finals, transitions) of mc/ref_c20.py; None if it is not one."""
    try:
        from automata.fa.dfa import DFA
        if not isinstance(dfa, DFA):
            return None
        trans = {q: dict(t) for q, t in dfa.transitions.items()}
        for t in trans.values():
            for a, q2 in t.items():
                if a not in F.SIGMA or isinstance(q2, (set, frozenset)):
                    return None
        return (dfa.initial_state, frozenset(dfa.final_states), trans)
    except Exception:  # noqa
        return None


def _iso_form(aut):
    """Canonical form of a plain automaton up to renaming of states (reachable part, states numbered
    in breadth-first order over U, L, D, R)."""
    order = {aut[0]: 0}
    queue = [aut[0]]
    rows = []
    while queue:
        q = queue.pop(0)
        row = []
        for a in F.SIGMA:
            q2 = aut[2].get(q, {}).get(a)
            if q2 is None:
                row.append(-1)
                continue
            if q2 not in order:
                order[q2] = len(order)
                queue.append(q2)
            row.append(order[q2])
        rows.append((tuple(row), q in aut[1]))
    return tuple(rows)


def _file_form(data):
    """What a database file says: the automaton it evaluates to (up to state names), else its bytes.
    The library numbers the states of one and the same automaton differently from call to call, so
    the raw bytes would split one state of the store into many."""
    try:
        from automata.fa.dfa import DFA
        a = _plain(eval(data.decode().strip(), {"DFA": DFA}))
        if a is not None:
            return ("automaton", _iso_form(a))
    except Exception:  # noqa
        pass
    return ("bytes", data)


def _ref(pi):
    """Fresh computation for one permutation, made once per process in a clean state."""
    pi = tuple(pi)
    if pi not in _REF:
        Perm, PinWords, _ = _lib()
        _reset(keep_tables=True)
        d = PinWords.make_dfa_for_perm(Perm(pi))
        _LIBDFA[pi] = d
        _LIBREPR[pi] = repr(d)
        _REF[pi] = _plain(d)
        assert _REF[pi] is not None, "make_dfa_for_perm did not return a DFA for %r" % (pi,)
    return _REF[pi]


def _dbpath(pi):
    return "dfa_db/S%d/%s.txt" % (len(pi), "".join(str(i) for i in pi))


def _judge_dfa(val, exc, perms, may_fail):
    """-> (violation detail | None, outcome).  val must be a DFA whose language is the union of the
    fresh computations for `perms`; an exception is acceptable only when may_fail."""
    if exc is not None:
        if may_fail:
            return None, "exception-on-corrupt:" + type(exc).__name__
        return {"exception": repr(exc)}, "exception"
    a = _plain(val)
    if a is None:
        return {"why": "result is not a DFA over ULDR", "got": repr(val)[:200]}, "not-a-dfa"
    w = F.difference_word(a, [_ref(p) for p in perms])
    if w is not None:
        return ({"why": "language differs from the fresh computation", "word": w,
                 "stored_accepts": F.accepts(a, w)}, "wrong-language")
    return None, "equivalent"


class DbModel:
    """Histories over the automaton database dfa_db/ of a scratch directory.
       ("store", pi)   store_dfa_for_perm(pi)
       ("storeg", pi)  store_dfa_for_perm(pi, in_dfa=<fresh computation made by the caller>)
       ("load", pi)    load_dfa_for_perm(pi)
       ("del", pi)     delete dfa_db/S<n>/<pi>.txt       (enabled when it exists)
       ("trunc", pi)   truncate that file to half its size (enabled when it exists)
       ("create", n)   create_dfa_db_for_length(n)
       ("fromdb", bi)  make_dfa_for_basis_from_db(bases[bi])
    """
    kind = "db"

    def __init__(self, params):
        self.params = params
        self.pool = [tuple(p) for p in params["pool"]]
        self.creates = list(params["creates"])
        self.bases = [[tuple(p) for p in b] for b in params["bases"]]
        self.skeleton = tuple(params.get("skeleton", ()))
        self.warm = bool(params.get("warm_tables"))
        for p in self.pool:
            _ref(p)
        for n in self.creates:
            for p in R.perms(n):
                _ref(p)

    def build(self, hist):
        global _KEEP_TABLES
        Perm, PinWords, _ = _lib()
        _scratch("db", self.skeleton)
        _KEEP_TABLES = self.warm
        _reset()
        corrupt = {}          # pi -> bytes the harness left in the file
        viols = []
        outcomes = set()
        last = len(hist) - 1

        def is_bad(pi):
            path = _dbpath(pi)
            if pi in corrupt and os.path.isfile(path):
                with open(path, "rb") as fh:
                    return fh.read() == corrupt[pi]
            return False

        for i, op in enumerate(hist):
            v = None
            if op[0] in ("store", "storeg"):
                pi = tuple(op[1])
                bad = is_bad(pi)
                if op[0] == "store":
                    _, exc, _ = _call(PinWords.store_dfa_for_perm, Perm(pi))
                else:
                    _ref(pi)
                    _, exc, _ = _call(PinWords.store_dfa_for_perm, Perm(pi), _LIBDFA[pi])
                if exc is not None and not bad:
                    v = {"op": op, "exception": repr(exc)}
                elif exc is None and not os.path.isfile(_dbpath(pi)):
                    v = {"op": op, "why": "no file %s after store" % _dbpath(pi)}
            elif op[0] == "load":
                pi = tuple(op[1])
                bad = is_bad(pi)
                val, exc, _ = _call(PinWords.load_dfa_for_perm, Perm(pi))
                v, oc = _judge_dfa(val, exc, [pi], bad)
                outcomes.add("load:" + oc)
                if v is not None:
                    v["op"] = op
            elif op[0] == "del":
                pi = tuple(op[1])
                if os.path.isfile(_dbpath(pi)):
                    os.remove(_dbpath(pi))
            elif op[0] == "trunc":
                pi = tuple(op[1])
                path = _dbpath(pi)
                if os.path.isfile(path):
                    size = os.path.getsize(path)
                    if size > 1:
                        corrupt[pi] = _get(path)[:size // 2]
                        _put(path, corrupt[pi])
            elif op[0] == "create":
                n = op[1]
                _, exc, _ = _call(PinWords.create_dfa_db_for_length, n)
                if exc is not None:
                    v = {"op": op, "exception": repr(exc)}
                else:
                    missing = [p for p in R.perms(n) if not os.path.isfile(_dbpath(p))]
                    if missing:
                        v = {"op": op, "why": "no database file for %r after create" % (missing[:3],)}
            elif op[0] == "fromdb":
                basis = self.bases[op[1]]
                bad = any(is_bad(p) for p in basis)
                val, exc, _ = _call(PinWords.make_dfa_for_basis_from_db, [Perm(p) for p in basis])
                v, oc = _judge_dfa(val, exc, basis, bad)
                outcomes.add("fromdb:" + oc)
                if v is not None:
                    v["op"] = op
            else:
                raise ValueError(op)
            if v is not None and i == last:
                viols.append(v)

        cut = {_dbpath(p): b for p, b in corrupt.items()}
        sizes = {}
        iscut = set()

        def form(rel, data):
            sizes[rel] = len(data)
            if cut.get(rel) == data:
                iscut.add(rel)
                return ("cut in half by the harness",)
            return _file_form(data)

        listing = _listing(form)
        mstate = _module_state()
        present = {p for p, c in listing if c is not None}
        enabled = []
        for p in self.pool:
            enabled += [("store", p), ("storeg", p), ("load", p)]
            if _dbpath(p) in present:
                enabled.append(("del", p))
                if sizes[_dbpath(p)] > 1 and _dbpath(p) not in iscut:
                    enabled.append(("trunc", p))
        enabled += [("create", n) for n in self.creates]
        enabled += [("fromdb", bi) for bi in range(len(self.bases))]

        # ---- observation after the history -----------------------------------------------------
        # (the directory content above is already recorded; nothing below is part of any history)
        loader = getattr(PinWords.load_dfa_for_perm, "__func__", PinWords.load_dfa_for_perm)
        info = getattr(loader, "cache_info", None)
        memo = []
        first_v = None
        # A: with the memo as the history left it.  Absent files are supplied by the harness with
        #    exactly what store would write, so that a miss costs a file read, not a computation.
        for p in self.pool:
            bad = is_bad(p)
            if not os.path.isfile(_dbpath(p)):
                os.makedirs(os.path.dirname(_dbpath(p)), exist_ok=True)
                _put(_dbpath(p), _LIBREPR[p].encode())
            h0 = info().hits if info else None
            val, exc, _ = _call(PinWords.load_dfa_for_perm, Perm(p))
            memo.append((info().hits > h0) if info else None)
            v, oc = _judge_dfa(val, exc, [p], bad)
            outcomes.add("after:" + oc)
            if v is not None and first_v is None:
                v["op"] = "load of %r after the history (memo as left by the history)" % (p,)
                first_v = v
        # A2: from_db for EVERY basis of the menu, twice over, so that every ordered pair of bases
        #     (B1 asked before B2, B1 = B2 included) occurs after every history - whatever from_db
        #     keeps between calls shows here; then every single automaton once more.
        def ask_bases(tag):
            nonlocal first_v
            for bi, basis in enumerate(self.bases):
                bad = any(is_bad(q) for q in basis)
                val, exc, _ = _call(PinWords.make_dfa_for_basis_from_db, [Perm(q) for q in basis])
                v, oc = _judge_dfa(val, exc, basis, bad)
                outcomes.add(tag + ":" + oc)
                if v is not None and first_v is None:
                    v["op"] = "from_db of basis %r %s (bases are asked in menu order)" % (basis, tag)
                    first_v = v

        def ask_loads(tag):
            nonlocal first_v
            for p in self.pool:
                val, exc, _ = _call(PinWords.load_dfa_for_perm, Perm(p))
                v, oc = _judge_dfa(val, exc, [p], is_bad(p))
                outcomes.add(tag + ":" + oc)
                if v is not None and first_v is None:
                    v["op"] = "load of %r %s" % (p, tag)
                    first_v = v

        ask_bases("after, first pass over the bases")
        ask_bases("after, second pass over the bases")
        ask_loads("after the two passes over the bases")
        # B: as a new process would see the directory (bases first: from_db does the loading)
        _reset()
        ask_bases("after the history with the in-memory state cleared")
        ask_loads("after the history with the in-memory state cleared")
        if first_v is not None:
            viols.append(first_v)
        nfiles = sum(1 for p in self.pool if _dbpath(p) in present)
        nontrivial = 1 if (len(hist) >= 2 and (nfiles >= 1 or any(memo))) else 0
        return _digest((listing, tuple(memo), mstate)), viols, enabled, outcomes, nontrivial


MODELS = {"bisc": BiscModel, "db": DbModel}
_MODEL_CACHE = {}


def _model(kind, params):
    key = (kind, json.dumps(params, sort_keys=True))
    m = _MODEL_CACHE.get(key)
    if m is None:
        m = _MODEL_CACHE[key] = MODELS[kind](params)
    return m


# --------------------------------------------------------------------------------------------
# level-synchronous parallel BFS (same contract as mc/explore.py: state = history, every
# transition replays its history on fresh objects; de-duplication by the complete state)
# --------------------------------------------------------------------------------------------

_DONE = []      # histories replayed in THIS process so far (what a leak could stem from)


def _confirm(kind, params, nh, done):
    """A violation was seen while replaying history nh in this process.  Re-run nh alone in a fresh
    interpreter; if it does not fail there, state of the code under test has survived the reset
    between two replays: find a short suffix of the histories replayed before that reproduces it.
    -> list of histories to be replayed before nh (normally empty); None if not found."""
    if _fresh(kind, params, [nh])["violations"]:
        return []
    k = 1
    while True:
        pre = done[-k:]
        if _fresh(kind, params, pre + [nh])["violations"]:
            return [list(h) for h in pre]
        if k >= len(done) or k >= 32:
            return None         # not pinned down: reported, but sorted behind the reproducible ones
        k *= 2


def _bfs_shard(shard):
    kind, params, items = shard
    model = _model(kind, params)
    part = Partial()
    out = []
    for hist, ops in items:
        hist = _tup(hist)
        todo = [hist] if ops is None else [hist + (_tup(op),) for op in ops]
        for nh in todo:
            dg, viols, enabled, outcomes, nontriv = model.build(nh)
            part.add(1, 0)
            part.outcomes |= outcomes
            # with a violation: what was replayed in this process just before (for _confirm)
            out.append((nh, dg, enabled, nontriv, viols, [list(h) for h in _DONE[-32:]] if viols else None))
            _DONE.append(nh)
    os.chdir(VERIF)
    return part, out


def pbfs(ctx, kind, params, initials, depth):
    """-> dict(states, transitions, executions, per_depth, nontrivial_states, sample)"""
    seen = {}
    frontier = []
    nontrivial = 0
    execs = 0
    found = []            # (history, violation detail)
    # (always >= 2 shards: a single shard would be executed by pmap in the main process, and the
    #  main process must stay as it was after the import - every worker is forked from it)
    res = ctx.pmap(_bfs_shard, [(kind, params, [(tuple(h), None)]) for h in initials] + [(kind, params, [])])
    for out in res:
        for nh, dg, enabled, nt, viols, pre in out:
            execs += 1
            found += [(nh, v, pre) for v in viols]
            if dg not in seen:
                seen[dg] = nh
                nontrivial += nt
                frontier.append((nh, enabled))
    per_depth = [len(frontier)]
    transitions = 0
    samples = []
    for d in range(depth):
        if not frontier:
            break
        per = max(1, math.ceil(len(frontier) / (NPROC * 3)))
        chunks = [frontier[i:i + per] for i in range(0, len(frontier), per)]
        res = ctx.pmap(_bfs_shard, [(kind, params, ch) for ch in chunks] + [(kind, params, [])])
        new = []
        for out in res:
            for nh, dg, enabled, nt, viols, pre in out:
                transitions += 1
                execs += 1
                if len(found) < 5000:
                    found += [(nh, v, pre) for v in viols]
                if dg not in seen:
                    seen[dg] = nh
                    nontrivial += nt
                    new.append((nh, enabled))
                    if len(samples) < 2 and len(nh) >= 3:
                        samples.append(list(nh))
        frontier = new
        per_depth.append(len(new))
    # shortest history first (the initial histories have different lengths)
    # the three shortest violating histories are re-examined in a fresh interpreter; then:
    # examined first, self-contained before leak-dependent, shortest first
    found.sort(key=lambda hv: len(hv[0]))
    found = ([(nh, v, _confirm(kind, params, nh, before)) for nh, v, before in found[:3]]
             + [(nh, v, None) for nh, v, _ in found[3:]])
    found.sort(key=lambda hv: (hv[2] is None, len(hv[2] or ()), len(hv[0])))
    ctx.bump(kind + "_hist_violating_histories", len(found))
    for nh, v, pre in found[:25]:
        case = {"model": kind, "params": params, "history": list(nh)}
        if pre:
            # state of the code under test survived the reset between two replays: the case is only
            # reproducible together with the histories replayed before it
            case["replayed_before_in_the_same_process"] = pre
        ctx.violation(kind + "_hist", case, v)
    return {"states": len(seen), "transitions": transitions, "executions": execs,
            "per_depth": per_depth, "nontrivial_states": nontrivial, "samples": samples,
            "histories": [seen[k] for k in list(seen)[:400]]}


# --------------------------------------------------------------------------------------------
# E5 : truncation points
# --------------------------------------------------------------------------------------------

def _bisc_trunc_case(part, pi, n, kind):
    Perm, _, B = _lib()
    _scratch("trunc")
    _reset()
    case = {"prop": pi, "n": n, "kind": kind}
    _, exc, _ = _call(B.write_bisc_files, n, PROPS[pi][1], "src")
    path = "src_%s_len%d.json" % (kind, n)
    if exc is not None or not os.path.isfile(path):
        part.violation("bisc_trunc", case, {"why": "write failed", "exception": repr(exc)})
        return
    with open(path, "rb") as fh:
        data = fh.read()
    exp = _expected(PROPS[pi][1], n, kind)
    for k in range(len(data) + 1):
        _put("cut.json", data[:k])
        whole = k == len(data) or _still_complete(data[:k], data)
        v, oc = _check_read(B, Perm, "cut", "data" if whole else "corrupt", exp)
        part.outcomes.add("trunc:" + oc)
        part.add(1, 1 if 0 < k < len(data) else 0)
        if v is not None:
            c = dict(case)
            c["prefix_bytes"] = k
            c["of"] = len(data)
            part.violation("bisc_trunc", c, v)
            return


def shard_bisc_trunc(shard):
    part = Partial()
    for pi, n, kind in shard:
        _case(part, _bisc_trunc_case, pi, n, kind)
    os.chdir(VERIF)
    return part


def _db_trunc_case(part, pi, only_k=None):
    global _KEEP_TABLES
    Perm, PinWords, _ = _lib()
    _scratch("trunc")
    pi = tuple(pi)
    _KEEP_TABLES = len(pi) >= 5
    _reset()
    _ref(pi)
    _reset()
    _, exc, _ = _call(PinWords.store_dfa_for_perm, Perm(pi))
    path = _dbpath(pi)
    if exc is not None or not os.path.isfile(path):
        part.violation("db_trunc", {"perm": pi}, {"why": "store failed", "exception": repr(exc)})
        return
    with open(path, "rb") as fh:
        data = fh.read()
    ks = range(len(data) + 1) if only_k is None else [only_k]
    from automata.fa.dfa import DFA
    for k in ks:
        _put(path, data[:k])
        _reset()
        val, exc, _ = _call(PinWords.load_dfa_for_perm, Perm(pi))
        v, oc = _judge_dfa(val, exc, [pi], k < len(data))
        part.outcomes.add("dbtrunc:" + oc)
        part.add(1, 1 if 0 < k < len(data) else 0)
        if v is not None:
            case = {"perm": pi, "prefix_bytes": k, "of": len(data)}
            # deviation model of the known finding: the file is evaluated as Python source, so the
            # three bytes "DFA" evaluate to the class object itself
            sig = SIG_EVAL_CLASS if (data[:k] == b"DFA" and val is DFA) else None
            part.violation("db_trunc", case, v, sig=sig)
            if sig is None:
                return


def shard_db_trunc(shard):
    part = Partial()
    for pi in shard:
        _case(part, _db_trunc_case, pi)
    os.chdir(VERIF)
    return part


# --------------------------------------------------------------------------------------------
# malformed / missing inputs of the reader
# --------------------------------------------------------------------------------------------

# contents that are not a JSON document of the written form under ANY reading of the file (whole
# file or first line): well-formed documents spread over several lines are deliberately absent
MALFORMED = ["", " ", "\n", "{", "}", "null", "[]", "3", "\"x\"", "{\"a\": [[0]]}", "{\"1\": 3}",
             "{\"1\": [3]}", "{\"1\": [[0]]}{\"2\": []}", "{\"1\": [[0]]", "{\"1\": [[0]]]}",
             "{'1': [[0]]}", "{1: [[0]]}", "{\"1\": [[0]],}", "DFA", "\x00\x00\x00\x00",
             "{\"1\": [[0]]} trailing"]


def _malformed_case(part, idx):
    Perm, _, B = _lib()
    _scratch("malformed")
    _reset()
    if idx == "missing":
        stem = "no_such_file_good_len3"
    elif idx == "directory":
        os.makedirs("adir_good_len3.json")
        stem = "adir_good_len3"
    elif idx == "missing-dir":
        stem = "no_such_dir/x_good_len3"
    else:
        with open("m_good_len3.json", "w") as fh:
            fh.write(MALFORMED[idx])
        stem = "m_good_len3"
    v, oc = _check_read(B, Perm, stem, "absent" if isinstance(idx, str) else "corrupt", None)
    part.outcomes.add("malformed:" + oc)
    part.add(1, 1)
    if v is not None:
        part.violation("malformed", {"input": idx, "content": MALFORMED[idx] if isinstance(idx, int) else None}, v)


# --------------------------------------------------------------------------------------------
# "elsewhere": a path names ONE file - nothing of the same base name in another place may answer
# --------------------------------------------------------------------------------------------

def _shipped_stems():
    return sorted(fn[:-len(".json")] for fn in os.listdir(_SHIPPED) if fn.endswith(".json"))


ELSEWHERE_FORMS = ["bare", "subdir", "dotdot", "absolute", "chdir-sub", "chdir-sub-dotdot", "missing-dir"]


def _elsewhere_missing_case(part, stem):
    """A never-written file whose base name is that of a data set shipped with the library, asked
    for in an empty scratch directory under every path form: must be reported missing."""
    Perm, _, B = _lib()
    top = _scratch("elsewhere", ("sub",))
    _reset()
    for form in ELSEWHERE_FORMS:
        os.chdir(os.path.join(top, "sub") if form.startswith("chdir-sub") else top)
        path = {"bare": stem, "subdir": "sub/" + stem, "dotdot": "sub/../" + stem,
                "absolute": os.path.join(top, stem), "chdir-sub": stem,
                "chdir-sub-dotdot": "../" + stem, "missing-dir": "no_such_dir/" + stem}[form]
        v, oc = _check_read(B, Perm, path, "absent", None)
        part.outcomes.add("elsewhere:" + oc)
        part.add(1, 1)
        if v is not None:
            v["file"] = stem
            part.violation("elsewhere", {"family": "missing", "stem": stem, "form": form}, v)
            break
    os.chdir(VERIF)


ELSEWHERE_LOCS = [".", "a", "b"]
ELSEWHERE_PROPS = [0, 1, 4]          # PROPS index written at the location of the same index


def _elsewhere_dirs_case(part, order):
    """Data sets of ONE base name written (with different content) to the locations listed in
    `order`, in that order; then every location is read from two working directories, by relative
    and by absolute path: the answer is that location's data, or 'missing'."""
    Perm, _, B = _lib()
    top = _scratch("elsewhere", ("a", "b"))
    _reset()
    n = 3
    case = {"family": "directories", "written_in_order": list(order)}
    for loc in order:
        os.chdir(top)
        _, exc, _ = _call(B.write_bisc_files, n, PROPS[ELSEWHERE_PROPS[ELSEWHERE_LOCS.index(loc)]][1],
                          os.path.normpath(os.path.join(loc, "x")))
        if exc is not None:
            part.violation("elsewhere", case, {"why": "write raised", "exception": repr(exc)})
            return
    for cwd in (".", "a"):
        for loc in ELSEWHERE_LOCS:
            for kind in ("good", "bad"):
                target = os.path.join(top, loc, "x_%s_len%d" % (kind, n))
                for how in ("relative", "absolute"):
                    os.chdir(os.path.join(top, cwd))
                    path = os.path.relpath(target, os.path.join(top, cwd)) if how == "relative" else target
                    if loc in order:
                        exp = _expected(PROPS[ELSEWHERE_PROPS[ELSEWHERE_LOCS.index(loc)]][1], n, kind)
                        v, oc = _check_read(B, Perm, path, "data", exp)
                    else:
                        v, oc = _check_read(B, Perm, path, "absent", None)
                    part.outcomes.add("elsewhere:" + oc)
                    part.add(1, 1 if 0 < len(order) < 3 else 0)
                    if v is not None:
                        v.update({"cwd": cwd, "path": path})
                        part.violation("elsewhere", case, v)
                        os.chdir(VERIF)
                        return
    os.chdir(VERIF)


def shard_elsewhere(shard):
    part = Partial()
    for kind, arg in shard:
        if kind == "missing":
            _case(part, _elsewhere_missing_case, arg)
        else:
            _case(part, _elsewhere_dirs_case, tuple(arg))
    os.chdir(VERIF)
    return part


# --------------------------------------------------------------------------------------------
# "names": the name / path of the persisted artefact is part of the input
# --------------------------------------------------------------------------------------------

# characters and forms that path manipulations treat specially: dots (one, several, doubled, leading,
# trailing), names that are prefixes of one another up to a dot or an underscore, a name ending in
# ".json", names that look like the suffix the writer appends, spaces, a dash, non-ASCII letters, and a
# directory component with a dot (with a plain and a dotted last component)
NAME_ALPHABET = ["plain", "a.b", "a.b.c", "a..b", ".hidden", "a.", "run_0", "run_0.5", "run_0.5.1",
                 "x.json", "a_good", "a_good_len3", "with space", "a-b", "n\u00e4me", "d.ot/plain", "d.ot/a.b"]
NAME_DIRS = ("d.ot",)


def _names_case(part, layer, n1, n2):
    """Two data sets with different content are stored under the names n1, n2 (in that order) in one
    fresh directory; both are read back: each read returns exactly what was last stored under THAT name.
    layer 1: write_bisc_files(n, prop, name) / read_bisc_file(name_<kind>_len<n>)
    layer 2: write_json_to_file(dict, stem + ".json") / read_bisc_file(stem)"""
    Perm, _, B = _lib()
    _scratch("names", NAME_DIRS)
    _reset()
    n = 3
    case = {"layer": layer, "names": [n1, n2]}
    props = [0, 4]        # avoids231, avoids132: same byte length, different content
    last = {}
    for nm, pi in ((n1, props[0]), (n2, props[1])):
        if layer == 1:
            _, exc, out = _call(B.write_bisc_files, n, PROPS[pi][1], nm)
            for kind in ("good", "bad"):
                last["%s_%s_len%d" % (nm, kind, n)] = _expected(PROPS[pi][1], n, kind)
        else:
            exp = _expected(PROPS[pi][1], n, "good")
            _, exc, out = _call(B.write_json_to_file, {k: [list(p) for p in v] for k, v in exp.items()},
                                nm + ".json")
            last[nm] = exp
        if exc is not None or out.strip():
            part.violation("names", case, {"why": "write failed", "name": nm, "exception": repr(exc),
                                           "printed": out[:200]})
            return
    for stem in sorted(last):
        v, oc = _check_read(B, Perm, stem, "data", last[stem])
        part.outcomes.add("names:" + oc)
        if v is not None:
            part.violation("names", case, v)
            return
    special = sum(1 for nm in (n1, n2) if nm != "plain")
    part.add(1, 1 if special else 0)


def shard_names(shard):
    part = Partial()
    for layer, n1, n2 in shard:
        _case(part, _names_case, layer, n1, n2)
    os.chdir(VERIF)
    return part


# --------------------------------------------------------------------------------------------
# the twelve named predicates of the library
# --------------------------------------------------------------------------------------------

def _libprops():
    from permuta import Perm
    from permuta.bisc import perm_properties as PP
    return {
        "Baxter": PP.baxter,
        "SimSun": PP.simsun,
        "West_2_stack_sortable": Perm.west_2_stack_sortable,
        "av_231_and_mesh": PP.av_231_and_mesh,
        "dihedral": PP.dihedral,
        "forest_like": PP.forest_like,
        "in_alternating_group": PP.in_alternating_group,
        "quick_sortable": Perm.quick_sortable,
        "smooth": PP.smooth,
        "stack_sortable": Perm.stack_sortable,
        "yt_perm_avoids_22": PP.yt_perm_avoids_22,
        "yt_perm_avoids_32": PP.yt_perm_avoids_32,
    }


NAMES = sorted(F.NAMED)
_SHIPPED = os.path.join(REPO, "permuta", "resources", "bisc")


def _roundtrip_case(part, names, n):
    """Write names[0], then names[1], ... under ONE name; read back: must be the last one,
    exactly what create_bisc_input produces for it, and (as sets) the reference partition."""
    Perm, _, B = _lib()
    _scratch("rt")
    _reset()
    LP = _libprops()
    case = {"props": list(names), "n": n}
    for nm in names:
        _, exc, out = _call(B.write_bisc_files, n, LP[nm], "ds")
        if exc is not None:
            part.violation("roundtrip", case, {"why": "write raised", "exception": repr(exc)})
            return
    lastp = names[-1]
    written, exc, _ = _call(B.create_bisc_input, n, LP[lastp])
    if exc is not None:
        part.violation("roundtrip", case, {"why": "create_bisc_input raised", "exception": repr(exc)})
        return
    nontrivial = 0
    for which, kind in ((0, "good"), (1, "bad")):
        exp = {k: [tuple(p) for p in v] for k, v in written[which].items()}
        v, oc = _check_read(B, Perm, "ds_%s_len%d" % (kind, n), "data", exp)
        part.outcomes.add("roundtrip:" + oc)
        if v is not None:
            part.violation("roundtrip", case, v)
            return
        # what was written is the partition asked for
        if sorted(exp) != list(range(n + 1)):
            part.violation("roundtrip", case, {"why": "keys of the written dictionary", "got": sorted(exp)})
            return
        for k in range(n + 1):
            ref = F.NAMED[lastp]
            want = [p for p in R.perms(k) if ref(p) is not None and ref(p) == (kind == "good")]
            undecided = [p for p in R.perms(k) if ref(p) is None]
            got = sorted(p for p in exp[k] if p not in undecided)
            if got != want or len(exp[k]) != len(set(exp[k])):
                part.violation("roundtrip", case, {"why": "written %s level %d is not the named property" % (kind, k),
                                                   "got": got[:10], "expected": want[:10]})
                return
        if any(exp[k] for k in exp):
            nontrivial = 1
    part.add(1, nontrivial if len(names) > 1 or n >= 3 else 0)


def shard_roundtrip(shard):
    part = Partial()
    for names, n in shard:
        _case(part, _roundtrip_case, names, n)
    os.chdir(VERIF)
    return part


def _read_shipped(part, fname, reread=True):
    """Read one shipped file with the real reader. -> dict or None (violation already recorded)."""
    Perm, _, B = _lib()
    path = os.path.join(_SHIPPED, fname)
    stem = path[:-len(".json")]
    if not os.path.isfile(path):
        part.violation("shipped", {"file": fname}, {"why": "shipped file is missing"})
        return None
    if os.path.getsize(path) == 0:
        # emptied in this sandbox: treated as absent, only "reported as invalid" is demanded
        v, oc = _check_read(B, Perm, stem, "corrupt", None)
        part.outcomes.add("shipped-empty:" + oc)
        part.bump("shipped_files_empty")
        part.add(1, 0)
        if v is not None:
            part.violation("shipped", {"file": fname}, v)
        return None
    val, exc, out = _call(B.read_bisc_file, stem)
    if exc is not None or not isinstance(val, dict) or not val or out.strip():
        part.violation("shipped", {"file": fname}, {"why": "shipped file unreadable", "exception": repr(exc),
                                                    "printed": out[:200], "got": repr(val)[:100]})
        return None
    for k, lst in val.items():
        if type(k) is not int or not all(isinstance(p, Perm) and len(p) == k and R.is_perm(p) for p in lst):
            part.violation("shipped", {"file": fname, "level": k}, {"why": "entry is not a permutation of its level"})
            return None
        if len(set(lst)) != len(lst):
            part.violation("shipped", {"file": fname, "level": k}, {"why": "duplicate entries"})
            return None
    if reread:
        # the same file once more after the caller edited the first answer in place
        keep = {k: [tuple(p) for p in lst] for k, lst in val.items()}
        _damage(val)
        val2, exc2, out2 = _call(B.read_bisc_file, stem)
        bad = {"exception": repr(exc2)} if exc2 is not None else _compare_dict(val2, keep, Perm)
        if bad is not None:
            bad["why2"] = "second read of the shipped file after the first answer was edited in place"
            part.violation("shipped", {"file": fname}, bad)
            return None
        return val2
    return val


def _check_level(part, name, k, good, bad, use_ref, use_lib, lo=None, hi=None):
    """good/bad: sets of tuples of one level (bad may be None = file absent).  Partition of S_k and
    membership = named property, for the slice [lo:hi] of S_k in lexicographic order."""
    ref = F.NAMED[name]
    lib = _libprops()[name]
    Perm = _lib()[0]
    allp = R.perms(k)[lo:hi] if lo is not None else R.perms(k)
    case = {"set": name, "level": k}
    decided = 0
    for p in allp:
        g = p in good
        if bad is not None and g == (p in bad):
            part.violation("shipped", dict(case, perm=p),
                           {"why": "in both files" if g else "in neither file"})
            return 0
        if use_ref:
            r = ref(p)
            if r is not None:
                decided += 1
                if r != g:
                    part.violation("shipped", dict(case, perm=p),
                                   {"why": "membership differs from the definition", "definition": r, "in_good": g})
                    return 0
        if use_lib:
            val, exc, _ = _call(lib, Perm(p))
            if exc is not None or bool(val) != g:
                part.violation("shipped", dict(case, perm=p),
                               {"why": "membership differs from the library predicate", "library": repr(val),
                                "exception": repr(exc), "in_good": g})
                return 0
    return decided


def shard_shipped(shard):
    """shard = (name, kref, klib): the len8 pair of one named set, all levels; reference predicate
    for levels <= kref, library predicate for levels <= klib; plus consistency of a len9 good file."""
    name, kref, klib = shard
    part = Partial()
    good = _read_shipped(part, name + "_good_len8.json")
    bad = _read_shipped(part, name + "_bad_len8.json")
    if good is None or bad is None:
        return part
    if sorted(good) != list(range(9)) or sorted(bad) != list(range(9)):
        part.violation("shipped", {"set": name}, {"why": "levels are not 0..8", "good": sorted(good), "bad": sorted(bad)})
        return part
    for k in range(9):
        g = set(map(tuple, good[k]))
        b = set(map(tuple, bad[k]))
        if len(g) + len(b) != math.factorial(k):
            part.violation("shipped", {"set": name, "level": k},
                           {"why": "sizes do not add up to k!", "good": len(g), "bad": len(b)})
            return part
        dec = _check_level(part, name, k, g, b, k <= kref, k <= klib)
        part.add(math.factorial(k), 0)
        if g and b and dec:
            part.nontrivial += 1
            part.bump("shipped_levels_nontrivial")
        if part.nviol:
            return part
    part.sample({"set": name, "level": 4, "good": len(good[4]), "bad": len(bad[4]),
                 "first_bad": list(bad[4][0]) if bad[4] else None}, cap=1)
    for kind, base in (("good", good), ("bad", bad)):
        fn = "%s_%s_len9.json" % (name, kind)
        if not os.path.isfile(os.path.join(_SHIPPED, fn)):
            continue
        d9 = _read_shipped(part, fn)        # None for a zero-length file (then only the report was checked)
        if d9 is None:
            continue
        if sorted(d9) != list(range(10)):
            part.violation("shipped", {"set": name, "file": fn}, {"why": "levels are not 0..9"})
            return part
        for k in range(9):
            if set(map(tuple, d9[k])) != set(map(tuple, base[k])):
                part.violation("shipped", {"set": name, "level": k, "file": fn},
                               {"why": "the len9 and the len8 file disagree on a common level"})
                return part
        part.add(9, 0)
    return part


_LV = {}


def _load_level(part, name, L, k):
    """(good level k, bad level k | None) of the len<L> files of one set, read once per process."""
    if (name, L) not in _LV:
        tmp = Partial()
        g = _read_shipped(tmp, "%s_good_len%d.json" % (name, L), reread=False)
        b = None
        if os.path.isfile(os.path.join(_SHIPPED, "%s_bad_len%d.json" % (name, L))):
            b = _read_shipped(tmp, "%s_bad_len%d.json" % (name, L), reread=False)
        part.viols += tmp.viols
        part.nviol += tmp.nviol
        _LV[(name, L)] = None if g is None else (g, b)
    got = _LV[(name, L)]
    if got is None:
        return None
    g, b = got
    return (set(map(tuple, g.get(k, []))), None if b is None else set(map(tuple, b.get(k, []))))


def shard_level(shard):
    """Level k of the len<L> files of one set, slice [lo:hi] of S_k: membership = definition (and
    library predicate); partition with the bad file when that one is not empty."""
    name, L, k, lo, hi, use_ref, use_lib = shard
    part = Partial()
    got = _load_level(part, name, L, k)
    if got is None:
        return part
    dec = _check_level(part, name, k, got[0], got[1], use_ref, use_lib, lo, hi)
    part.add(hi - lo if L == 9 else 0, 1 if (dec and L == 9) else 0)
    part.bump("shipped_level%d_memberships_compared" % k, dec)
    return part


# --------------------------------------------------------------------------------------------
# fresh-interpreter cross-check
# --------------------------------------------------------------------------------------------

def _observe(kind, params, hists):
    """Replay the histories one after the other in this process; -> observation of the last."""
    model = _model(kind, params)
    for h in hists:
        dg, viols, enabled, outcomes, _ = model.build(_tup(h))
    os.chdir(VERIF)
    return {"digest": dg, "violations": json.loads(json.dumps(viols, default=repr)),
            "enabled": json.loads(json.dumps(enabled)), "outcomes": sorted(outcomes)}


def _fresh_main():
    """Entry of the child interpreter: a sequence of histories, printed observation of the last."""
    global _WORK
    req = json.loads(sys.stdin.read())
    _WORK = req["work"]
    sys.stdout.write("\n@@" + json.dumps(_observe(req["kind"], req["params"], req["histories"])) + "\n")


def _fresh(kind, params, hists):
    """The same in a genuinely fresh interpreter (new process, nothing inherited)."""
    env = dict(os.environ)
    env["PYTHONHASHSEED"] = "0"
    env["VERIF_REPO"] = REPO
    code = ("import sys; sys.path.insert(0, %r); sys.path.insert(1, %r); "
            "from mc.checks import c20; c20._fresh_main()" % (REPO, VERIF))
    proc = subprocess.run([sys.executable, "-B", "-c", code], cwd=VERIF, env=env, text=True,
                          input=json.dumps({"kind": kind, "params": params, "histories": [list(h) for h in hists],
                                            "work": os.path.join(_WORK, "fresh%d" % os.getpid())}),
                          capture_output=True)
    line = [ln for ln in proc.stdout.splitlines() if ln.startswith("@@")]
    if proc.returncode != 0 or not line:
        raise RuntimeError("fresh interpreter failed: %s" % proc.stderr[-2000:])
    return json.loads(line[-1][2:])


def shard_fresh(shard):
    kind, params, hist = shard
    part = Partial()
    if kind is None:
        return part
    here = _observe(kind, params, [hist])
    there = _fresh(kind, params, [hist])
    part.add(1, 1 if len(hist) >= 2 else 0)
    if there != here:
        part.violation("fresh", {"model": kind, "params": params, "history": list(hist)},
                       {"why": "a fresh interpreter observes something else than the in-process replay",
                        "in_process": here, "fresh": there})
    return part


# --------------------------------------------------------------------------------------------

def _bisc_params(quick):
    return {"names": ["setA", "setB"], "ns": [2, 3], "props": [0, 1, 4] if quick else [0, 1, 2, 4]}


def _bisc_initials():
    return [(),
            (("w", "setA", 2, 0), ("w", "setB", 3, 1)),
            (("w", "setA", 3, 1), ("t", "setA", "good", 3, "half")),
            (("w", "setB", 2, 0), ("d", "setB", "bad", 2))]


def _bisc_dir_params(quick):
    """The same base name in two directories: whatever the reader or the writer looks up by base
    name, or in a second location, makes one of them answer for the other."""
    return {"names": ["setA", "d/setA"], "ns": [2, 3], "props": [0, 4] if quick else [0, 1, 4]}


def _bisc_dir_initials():
    return [(),
            (("w", "d/setA", 3, 0),),
            (("w", "setA", 3, 0), ("w", "d/setA", 3, 4))]


def _subsets(pool, maxsize):
    return [[list(p) for p in c] for r in range(1, maxsize + 1) for c in itertools.combinations(pool, r)]


def _db_params(quick, bare=False):
    """bases = a complete family of subsets of the pool (so: the empty permutation alone and with
    others, bases sharing a sorted prefix, bases of mixed lengths)."""
    if quick:
        pool = [(), (0,), (0, 1), (1, 0)]
        prm = {"pool": pool, "creates": [0, 1, 2], "bases": _subsets(pool, 4)}      # all 15
        top = 2
    else:
        pool = [(), (0,), (0, 1), (1, 0), (0, 2, 1), (1, 2, 0)]
        prm = {"pool": pool, "creates": [1, 2, 3], "bases": _subsets(pool, 2)}      # 6 + 15
        top = 3
    # start directory: bare (no dfa_db at all) or an existing, empty database skeleton
    prm["skeleton"] = [] if bare else ["dfa_db"] + ["dfa_db/S%d" % n for n in range(top + 1)]
    return prm


# Automata whose stored TEXT has an extreme shape: the universal language (empty permutation: every
# state accepting) and the empty language (a permutation without any pin word: no accepting state,
# which the automata library prints differently from a non-empty set).  Permutations without pin
# words first exist at length 6; these are the lexicographically first one and a second one that is
# not related to it by a symmetry of the square.
SHAPE_POOL = [(), (1, 2, 5, 0, 3, 4), (2, 4, 0, 5, 1, 3)]


def _shape_params():
    return {"pool": SHAPE_POOL, "creates": [], "bases": _subsets(SHAPE_POOL, 3),
            "skeleton": ["dfa_db", "dfa_db/S0", "dfa_db/S6"], "warm_tables": True}


def _shape_initials():
    return [(), tuple(("storeg", p) for p in SHAPE_POOL)]


def _db_initials():
    return [(),
            (("create", 2),),
            (("store", (0, 1)), ("trunc", (0, 1))),
            (("load", (1, 0)), ("del", (1, 0)))]


def run(ctx, only=None):
    global _WORK

    def want(name):
        return only is None or name in only

    quick = ctx.quick
    _WORK = ctx.work
    _reset()          # takes the snapshot of the state "just imported"
    ctx.rule = ("histories: distinct states (complete directory content + in-memory caches) reached by a "
                "history of >= 2 operations with at least one live data file / stored automaton; "
                "truncation: proper non-empty byte prefixes; shipped: (set, level) pairs where both the good "
                "and the bad list are non-empty and membership was compared with the definition for every "
                "permutation of the level; roundtrip: sequences with a non-empty dictionary")
    ctx.assumptions = [
        "file naming as documented: <name>_{good,bad}_len<n>.json and dfa_db/S<n>/<digits>.txt in the cwd",
        "a missing/malformed BiSC file counts as reported when the reader returns {} and prints something, or raises",
        "loading a file the harness truncated may raise; whatever DFA is returned must be language-equivalent",
        "'fresh computation' = PinWords.make_dfa_for_perm in a process state with all lru_caches cleared",
        "dihedral / in_alternating_group for n < 3 follow the convention documented in the library "
        "(no independent definition); smooth as documented in the library (0213 and 1032)",
        "zero-length shipped files (emptied in this sandbox) are treated as absent",
        "written dictionaries have the levels 0..n (as the shipped ones have 0..8 / 0..9)",
        "the bytes the library stores for one automaton differ from call to call (state numbering); files are "
        "compared as automata up to renaming of states, and the number of byte prefixes in db_trunc varies a little",
    ]
    bad = F.selftest(5 if quick else 6)
    if bad:
        raise AssertionError("reference self-test failed: %r" % (bad[:3],))

    states = transitions = traces = 0

    if want("bisc_hist"):
        plan = [("two names in the working directory", _bisc_params(quick), _bisc_initials(), 3 if quick else 4),
                ("one name in the working directory and in a sub-directory", _bisc_dir_params(quick),
                 _bisc_dir_initials(), 3)]
        ctx.bounds["bisc_hist"] = []
        bisc_hists = None
        for label, params, inits, depth in plan:
            st = pbfs(ctx, "bisc", params, inits, depth)
            states += st["states"]
            transitions += st["transitions"]
            traces += st["executions"]
            ctx.nontrivial += st["nontrivial_states"]
            ctx.bounds["bisc_hist"].append({"alphabet": label, "depth_beyond_each_initial_state": depth,
                                            "params": params, "initial_histories": [list(h) for h in inits],
                                            "props": [PROPS[i][0] for i in params["props"]]})
            for h in st["samples"][:1]:
                ctx.sample({"bisc_history": h, "alphabet": label})
            ctx.section("bisc_hist", alphabet=label, states=st["states"], transitions=st["transitions"],
                        per_depth=st["per_depth"])
            if bisc_hists is None:
                bisc_hists = st["histories"]
    if want("db_hist"):
        params = _db_params(quick)
        DbModel(params)      # reference automata are computed before the workers are forked
        db_hists = []
        shape = ("automata of extreme shape (universal / empty language)", _shape_params(), _shape_initials(),
                 2 if quick else 3)
        if quick:
            plan = [("bare directory", _db_params(True, bare=True), [()], 2),
                    shape,
                    ("empty database skeleton", params, _db_initials(), 2)]
        else:
            small = _db_params(True)
            plan = [("bare directory", _db_params(True, bare=True), [()], 3),
                    shape,
                    ("empty database skeleton", small, _db_initials(), 3),
                    ("empty database skeleton, larger pool", params, _db_initials(), 2)]
        ctx.bounds["db_hist"] = []
        for label, prm, inits, depth in plan:
            _model("db", prm)     # reference automata (and warm tables) exist before the workers are forked
            st = pbfs(ctx, "db", prm, inits, depth)
            states += st["states"]
            transitions += st["transitions"]
            traces += st["executions"]
            ctx.nontrivial += st["nontrivial_states"]
            ctx.bounds["db_hist"].append({"start": label, "depth_beyond_each_initial_state": depth, "params": prm,
                                          "initial_histories": [list(h) for h in inits]})
            for h in st["samples"][:1]:
                ctx.sample({"db_history": h, "start": label})
            ctx.section("db_hist", start=label, states=st["states"], transitions=st["transitions"],
                        per_depth=st["per_depth"])
            db_hists = st["histories"]
        # the reference automata must tell the permutations apart, or a mix-up would go unnoticed
        pool = [tuple(p) for p in params["pool"]]
        same = [(a, b) for a, b in itertools.combinations(pool, 2)
                if F.difference_word(_ref(a), [_ref(b)]) is None]
        ctx.bump("db_pool_pairs_with_equal_language", len(same))
        ctx.extra["shape_pool_languages"] = {repr(p): ("empty" if F.difference_word(_ref(p), []) is None else
                                                       "non-empty") for p in SHAPE_POOL}
        ctx.extra["db_pool_pairs_with_equal_language"] = same
    if want("bisc_trunc"):
        e0 = ctx.evals
        nmax = 4 if quick else 5
        cases = [(pi, n, kd) for pi in range(len(PROPS)) for n in range(nmax + 1) for kd in ("good", "bad")]
        ctx.pmap(shard_bisc_trunc, [cases[i::NPROC] for i in range(NPROC)])
        ctx.bounds["bisc_trunc"] = "every byte prefix of both files for %d props x n<=%d" % (len(PROPS), nmax)
        traces += ctx.evals - e0
        ctx.section("bisc_trunc", evaluations=ctx.evals - e0)
    if want("db_trunc"):
        e0 = ctx.evals
        nmax = 3 if quick else 4
        perms = [p for n in range(nmax + 1) for p in R.perms(n)] + [p for p in SHAPE_POOL if len(p) > nmax]
        for p in perms:
            _ref(p)
        ctx.pmap(shard_db_trunc, [[p] for p in perms])
        ctx.bounds["db_trunc"] = ("every byte prefix of the stored file of every permutation of length <= %d and of "
                                  "the shape-extreme permutations %r" % (nmax, SHAPE_POOL))
        traces += ctx.evals - e0
        ctx.section("db_trunc", evaluations=ctx.evals - e0)
    if want("malformed"):
        for idx in list(range(len(MALFORMED))) + ["missing", "directory", "missing-dir"]:
            _case(ctx, _malformed_case, idx)
        os.chdir(VERIF)
        ctx.bounds["malformed"] = "%d literal contents + missing file, directory, missing directory" % len(MALFORMED)
    if want("elsewhere"):
        e0 = ctx.evals
        stems = _shipped_stems()
        orders = [list(o) for r in range(len(ELSEWHERE_LOCS) + 1) for o in itertools.permutations(ELSEWHERE_LOCS, r)]
        cases = [("missing", st) for st in stems] + [("directories", o) for o in orders]
        per = max(1, math.ceil(len(cases) / (NPROC * 2)))
        ctx.pmap(shard_elsewhere, [cases[i:i + per] for i in range(0, len(cases), per)])
        ctx.bounds["elsewhere"] = {
            "missing": "never-written file named like each of the %d shipped data files x path forms %s"
                       % (len(stems), ELSEWHERE_FORMS),
            "directories": "one base name written to every ordered selection of the locations %s (%d orders), "
                           "each location then read from 2 working directories by relative and absolute path"
                           % (ELSEWHERE_LOCS, len(orders))}
        traces += ctx.evals - e0
        ctx.section("elsewhere", evaluations=ctx.evals - e0)
    if want("names"):
        e0 = ctx.evals
        # single names first (n1 = n2: plain overwrite), then the pairs: the first violation is the simplest
        for group in ([(ly, a, a) for ly in (1, 2) for a in NAME_ALPHABET],
                      [(ly, a, b) for ly in (1, 2) for a in NAME_ALPHABET for b in NAME_ALPHABET if a != b]):
            per = max(1, math.ceil(len(group) / (NPROC * 2)))      # contiguous: results merge simplest-first
            ctx.pmap(shard_names, [group[i:i + per] for i in range(0, len(group), per)])
        ctx.bounds["names"] = {"alphabet": NAME_ALPHABET, "cases": "every ordered pair (n1 = n2 included) x 2 layers "
                               "(write_bisc_files / write_json_to_file), n = 3, both read back"}
        traces += ctx.evals - e0
        ctx.section("names", evaluations=ctx.evals - e0)
    if want("roundtrip"):
        e0 = ctx.evals
        nmax = 5 if quick else 6
        groups = [[((nm,), n) for n in range(nmax + 1) for nm in NAMES]]
        groups.append([((a, b), n) for n in ([4] if quick else [3, 4, 5]) for a in NAMES for b in NAMES])
        if not quick:
            groups.append([((a, b, a), 4) for a in NAMES for b in NAMES if a != b])
        for cases in groups:        # simplest first: single writes, then overwrites
            ctx.pmap(shard_roundtrip, [cases[i::NPROC * 2] for i in range(NPROC * 2)])
        ctx.bounds["roundtrip"] = ("12 named predicates x n<=%d; all ordered pairs written one after the other "
                                   "under one name at n in %s%s" % (nmax, [4] if quick else [3, 4, 5],
                                                                    "" if quick else "; all A,B,A triples at n=4"))
        ctx.section("roundtrip", evaluations=ctx.evals - e0)
    if want("shipped"):
        e0 = ctx.evals
        kref, klib = (8, 6) if quick else (8, 8)
        ctx.pmap(shard_shipped, [(nm, kref, klib) for nm in NAMES])
        nine = sorted(fn[:-len("_good_len9.json")] for fn in os.listdir(_SHIPPED) if fn.endswith("_good_len9.json"))
        total = math.factorial(9)
        per = total // (6 if quick else 24)
        ctx.pmap(shard_level, [(nm, 9, 9, lo, min(total, lo + per), True, not quick)
                               for nm in nine for lo in range(0, total, per)])
        ctx.bounds["shipped"] = {"sets": NAMES, "partition_checked_for_levels": "0..8",
                                 "definition_compared_up_to_level": kref, "library_predicate_up_to_level": klib,
                                 "len9_good_files": nine, "level_9": "definition" if quick else "definition and library predicate"}
        ctx.section("shipped", evaluations=ctx.evals - e0)
    if want("fresh") and (want("bisc_hist") and want("db_hist")):
        e0 = ctx.evals
        cnt = 3 if quick else 12
        pick = []
        for kind, params, hists in (("bisc", _bisc_params(quick), bisc_hists), ("db", _db_params(quick), db_hists)):
            hs = [h for h in hists if len(h) >= 2]
            stepn = max(1, len(hs) // cnt)
            pick += [(kind, params, list(h)) for h in hs[::stepn][:cnt]]
        ctx.pmap(shard_fresh, pick + [(None, None, None)])
        ctx.bounds["fresh"] = "%d recorded histories re-run in one fresh interpreter each" % len(pick)
        traces += len(pick)
        ctx.section("fresh", evaluations=ctx.evals - e0)
    ctx.states, ctx.transitions, ctx.traces = states, transitions, traces
    os.chdir(VERIF)


# --------------------------------------------------------------------------------------------

def replay(ctx, rec):
    global _WORK
    _WORK = ctx.work
    _reset()
    sub, case = rec["sub"], rec["case"]
    try:
        if sub in ("bisc_hist", "db_hist"):
            hist = _tup(case["history"])
            pre = [_tup(h) for h in case.get("replayed_before_in_the_same_process", [])]
            for i in range(0 if not pre else len(hist), len(hist) + 1):
                viols = _fresh(case["model"], case["params"], pre + [hist[:i]])["violations"]
                if viols:
                    ctx.violation(sub, case, viols[0])
                    break
        elif sub == "bisc_trunc":
            _case(ctx, _bisc_trunc_case, case["prop"], case["n"], case["kind"])
        elif sub == "db_trunc":
            _case(ctx, _db_trunc_case, tuple(case["perm"]), case.get("prefix_bytes"))
        elif sub == "malformed":
            _case(ctx, _malformed_case, case["input"])
        elif sub == "names":
            _case(ctx, _names_case, case["layer"], case["names"][0], case["names"][1])
        elif sub == "elsewhere":
            if case["family"] == "missing":
                _case(ctx, _elsewhere_missing_case, case["stem"])
            else:
                _case(ctx, _elsewhere_dirs_case, tuple(case["written_in_order"]))
        elif sub == "roundtrip":
            _case(ctx, _roundtrip_case, tuple(case["props"]), case["n"])
        elif sub == "shipped":
            name = case.get("set")
            if name is None:
                _read_shipped(ctx, case["file"])
            elif case.get("level") == 9:
                ctx.merge(shard_level((name, 9, 9, 0, math.factorial(9), True, True)))
            else:
                ctx.merge(shard_shipped((name, 8, 8)))
        elif sub == "fresh":
            ctx.merge(shard_fresh((case["model"], case["params"], case["history"])))
        else:
            raise ValueError("unknown sub-check %r" % sub)
    finally:
        os.chdir(VERIF)
