"""C01 - classical occurrences, containment, counts: exact for all pairs, whatever was searched before.

E1: every (pattern, text) pair of a size range against itertools.combinations + standardisation.
E2: BFS over histories of searches/generator steps on ONE pattern object (memo on the object).
"""
from __future__ import annotations

import itertools
import math
import os
import sys

from .. import refmodel as R
from ..core import Partial, REPO
from ..explore import bfs

PROPERTY = "C01"
LEVEL = "model_checking"


def _P():
    from permuta import Perm
    return Perm


# --------------------------------------------------------------------------------------------
# E1 : all pairs
# --------------------------------------------------------------------------------------------

def ref_groups(text, maxk):
    """dict pattern -> list of occurrences (lex order) for all patterns of length <= maxk."""
    n = len(text)
    groups = {}
    for k in range(0, min(maxk, n) + 1):
        for idx in itertools.combinations(range(n), k):
            groups.setdefault(R.std([text[i] for i in idx]), []).append(idx)
    return groups


def check_pair(part, Perm, p, t, ref, derived):
    """Compare every observer on (pattern p, text t) with the reference list `ref`."""
    P, T = Perm(p), Perm(t)
    try:
        got = list(P.occurrences_in(T))
    except RecursionError as exc:
        # the search recurses once per pattern entry: a pattern about as long as the interpreter's
        # recursion limit gets no answer at all (resource exhaustion, loud) - not a wrong answer
        if len(p) + 100 >= sys.getrecursionlimit():
            part.bump("no_answer_recursion_limit")
            return
        part.violation("occ", {"patt": p, "text": t}, {"exception": repr(exc)})
        return
    except Exception as exc:  # noqa
        part.violation("occ", {"patt": p, "text": t}, {"exception": repr(exc)})
        return
    if got != ref:
        part.violation("occ", {"patt": p, "text": t}, {"expected": ref, "got": got})
        return
    if not derived:
        return
    obs = {}
    try:
        obs["occurrences_of"] = list(T.occurrences_of(P)) == ref
        obs["contains"] = T.contains(P) == bool(ref)
        obs["avoids"] = T.avoids(P) == (not ref)
        obs["avoids_set"] = T.avoids_set(iter([P])) == (not ref)
        obs["in"] = (P in T) == bool(ref)
        obs["count_occurrences_of"] = T.count_occurrences_of(P) == len(ref)
        obs["count_occurrences_in"] = P.count_occurrences_in(T) == len(ref)
        obs["contained_in"] = P.contained_in(T) == bool(ref)
        obs["avoided_by"] = P.avoided_by(T) == (not ref)
    except RecursionError as exc:
        if len(p) + 100 >= sys.getrecursionlimit():
            part.bump("no_answer_recursion_limit")
            return
        part.violation("derived", {"patt": p, "text": t}, {"exception": repr(exc), "done": obs})
        return
    except Exception as exc:  # noqa
        part.violation("derived", {"patt": p, "text": t}, {"exception": repr(exc), "done": obs})
        return
    bad = [k for k, ok in obs.items() if not ok]
    if bad:
        part.violation("derived", {"patt": p, "text": t}, {"disagree": bad, "nocc": len(ref)})


def shard_pairs(shard):
    n, lo, hi, maxk, derived = shard
    Perm = _P()
    part = Partial()
    texts = R.perms(n)[lo:hi]
    patts = [p for k in range(0, maxk + 1) for p in R.perms(k)]
    for t in texts:
        groups = ref_groups(t, maxk)
        for p in patts:
            ref = groups.get(p, [])
            check_pair(part, Perm, p, t, ref, derived)
            k = len(p)
            nontriv = 1 if (0 < k < n and ref and len(ref) < _comb(n, k)) else 0
            part.add(1, nontriv)
    if texts:
        t = texts[0]
        p = patts[min(len(patts) - 1, 7)]
        part.sample({"patt": p, "text": t, "occurrences": ref_groups(t, maxk).get(p, [])}, cap=1)
    return part


_COMB = {}


def _comb(n, k):
    v = _COMB.get((n, k))
    if v is None:
        import math
        v = _COMB[(n, k)] = math.comb(n, k)
    return v


def shard_multi(shard):
    """contains/avoids/avoids_set with several patterns: all ordered pairs and triples of
    patterns of length <= 3 against every text of the shard."""
    n, lo, hi = shard
    Perm = _P()
    part = Partial()
    texts = R.perms(n)[lo:hi]
    patts = [p for k in range(0, 4) for p in R.perms(k)]
    PP = {p: Perm(p) for p in patts}
    for t in texts:
        T = Perm(t)
        c = {p: R.contains(t, p) for p in patts}
        for ps in itertools.chain(itertools.product(patts, repeat=2),
                                  itertools.combinations(patts, 3)):
            args = [PP[p] for p in ps]
            exp_c = all(c[p] for p in ps)
            exp_a = all(not c[p] for p in ps)
            try:
                got = (T.contains(*args), T.avoids(*args), T.avoids_set(args),
                       T.avoids_set(set(args)), T.avoids_set(iter(args)))
            except Exception as exc:  # noqa
                part.violation("multi", {"patts": ps, "text": t}, {"exception": repr(exc)})
                continue
            if got != (exp_c, exp_a, exp_a, exp_a, exp_a):
                part.violation("multi", {"patts": ps, "text": t},
                               {"expected": [exp_c, exp_a], "got": got})
            part.add(1, 1 if (any(c[p] for p in ps) and not exp_c) else 0)
    return part


def shard_colours(shard):
    """All 2-colourings of pattern and text."""
    n, lo, hi, maxk = shard
    Perm = _P()
    part = Partial()
    texts = R.perms(n)[lo:hi]
    patts = [p for k in range(0, maxk + 1) for p in R.perms(k)]
    for t in texts:
        T = Perm(t)
        groups = ref_groups(t, maxk)
        for p in patts:
            P = Perm(p)
            occ = groups.get(p, [])
            for pc in itertools.product((0, 1), repeat=len(p)):
                for tc in itertools.product((0, 1), repeat=n):
                    ref = [idx for idx in occ
                           if all(tc[i] == pc[j] for j, i in enumerate(idx))]
                    try:
                        got = list(P.occurrences_in(T, pc, tc))
                    except Exception as exc:  # noqa
                        part.violation("colour", {"patt": p, "text": t, "pc": pc, "tc": tc},
                                       {"exception": repr(exc)})
                        continue
                    if got != ref:
                        part.violation("colour", {"patt": p, "text": t, "pc": pc, "tc": tc},
                                       {"expected": ref, "got": got})
                    part.add(1, 1 if (ref and len(ref) < len(occ)) else 0)
    return part


def shard_longer(shard):
    """Pattern longer than the text: never occurs."""
    n, = shard
    Perm = _P()
    part = Partial()
    for t in R.perms(n):
        for p in R.perms(n + 1):
            check_pair(part, Perm, p, t, [], True)
            part.add(1, 0)
    return part


# --------------------------------------------------------------------------------------------
# long patterns: the per-pattern bound table as a *guide* to witnesses
# --------------------------------------------------------------------------------------------
# The pruned search trusts its bounds completely (there is no final order-isomorphism test), and a
# bound computed from anything but the tight left floor / left ceiling admits a false occurrence
# in SOME text.  Exhaustive pairs stop at text length 7-8, so for longer patterns the documented
# helper `left_floor_and_ceiling` is compared with its definition; a deviation is NOT reported by
# itself - it is used to look for a (pattern, text) pair on which the occurrences are really wrong
# (texts: one- and two-point extensions of the pattern and of its value-adjacent neighbours), and
# only such a pair is reported, as an ordinary `occ` violation.

def ref_floor_ceiling(p):
    out = []
    for i, v in enumerate(p):
        fl = [j for j in range(i) if p[j] < v]
        ce = [j for j in range(i) if p[j] > v]
        out.append((max(fl, key=lambda j: p[j]) if fl else -1,
                    min(ce, key=lambda j: p[j]) if ce else -1))
    return out


def witness_texts(p):
    """p, its value-adjacent neighbours, and all their one- and two-point extensions."""
    k = len(p)
    bases = [tuple(p)]
    for v in range(k - 1):
        q = list(p)
        i, j = q.index(v), q.index(v + 1)
        q[i], q[j] = q[j], q[i]
        bases.append(tuple(q))
    seen = set()
    for q in bases:
        for i in range(len(q) + 1):
            for v in range(len(q) + 1):
                t1 = R.insert_point(q, i, v)
                if t1 not in seen:
                    seen.add(t1)
                    yield t1
    for q in bases:
        for i in range(len(q) + 1):
            for v in range(len(q) + 1):
                t1 = R.insert_point(q, i, v)
                for i2 in range(len(t1) + 1):
                    for v2 in range(len(t1) + 1):
                        t2 = R.insert_point(t1, i2, v2)
                        if t2 not in seen:
                            seen.add(t2)
                            yield t2


def shard_table(shard):
    n, lo, hi = shard
    Perm = _P()
    part = Partial()
    if not hasattr(Perm, "left_floor_and_ceiling"):
        part.bump("table_helper_absent")
        return part
    for p in R.perms(n)[lo:hi]:
        P = Perm(p)
        try:
            got = [tuple(x) for x in P.left_floor_and_ceiling()]
        except Exception as exc:  # noqa
            got = repr(exc)
        part.add(1, 1 if n >= 3 else 0)
        if got == ref_floor_ceiling(p):
            continue
        part.bump("table_deviations")
        found = False
        for t in witness_texts(p):
            ref = R.occurrences(p, t)
            try:
                occ = list(Perm(p).occurrences_in(Perm(t)))
            except Exception as exc:  # noqa
                occ = repr(exc)
            if occ != ref:
                part.violation("occ", {"patt": p, "text": t},
                               {"expected": ref, "got": occ,
                                "found_via": "left_floor_and_ceiling deviates from its definition",
                                "table_got": got, "table_expected": ref_floor_ceiling(p)})
                found = True
                break
        if not found:
            part.bump("table_deviation_without_witness")
            part.sample({"patt": p, "table_got": got, "note": "no wrong occurrence found among "
                         "the extensions tried; not reported"}, cap=2)
    return part


# --------------------------------------------------------------------------------------------
# scale: structured long texts (sizes straddling the runtime's thresholds)
# --------------------------------------------------------------------------------------------
# Exhaustive pairs stop at text length 7-8.  Nothing in the ALGORITHM changes beyond that, but the
# RUNTIME has thresholds of its own (small-int cache at 256, byte-sized buffers at 256, unsorted
# iteration of small int sets from values 8 / 32): a sparse, fully enumerated family of structured
# texts at sizes around them, with every pattern of length <= 2 (<= 3 for the short sizes) and the
# patterns obtained by deleting one point (two points for the short sizes) from the text - for all
# of which the definition is still cheap to evaluate.

SCALE_SIZES_QUICK = (8, 9, 10, 12, 31, 32, 33, 34, 255, 256, 257, 258, 300)
SCALE_SIZES_THOROUGH = SCALE_SIZES_QUICK + (11, 16, 17, 64, 65, 127, 128, 129, 259, 511, 512, 513)


def scale_texts(n):
    """name -> text of length n."""
    out = {}
    ident = tuple(range(n))
    out["identity"] = ident
    out["reverse"] = ident[::-1]
    for i in sorted({0, 7, 8, n // 2, n - 2}):
        if 0 <= i < n - 1:
            t = list(ident)
            t[i], t[i + 1] = t[i + 1], t[i]
            out["swap@%d" % i] = tuple(t)
    out["rotate1"] = ident[1:] + ident[:1]
    out["rotate-1"] = ident[-1:] + ident[:-1]
    for k in (7, 11, 13):
        if math.gcd(k, n) == 1:
            out["%d*i mod n" % k] = tuple((i * k) % n for i in range(n))
            break
    out["layered3"] = tuple(v for b in range(0, n, 3) for v in reversed(range(b, min(b + 3, n))))
    h = n // 2
    out["skew-halves"] = tuple(range(h, n)) + tuple(range(h))
    return out


def _deletions(t, k):
    n = len(t)
    if k == 1:
        pos = range(n) if n <= 40 else sorted({0, 1, 7, 8, 9, n // 2, n - 9, n - 2, n - 1})
        return [(i,) for i in pos]
    return list(itertools.combinations(range(n), 2)) if n <= 12 else []


def shard_scale(shard):
    n, name, maxk = shard
    Perm = _P()
    part = Partial()
    t = scale_texts(n)[name]
    groups = ref_groups(t, maxk)
    for k in range(0, maxk + 1):
        for p in R.perms(k):
            ref = groups.get(p, [])
            check_pair(part, Perm, p, t, ref, True)
            part.add(1, 1 if (k and ref and len(ref) < _comb(n, k)) else 0)
    # patterns of length n-1 (and n-2): the definition needs only the C(n,1) (C(n,2)) index sets
    for dk in (1, 2):
        subsets = list(itertools.combinations(range(n), n - dk)) if (dk == 1 or n <= 12) else []
        stds = None
        for dele in _deletions(t, dk):
            p = R.std([t[i] for i in range(n) if i not in dele])
            if stds is None:
                stds = [(idx, R.std([t[i] for i in idx])) for idx in subsets]
            ref = [idx for idx, q in stds if q == p]
            check_pair(part, Perm, p, t, ref, True)
            part.add(1, 1 if len(ref) < len(subsets) else 0)
    return part


# --------------------------------------------------------------------------------------------
# abort: a search interrupted at every possible point, then read back
# --------------------------------------------------------------------------------------------
# "Whatever was searched before" includes a search that did not finish (Ctrl-C, an exception out of
# the caller's loop body).  Environment deviation, bound 1: during one operation on a FRESH pattern
# object an exception is raised at the k-th entry into a Python function of the package, for every
# k; afterwards the same pattern object (whose memo may have been left half built) and a new equal
# one must give the exact occurrences in every text of the pool.

class _Abort(BaseException):
    pass


def _run_with_abort(fn, k, root):
    seen = [0]

    def tracer(frame, event, arg):
        if event == "call" and frame.f_code.co_filename.startswith(root):
            seen[0] += 1
            if seen[0] == k:
                sys.settrace(None)
                raise _Abort()
        return None

    sys.settrace(tracer)
    try:
        fn()
        return True, seen[0]
    except _Abort:
        return False, seen[0]
    finally:
        sys.settrace(None)


ABORT_OPS = ("list", "contains", "count", "next2", "avoids_set")


def _abort_op(op, P, T):
    if op == "list":
        list(P.occurrences_in(T))
    elif op == "contains":
        T.contains(P)
    elif op == "count":
        T.count_occurrences_of(P)
    elif op == "next2":
        g = P.occurrences_in(T)
        next(g, None)
        next(g, None)
    elif op == "avoids_set":
        T.avoids_set(iter([P]))


def shard_abort(shard):
    n, lo, hi = shard
    Perm = _P()
    part = Partial()
    root = os.path.join(os.path.abspath(REPO), "permuta") + os.sep
    old_hook = sys.unraisablehook
    sys.unraisablehook = lambda unraisable: None
    try:
        for p in R.perms(n)[lo:hi]:
            texts = pick_texts(p, 0)[:4]
            refs = [R.occurrences(p, t) for t in texts]
            for op in ABORT_OPS:
                for ti, t in enumerate(texts[:2]):
                    P, T = Perm(p), Perm(t)
                    _, total = _run_with_abort(lambda: _abort_op(op, P, T), None, root)
                    for k in range(1, total + 1):
                        P, T = Perm(p), Perm(t)
                        finished, _ = _run_with_abort(lambda: _abort_op(op, P, T), k, root)
                        case = {"patt": p, "text": t, "op": op, "abort_at_call": k}
                        part.add(1, 0 if finished else 1)
                        for who, Q in (("same object", P), ("new equal object", Perm(p))):
                            for t2, ref in zip(texts, refs):
                                try:
                                    got = list(Q.occurrences_in(Perm(t2)))
                                except Exception as exc:  # noqa
                                    got = repr(exc)
                                if got != ref:
                                    part.violation("abort", case, {"read_back_on": who, "text": t2,
                                                                   "expected": ref, "got": got})
                                    break
                    part.bump("abort_points", total)
    finally:
        sys.unraisablehook = old_hook
    return part


def _sparse_colourings(n):
    """Text colourings in which only a FEW positions carry a colour the pattern uses ('a'/'b'),
    all others 'c': every subset of size 1..4 of the probe positions {0,1,2,3,6,7,8,9,n-2,n-1}
    (plus 31,32,33 where they exist) x every a/b assignment for sizes <= 3, alternating for 4; and
    the two 'dense' colourings (all a / alternating a,b)."""
    probe = sorted({q for q in (0, 1, 2, 3, 6, 7, 8, 9, n - 2, n - 1, 31, 32, 33) if 0 <= q < n})
    for r in (1, 2, 3, 4):
        for pos in itertools.combinations(probe, r):
            if r == 4 and not (pos[-1] >= 8):
                continue
            assigns = itertools.product("ab", repeat=r) if r <= 3 else [tuple("abab"), tuple("baba")]
            for asg in assigns:
                col = ["c"] * n
                for q, c in zip(pos, asg):
                    col[q] = c
                yield tuple(col)
    yield tuple("a" * n)
    yield tuple("ab"[i % 2] for i in range(n))


def shard_scale_colours(shard):
    n, name = shard
    Perm = _P()
    part = Partial()
    t = scale_texts(n)[name]
    T = Perm(t)
    patts = [((0,), ("a",)), ((0, 1), ("a", "b")), ((1, 0), ("a", "b")), ((0, 1), ("a", "a")),
             ((1, 0), ("b", "b")), ((0, 2, 1), ("a", "b", "a")), ((1, 0, 2), ("a", "a", "b"))]
    occ = {p: R.occurrences(p, t) if n <= 34 else None for p, _ in patts}
    for tc in _sparse_colourings(n):
        usable = [i for i in range(n) if tc[i] != "c"]
        for p, pc in patts:
            if len(usable) <= 12:
                ref = [idx for idx in itertools.combinations(usable, len(p))
                       if all(tc[i] == pc[j] for j, i in enumerate(idx))
                       and R.std([t[i] for i in idx]) == p]
            elif occ[p] is not None:
                ref = [idx for idx in occ[p] if all(tc[i] == pc[j] for j, i in enumerate(idx))]
            else:
                continue
            try:
                got = list(Perm(p).occurrences_in(T, pc, tc))
            except Exception as exc:  # noqa
                got = repr(exc)
            if got != ref:
                part.violation("colour", {"patt": p, "text": t, "pc": pc, "tc": tc},
                               {"expected": ref, "got": got})
            part.add(1, 1 if ref else 0)
    return part


def chunks(n, per):
    import math
    total = math.factorial(n)
    return [(lo, min(total, lo + per)) for lo in range(0, total, per)]


# --------------------------------------------------------------------------------------------
# E2 : histories on one pattern object
# --------------------------------------------------------------------------------------------

def freeze(x):
    if isinstance(x, dict):
        return tuple(sorted(((repr(k), freeze(v)) for k, v in x.items())))
    if isinstance(x, (list, tuple)):
        return tuple(freeze(v) for v in x)
    if isinstance(x, (set, frozenset)):
        return tuple(sorted(repr(freeze(v)) for v in x))
    if isinstance(x, (int, str, float, bool)) or x is None:
        return x
    import collections
    if isinstance(x, collections.deque):
        return ("deque",) + tuple(freeze(v) for v in x)
    return repr(type(x))


def module_state(mod_names):
    """Every mutable container bound at module level or as a class attribute in the given
    modules (so that scratch state hoisted out of a call is part of the canonical state)."""
    import sys
    import collections
    out = []
    for name in mod_names:
        mod = sys.modules.get(name)
        if mod is None:
            continue
        for k, v in sorted(vars(mod).items()):
            if isinstance(v, (list, dict, set, collections.deque)) and not k.startswith("__"):
                out.append((name, k, freeze(v)))
            elif isinstance(v, type) and getattr(v, "__module__", None) == name:
                for ck, cv in sorted(vars(v).items()):
                    if isinstance(cv, (list, dict, set, collections.deque)) and not ck.startswith("__"):
                        out.append((name, v.__name__ + "." + ck, freeze(cv)))
    return tuple(out)


class HistoryModel:
    """One pattern, a fixed list of texts.  Operations:
       ("start", ti)   create generator over text ti (at most MAXG live generators)
       ("step", gi)    advance generator gi by one
       ("full", ti)    list(P.occurrences_in(T))
       ("std", ti)     obtain the pattern through Perm.to_standard (shared memoised object)
                       and run a full search in text ti
       ("contains", ti) T.contains(P)
    """
    MAXG = 3

    def __init__(self, patt, texts, via_standard):
        self.patt = tuple(patt)
        self.texts = [tuple(t) for t in texts]
        self.refs = [R.occurrences(self.patt, t) for t in self.texts]
        self.via_standard = via_standard
        self.menu = ([("start", i) for i in range(len(texts))]
                     + [("step", g) for g in range(self.MAXG)]
                     + [("full", i) for i in range(len(texts))]
                     + [("std", i) for i in range(len(texts))]
                     + [("contains", i) for i in range(len(texts))])

    def enabled(self, canon, hist):
        gens = canon[0]
        for op in self.menu:
            if op[0] == "start" and len(gens) >= self.MAXG:
                continue
            if op[0] == "step" and (op[1] >= len(gens) or gens[op[1]][2]):
                continue
            yield op

    def build(self, hist):
        Perm = _P()
        Perm._to_standard.cache_clear() if hasattr(Perm, "_to_standard") else None
        # key that standardises to the pattern (values doubled: a different tuple, same pattern)
        key = tuple(2 * v + 1 for v in self.patt)
        if self.via_standard:
            P = Perm.to_standard(key)
        else:
            P = Perm(self.patt)
        gens = []   # [generator, text index, consumed, exhausted]
        viols = []
        last = len(hist) - 1
        for hi, op in enumerate(hist):
            v = None
            try:
                if op[0] == "start":
                    gens.append([P.occurrences_in(Perm(self.texts[op[1]])), op[1], 0, False])
                elif op[0] == "step":
                    g = gens[op[1]]
                    ref = self.refs[g[1]]
                    try:
                        got = next(g[0])
                        if g[2] >= len(ref) or got != ref[g[2]]:
                            v = {"op": op, "expected": ref[g[2]] if g[2] < len(ref) else "StopIteration",
                                 "got": got}
                        g[2] += 1
                    except StopIteration:
                        if g[2] != len(ref):
                            v = {"op": op, "expected": ref[g[2]], "got": "StopIteration"}
                        g[3] = True
                elif op[0] == "full":
                    got = list(P.occurrences_in(Perm(self.texts[op[1]])))
                    if got != self.refs[op[1]]:
                        v = {"op": op, "expected": self.refs[op[1]], "got": got}
                elif op[0] == "std":
                    P2 = Perm.to_standard(key)
                    got = list(P2.occurrences_in(Perm(self.texts[op[1]])))
                    if got != self.refs[op[1]]:
                        v = {"op": op, "expected": self.refs[op[1]], "got": got}
                elif op[0] == "contains":
                    got = Perm(self.texts[op[1]]).contains(P)
                    if got != bool(self.refs[op[1]]):
                        v = {"op": op, "expected": bool(self.refs[op[1]]), "got": got}
            except Exception as exc:  # noqa
                v = {"op": op, "exception": repr(exc)}
            if v is not None and hi == last:
                viols.append(v)
        canon = (tuple((g[1], g[2], g[3]) for g in gens),
                 freeze(vars(P)) if hasattr(P, "__dict__") else None,
                 module_state(["permuta.patterns.perm"]))
        return canon, viols


def pick_texts(patt, seed):
    """Six texts of lengths 3..6 with few occurrences (0..3) so generators can be exhausted
    within the depth bound; deterministic, rotated by the seed."""
    cands = {}
    for n in range(max(2, len(patt)), 7):
        for t in R.perms(n):
            c = len(R.occurrences(patt, t))
            if c <= 3:
                cands.setdefault((n, c), []).append(t)
    keys = sorted(cands)
    # prefer: different lengths, counts 0,1,2,3
    want = [(k, cands[k]) for k in keys]
    chosen = []
    targets = [(len(patt) + 1, 1), (len(patt) + 2, 2), (6, 3), (5, 0), (len(patt), 1), (6, 2)]
    for (n, c) in targets:
        n = max(n, len(patt))
        lst = cands.get((min(n, 6), c)) or cands.get((6, c)) or want[0][1]
        t = lst[seed % len(lst)]
        if t not in chosen:
            chosen.append(t)
        else:
            for t2 in lst:
                if t2 not in chosen:
                    chosen.append(t2)
                    break
    return chosen


def shard_history(shard):
    patt, via_std, depth, seed = shard
    part = Partial()
    texts = pick_texts(patt, seed)
    model = HistoryModel(patt, texts, via_std)
    warm = [(), (("full", len(texts) - 1),), (("start", 0), ("step", 0))]

    def on_violation(hist, v):
        part.violation("history", {"patt": patt, "texts": texts, "via_standard": via_std,
                                   "history": list(hist)}, v)

    st = bfs(warm, model.menu, model.build, depth, on_violation, enabled=model.enabled)
    part.add(st.transitions, 0)
    part.bump("history_states", st.states)
    part.bump("history_transitions", st.transitions)
    part.sample({"patt": patt, "texts": texts, "via_standard": via_std,
                 "history": st.sample_histories[-1] if st.sample_histories else []}, cap=1)
    return part, (st.states, st.transitions, st.depth_completed)


# --------------------------------------------------------------------------------------------

def run(ctx, only=None):
    def want(name):
        return only is None or name in only

    quick = ctx.quick
    ctx.rule = ("every (pattern, text) pair in the stated length ranges, compared as ordered lists "
                "with combinations+standardisation; non-trivial = 0<|patt|<|text| with at least "
                "one occurrence and at least one non-occurring index subset (for colourings: some "
                "but not all occurrences survive); histories: BFS states of one pattern object")
    ctx.assumptions = ["reference model mc/refmodel.py (occurrences by definition)",
                       "lengths beyond the bounds are not explored"]
    if want("pairs"):
        # (text length, max pattern length, derived observers?)
        plan = [(0, 1, True), (1, 2, True), (2, 3, True), (3, 4, True), (4, 5, True),
                (5, 5, True), (6, 6, False)]
        if quick:
            plan += [(7, 3, False)]
        else:
            plan += [(6, 6, True), (7, 7, False), (8, 5, False)]
        shards = []
        for n, maxk, derived in plan:
            per = {0: 1, 1: 1, 2: 2, 3: 6, 4: 24, 5: 30, 6: 45, 7: 40 if not quick else 315,
                   8: 315}[n]
            for lo, hi in chunks(n, per):
                shards.append((n, lo, hi, min(maxk, n), derived))
        ctx.pmap(shard_pairs, shards)
        ctx.bounds["pairs"] = [{"text_len": n, "max_patt_len": min(k, n), "derived_observers": d}
                               for n, k, d in plan]
        ctx.section("pairs", evaluations=ctx.evals)
    if want("table"):
        e0 = ctx.evals
        top = 8 if quick else 9
        shards = [(n, lo, hi) for n in range(0, top + 1)
                  for lo, hi in chunks(n, 2520 if n <= 8 else 5040)]
        ctx.pmap(shard_table, shards)
        ctx.bounds["table"] = ("every pattern of length <= %d: left floor/ceiling helper against its "
                               "definition; a deviation only guides the search for a wrong "
                               "(pattern, text) pair among extensions by <= 2 points" % top)
        ctx.section("table", evaluations=ctx.evals - e0,
                    deviations=ctx.counters.get("table_deviations", 0))
    if want("scale"):
        e0 = ctx.evals
        sizes = SCALE_SIZES_QUICK if quick else SCALE_SIZES_THOROUGH
        # plus the thresholds the code under test names itself (literals, recursion limit)
        from ..thresholds import code_constants, sizes_around
        named = code_constants(REPO)
        extra = [n for n in sizes_around(named, 13, 600 if quick else 1100) if n not in sizes]
        big = ("reverse", "swap@8") if quick else ("identity", "reverse", "swap@8", "rotate1", "layered3")
        if quick:       # above 300 only c and c+1 for a named constant c
            extra = [n for n in extra if n <= 300 or n in named or n - 1 in named]
        shards = [(n, name, 3 if n <= 34 else 2) for n in sizes for name in scale_texts(n)]
        shards += [(n, name, 2) for n in extra for name in scale_texts(n)
                   if n <= 300 or name in big or name.endswith("mod n")]
        shards.sort(key=lambda sh: -sh[0])       # the long texts first
        ctx.bounds["scale_named_thresholds"] = {"constants_in_code": named, "extra_sizes": extra}
        ctx.pmap(shard_scale, shards)
        ctx.bounds["scale"] = {"text_sizes": list(sizes), "shapes": sorted(scale_texts(300)),
                               "patterns": "all of length <= 3 (sizes <= 34) / <= 2 (larger), the text "
                                           "minus one point (every position for sizes <= 40, else 9 "
                                           "positions), the text minus two points (sizes <= 12)"}
        csizes = [n for n in sizes if n <= 34] + [257]
        cshapes = ("identity", "reverse", "rotate1", "layered3", "skew-halves") if quick else None
        ctx.pmap(shard_scale_colours, [(n, name) for n in csizes for name in scale_texts(n)
                                       if cshapes is None or name in cshapes or name.endswith("mod n")])
        ctx.bounds["scale"]["colourings"] = ("texts of sizes %r: only 1..4 probe positions (0-3, 6-9, "
                                             "n-2, n-1, 31-33) carry a colour the pattern uses, every "
                                             "a/b assignment; 7 coloured patterns of length <= 3" % csizes)
        ctx.section("scale", evaluations=ctx.evals - e0)
    if want("abort"):
        e0 = ctx.evals
        top = 4 if quick else 5
        shards = [(n, lo, hi) for n in range(1, top + 1) for lo, hi in chunks(n, 2 if n <= 4 else 4)]
        ctx.pmap(shard_abort, shards)
        ctx.bounds["abort"] = {"patterns": "all of length 1..%d, fresh object each time" % top,
                               "operations": list(ABORT_OPS), "texts_aborted": 2, "texts_read_back": 4,
                               "injection": "exception at the k-th entry into a Python function of "
                                            "the package during the operation, every k",
                               "injection_points": ctx.counters.get("abort_points", 0)}
        ctx.section("abort", evaluations=ctx.evals - e0,
                    injection_points=ctx.counters.get("abort_points", 0))
    if want("longer"):
        ctx.pmap(shard_longer, [(n,) for n in range(0, 5)])
    if want("multi"):
        e0 = ctx.evals
        shards = [(n, lo, hi) for n in range(0, 6 if quick else 7)
                  for lo, hi in chunks(n, 12 if n < 6 else 24)]
        ctx.pmap(shard_multi, shards)
        ctx.bounds["multi"] = "all ordered pairs and unordered triples of patterns of length<=3 x texts of length<=%d" % (5 if quick else 6)
        ctx.section("multi", evaluations=ctx.evals - e0)
    if want("colours"):
        e0 = ctx.evals
        shards = [(n, lo, hi, 3) for n in range(0, 6) for lo, hi in chunks(n, 8)]
        if not quick:
            shards += [(6, lo, hi, 2) for lo, hi in chunks(6, 45)]
        ctx.pmap(shard_colours, shards)
        ctx.bounds["colours"] = "all 2-colourings, |patt|<=3, |text|<=5" + ("" if quick else "; |patt|<=2, |text|=6")
        ctx.section("colours", evaluations=ctx.evals - e0)
    if want("history"):
        depth = 5 if quick else 6
        patts = [(), (0,), (0, 1), (1, 0, 2), (1, 2, 0), (0, 2, 1, 3)]
        if not quick:
            patts += [(1, 0), (2, 0, 1), (2, 0, 3, 1), (1, 3, 0, 2)]
        shards = [(p, via, depth, ctx.seed) for p in patts for via in (False, True)]
        res = ctx.pmap(shard_history, shards)
        ctx.states = sum(r[0] for r in res)
        ctx.transitions = sum(r[1] for r in res)
        ctx.traces = ctx.transitions   # every transition is executed on the implementation
        ctx.bounds["history"] = {"depth": depth, "patterns": patts, "live_generators": 3,
                                 "texts_per_pattern": 6,
                                 "initial_states": ["fresh", "after a full search", "mid-generator"]}
        ctx.section("history", states=ctx.states, transitions=ctx.transitions)


# --------------------------------------------------------------------------------------------

def replay(ctx, rec):
    Perm = _P()
    sub, case = rec["sub"], rec["case"]
    part = ctx
    if sub in ("occ", "derived"):
        p, t = tuple(case["patt"]), tuple(case["text"])
        check_pair(part, Perm, p, t, R.occurrences(p, t), True)
    elif sub == "multi":
        ps = [tuple(p) for p in case["patts"]]
        t = tuple(case["text"])
        T = Perm(t)
        args = [Perm(p) for p in ps]
        exp_c = all(R.contains(t, p) for p in ps)
        exp_a = all(not R.contains(t, p) for p in ps)
        got = (T.contains(*args), T.avoids(*args), T.avoids_set(args))
        if got != (exp_c, exp_a, exp_a):
            part.violation("multi", case, {"expected": [exp_c, exp_a], "got": got})
    elif sub == "colour":
        p, t = tuple(case["patt"]), tuple(case["text"])
        pc, tc = tuple(case["pc"]), tuple(case["tc"])
        ref = R.coloured_occurrences(p, t, pc, tc)
        try:
            got = list(Perm(p).occurrences_in(Perm(t), pc, tc))
        except Exception as exc:  # noqa
            got = repr(exc)
        if got != ref:
            part.violation("colour", case, {"expected": ref, "got": got})
    elif sub == "abort":
        p, t, op, k = tuple(case["patt"]), tuple(case["text"]), case["op"], case["abort_at_call"]
        root = os.path.join(os.path.abspath(REPO), "permuta") + os.sep
        P, T = Perm(p), Perm(t)
        _run_with_abort(lambda: _abort_op(op, P, T), k, root)
        for who, Q in (("same object", P), ("new equal object", Perm(p))):
            for t2 in pick_texts(p, 0)[:4]:
                ref = R.occurrences(p, t2)
                try:
                    got = list(Q.occurrences_in(Perm(t2)))
                except Exception as exc:  # noqa
                    got = repr(exc)
                if got != ref:
                    part.violation("abort", case, {"read_back_on": who, "text": t2,
                                                   "expected": ref, "got": got})
                    return
    elif sub == "history":
        model = HistoryModel(tuple(case["patt"]), [tuple(t) for t in case["texts"]],
                             case["via_standard"])
        hist = tuple(tuple(op) for op in case["history"])
        # replay every prefix; report the first failing operation
        for i in range(1, len(hist) + 1):
            _, viols = model.build(hist[:i])
            if viols:
                part.violation("history", case, viols[0])
                break
    else:
        raise ValueError("unknown sub-check %r" % sub)
