"""C05 - a basis is a canonical, minimal, order-independent description of its class.

E1 only (exploration).  Sub-checks (names usable with --only):
  seq        every multiset of patterns of all kinds (three nested pools, sizes see run()), every
             order of its elements: MeshBasis (always) and Basis (classical multisets) are built in
             every order and compared with the reference (minimal elements under the definitional
             containment of mc/ref_c05.py), with each other, with the avoidance class of the input
             on S<=N, with themselves rebuilt (fixed point), with from_iterable, and with the
             class objects handed out by Av / Av.from_iterable for every container type.
  classical  every set of <= r classical patterns of length <= 4 (with the empty permutation),
             every order: Basis, class on S<=7/8 through pattern profiles, Av identity, and the
             text forms (0-based, 1-based, mixed; separators; wrappers) through
             Basis.from_string / Av.from_string.
  holes      large regions: {p, q} in both orders, q over a pattern of length 5 with a
             point-free rectangle of >= 3 x 3 boxes shaded fully / minus a box / a row / a
             column, p a small pattern whose single shaded cell can map onto such a region;
             minimal elements by the definitional region test, same class on S<=5 (thorough 6)
  minimal    minimality only, on larger classical collections: every set of <= 4 patterns of
             S1..S4 (thorough also 5), sets with one pattern of S5 next to <= 2 (thorough 3)
             shorter ones, chains over three lengths {a, c in S5, one-point extension of c}
             (thorough also {c, c2 in S5, extension of c}); Basis in every order (the larger
             thorough families: sorted/reversed/rotations), from_iterable, Av(...).basis and
             MeshBasis must consist of exactly the reference minimal elements
  pressure   cache pressure (history at scale): six classes with computed levels are held while
             2**16 + 4464 (thorough 2**17 + 8928) distinct other classes are constructed, in two
             streams (classical pairs of S6; classical pairs alternating with one-element mesh
             bases over S6/S7), each in its own forked worker; at every N = 2**k - 1, 2**k,
             2**k + 1 (k >= 4) and at the end the held classes are asked for again along 5-7
             routes: same object, same level cache, same counts
  longtext   text forms of longer patterns (all of S5, S6 (thorough), strided S7..S10) alone and
             next to a short pattern.
  iterator   (alias forms) FORMS: the same collection through every entry point (Av,
             Av.from_iterable, Basis/MeshBasis.from_iterable, Basis/MeshBasis(*x); positional and
             keyword) x every argument form (list, tuple, reversed, repeated element, set,
             frozenset, dict, dict keys, deque, basis object, seven kinds of one-shot iterator),
             and collections taken straight from the library's generator-returning helpers
  abort      ABORT: a BaseException is raised at the k-th call event (every k) inside Basis /
             MeshBasis / Av / Av.from_iterable / from_string of small collections, from cold
             and warm class caches; afterwards the construction is repeated on the same and on
             fresh objects and compared with the reference and with the class object held
"""
from __future__ import annotations

import itertools

from .. import refmodel as R
from .. import ref_c05 as F
from ..core import Partial

PROPERTY = "C05"
LEVEL = "exploration"

SIG_ITER = "C05|Av.from_iterable|one-shot-iterator"

# --------------------------------------------------------------------------------------------
# library access
# --------------------------------------------------------------------------------------------


def _lib():
    from permuta import Av, BivincularPatt, CovincularPatt, MeshPatt, Perm, VincularPatt
    from permuta.perm_sets.basis import Basis, MeshBasis

    class L:
        pass
    L.Av, L.Perm, L.MeshPatt, L.Biv, L.Vinc, L.Covinc = (Av, Perm, MeshPatt, BivincularPatt,
                                                        VincularPatt, CovincularPatt)
    L.Basis, L.MeshBasis = Basis, MeshBasis
    return L


_L = None


def lib():
    global _L
    if _L is None:
        _L = _lib()
    return _L


def build(spec):
    L = lib()
    kind = spec[0]
    p = L.Perm(spec[1])
    if kind == "perm":
        return p
    if kind == "mesh":
        return L.MeshPatt(p, [tuple(c) for c in spec[2]])
    if kind == "biv":
        return L.Biv(p, list(spec[2]), list(spec[3]))
    if kind == "vinc":
        return L.Vinc(p, list(spec[2]))
    if kind == "covinc":
        return L.Covinc(p, list(spec[2]))
    raise ValueError(kind)


def readback(x):
    """(perm, shading) of a library pattern, read from its public attributes."""
    L = lib()
    if isinstance(x, L.Perm):
        return (tuple(x), frozenset())
    return (tuple(x.pattern), frozenset(tuple(c) for c in x.shading))


def show(e):
    return [list(e[0]), sorted(list(c) for c in e[1])]


def showset(es):
    return sorted((show(e) for e in es), key=repr)


# --------------------------------------------------------------------------------------------
# reference tables (built in the parent, inherited by fork)
# --------------------------------------------------------------------------------------------

_MIN = {}
_HOR = {}


def minimal(semset):
    m = _MIN.get(semset)
    if m is None:
        m = _MIN[semset] = F.minimal(semset)
    return m


def horizon(n):
    h = _HOR.get(n)
    if h is None:
        h = _HOR[n] = F.Horizon(n)
    return h


def self_test_reference(pool, H):
    """The reference containment must be sound w.r.t. the reference avoidance semantics: q in p
    implies every permutation containing p contains q.  A failure is a harness error."""
    sems = sorted(set(F.sem(s) for s in pool), key=lambda e: (len(e[0]), e[0], sorted(e[1])))
    for q in sems:
        for p in sems:
            if F.mesh_in_mesh(q, p):
                assert H.cmask(p) & ~H.cmask(q) == 0, ("reference containment unsound", q, p)
        assert F.mesh_in_mesh(q, q), ("reference containment not reflexive", q)


# --------------------------------------------------------------------------------------------
# one collection, all orders
# --------------------------------------------------------------------------------------------

def distinct_orders(specs):
    """All distinct sequences that are rearrangements of the multiset (as index tuples)."""
    seen = set()
    out = []
    keys = [repr(s) for s in specs]
    for order in itertools.permutations(range(len(specs))):
        k = tuple(keys[i] for i in order)
        if k not in seen:
            seen.add(k)
            out.append(order)
    return out


def _same(a, b):
    return (a == b) and (b == a) and not (a != b) and hash(a) == hash(b)


def route(part, kindname, ctor, from_iterable, plain, specs, objs, orders, ref_min, H, hn,
          light=False):
    """Build with `ctor` in every order; deep checks on the first result.  Returns it (or None)."""
    L = lib()
    case = {"specs": specs, "route": kindname, "hn": hn}
    first = None
    for order in orders:
        seq = [objs[i] for i in order]
        try:
            res = ctor(*seq)
        except Exception as exc:  # noqa
            part.violation("seq:construct", dict(case, order=list(order)), {"exception": repr(exc)})
            return None
        if first is None:
            first = res
            continue
        try:
            same = _same(first, res)
        except Exception as exc:  # noqa
            part.violation("seq:order", dict(case, order=list(order)), {"exception": repr(exc)})
            return None
        if not same:
            part.violation("seq:order", dict(case, order=list(order)),
                           {"first_order": repr(first), "this_order": repr(res),
                            "hash_equal": hash(first) == hash(res)})
            return None
    res = first
    try:
        if type(res) is not ctor:
            part.violation("seq:type", case, {"type": repr(type(res))})
        rb = [readback(e) for e in res]
        if len(set(rb)) != len(rb):
            part.violation("seq:duplicate", case, {"got": [show(e) for e in rb]})
        if set(rb) != set(ref_min):
            part.violation("seq:minimal", case, {"expected": showset(ref_min),
                                                 "got": [show(e) for e in rb]})
        # no element contains another, by the library's own containment
        for a, b in itertools.permutations(list(res), 2):
            if a.contains(b) or (b in a) or not a.avoids(b):
                part.violation("seq:antichain", case, {"container": repr(a), "contained": repr(b)})
                break
        # same avoidance class as the input, on S<=hn, by the definition of avoidance
        sems = set(F.sem(s) for s in specs)
        if H.class_mask(set(rb)) != H.class_mask(sems):
            diff = H.class_mask(set(rb)) ^ H.class_mask(sems)
            i = (diff & -diff).bit_length() - 1
            part.violation("seq:class", case, {"got": [show(e) for e in rb],
                                               "differs_on": list(H.perms[i]), "horizon": hn})
        # fixed point, from_iterable with three container types
        again = [("ctor(*result)", ctor(*res)),
                 ("from_iterable(iterator)", from_iterable(iter(objs)))]
        if not light:
            again += [("from_iterable(result)", from_iterable(res)),
                      ("from_iterable(list)", from_iterable(list(objs))),
                      ("from_iterable(tuple)", from_iterable(tuple(objs))),
                      ("from_iterable(generator)", from_iterable(o for o in objs))]
        for name, other in again:
            if not _same(res, other) or type(other) is not ctor:
                part.violation("seq:fixed" if "result" in name else "seq:from_iterable", case,
                               {"call": name, "result": repr(res), "other": repr(other)})
        # canonical: equal to the basis built from the reference's minimal elements, written as
        # plain patterns in a fixed order and in the reverse of it
        pl = [plain(e) for e in F.sort_plain(ref_min)]
        for name, other in ((("canonical-reversed", ctor(*pl[::-1])),) if light else
                            (("canonical", ctor(*pl)), ("canonical-reversed", ctor(*pl[::-1])))):
            if not _same(res, other):
                part.violation("seq:canonical", case, {"call": name, "result": repr(res),
                                                       "other": repr(other),
                                                       "hash_equal": hash(res) == hash(other)})
    except Exception as exc:  # noqa
        part.violation("seq:exception", case, {"exception": repr(exc)})
        return None
    return res


def av_route(part, specs, objs, orders, base, classical, ref_min, first_seen, ident=None,
             light=False):
    """Class objects: Av / Av.from_iterable with every container type and order; identity."""
    L = lib()
    case = {"specs": specs, "route": "Av"}
    if ident is not None:
        # what the class cache holds depends on everything built before in this shard: the
        # replay re-executes the shard up to this collection when the collection alone passes
        case["shard"] = ident
    kind = L.Basis if classical else L.MeshBasis
    expect_error = classical and set(ref_min) == {((), frozenset())}
    calls = []
    # (the constructors above went through every order; the class objects are asked for in the
    # first six orders, which for <= 3 elements is every order)
    for k, order in enumerate(orders[:2] if light else orders[:6]):
        seq = [objs[i] for i in order]
        if k % 2 == 0:
            calls.append(("Av.from_iterable(list %s)" % (list(order),), L.Av.from_iterable,
                          list(seq)))
        else:
            calls.append(("Av(tuple %s)" % (list(order),), L.Av, tuple(seq)))
    calls.append(("Av(basis)", L.Av, base))
    if not light:
        calls.append(("Av(list)", L.Av, list(objs)))
        calls.append(("Av.from_iterable(tuple)", L.Av.from_iterable, tuple(objs)))
        calls.append(("Av.from_iterable(basis)", L.Av.from_iterable, base))
    try:
        calls.append(("Av(frozenset)", L.Av, frozenset(objs)))
        if not light:
            calls.append(("Av.from_iterable(set)", L.Av.from_iterable, set(objs)))
    except Exception as exc:  # noqa  (hashing a pattern failed)
        part.violation("seq:av", case, {"call": "set(objs)", "exception": repr(exc)})
    got = []
    for name, f, arg in calls:
        try:
            got.append((name, f(arg), None))
        except Exception as exc:  # noqa
            got.append((name, None, exc))
    if expect_error and any(isinstance(exc, ValueError) for _, _, exc in got):
        # the documented refusal of the basis {ε}; it must then be given by every call
        for name, av, exc in got:
            if not isinstance(exc, ValueError):
                part.violation("seq:av", case, {"call": name, "expected": "ValueError (basis {ε}), "
                                                "as raised by the other calls",
                                                "got": repr(exc) if exc else repr(av)})
                return
        return
    ref_av = None
    for name, av, exc in got:
        if exc is not None:
            part.violation("seq:av", case, {"call": name, "exception": repr(exc)})
            return
        if ref_av is None:
            ref_av = av
        if av is not ref_av:
            part.violation("seq:av-identity", case, {"call": name, "first_call": got[0][0],
                                                     "basis": repr(av.basis),
                                                     "first_basis": repr(ref_av.basis)})
            return
    try:
        if type(ref_av.basis) is not kind:
            part.violation("seq:av-kind", case, {"expected": kind.__name__,
                                                 "got": type(ref_av.basis).__name__})
            return
        if not _same(ref_av.basis, base):
            part.violation("seq:av-basis", case, {"basis": repr(ref_av.basis), "built": repr(base)})
            return
    except Exception as exc:  # noqa
        part.violation("seq:av", case, {"exception": repr(exc)})
        return
    key = (classical, frozenset(ref_min))
    old = first_seen.get(key)
    if old is None:
        first_seen[key] = (ref_av, specs)
    elif old[0] is not ref_av:
        # an equal basis was handed a different class object earlier in this process
        part.violation("seq:av-identity", dict(case, earlier=old[1]),
                       {"basis": repr(ref_av.basis), "earlier_basis": repr(old[0].basis)})


def check_collection(part, specs, H, hn, first_seen, earlier=None, ident=None, light=False):
    """All checks on one multiset of pattern specs.  Returns (evaluations, nontrivial)."""
    L = lib()
    if earlier is not None and first_seen is not None:
        # replay of a cross-collection identity violation: build the earlier collection first
        check_collection(Partial(), earlier, H, hn, first_seen)
    try:
        objs = [build(s) for s in specs]
    except Exception as exc:  # noqa
        part.violation("seq:build", {"specs": specs}, {"exception": repr(exc)})
        return 1, 0
    sems = [F.sem(s) for s in specs]
    for o, e, s in zip(objs, sems, specs):
        if readback(o) != e:
            part.violation("seq:build", {"specs": [s]}, {"expected": show(e),
                                                         "got": show(readback(o))})
            return 1, 0
    semset = frozenset(sems)
    ref_min = minimal(semset)
    classical = all(F.is_classical(s) for s in specs)
    orders = distinct_orders(specs)
    mesh = route(part, "MeshBasis", L.MeshBasis, L.MeshBasis.from_iterable,
                 lambda e: L.MeshPatt(L.Perm(e[0]), sorted(e[1])),
                 specs, objs, orders, ref_min, H, hn, light)
    base = mesh
    if classical:
        base = route(part, "Basis", L.Basis, L.Basis.from_iterable,
                     lambda e: L.Perm(e[0]), specs, objs, orders, ref_min, H, hn, light)
    if base is not None:
        av_route(part, specs, objs, orders, base, classical, ref_min, first_seen, ident, light)
    nontrivial = 1 if (len(semset) >= 2 and len(ref_min) < len(semset)) else 0
    return len(orders) * (2 if classical else 1), nontrivial


def fresh_class_cache():
    """Every shard starts from an empty class cache (the library's own reset), so that what a
    shard observes is a function of the shard alone and can be re-executed."""
    try:
        lib().Av.clear_cache()
    except Exception:  # noqa
        pass


def shard_combos(poolname, size, nsh, index):
    pool = POOLS[poolname]
    combos = list(itertools.combinations_with_replacement(range(len(pool)), size))
    return combos[index::nsh]


def shard_seq(shard):
    poolname, hn, size, nsh, index, light = shard
    pool = POOLS[poolname]
    combos = shard_combos(poolname, size, nsh, index)
    H = horizon(hn)
    part = Partial()
    first_seen = {}
    fresh_class_cache()
    for k, combo in enumerate(combos):
        specs = [pool[i] for i in combo]
        n, nt = check_collection(part, specs, H, hn, first_seen,
                                 ident={"pool": poolname, "size": size, "nsh": nsh,
                                        "index": index, "upto": k, "light": light},
                                 light=light)
        part.add(n, nt)
        part.bump("collections")
        if nt:
            part.bump("collections_with_proper_pruning")
        if len(set(s[0] for s in specs)) > 1:
            part.bump("collections_mixing_kinds")
    if combos:
        specs = [pool[i] for i in combos[len(combos) // 2]]
        part.sample({"collection": specs,
                     "reference_minimal_elements": showset(minimal(frozenset(F.sem(s) for s in specs)))},
                    cap=1)
    return part


POOLS = {}


def prepare_pools():
    if not POOLS:
        POOLS["full"] = F.full_pool()
        POOLS["sub"] = F.sub_pool()
        POOLS["deep"] = F.deep_pool()
        full = set(map(repr, POOLS["full"]))
        assert all(repr(s) in full for s in POOLS["sub"]), "sub pool must be part of the full pool"
        sub = set(map(repr, POOLS["sub"]))
        assert all(repr(s) in sub for s in POOLS["deep"]), "deep pool must be part of the sub pool"


def chunked(seq, n):
    seq = list(seq)
    per = max(1, (len(seq) + n - 1) // n)
    return [seq[i:i + per] for i in range(0, len(seq), per)]


# --------------------------------------------------------------------------------------------
# classical sets of S<=4, text forms
# --------------------------------------------------------------------------------------------

_PROF = {}


def profiles(n):
    p = _PROF.get(n)
    if p is None:
        p = _PROF[n] = R.Profiles(n, 4)
        p.distinct = set()
        for k in range(n + 1):
            p.distinct.update(p.grouped(k).keys())
    return p


def texts_for(seq, full):
    """(description, text) for a sequence of classical patterns (tuples) of length 1..9.
    full: all separators x wrappers x {0-based, 1-based, alternating}; otherwise all separators
    x the three numberings with the wrapper fixed by the separator's position in the list."""
    out = []
    forms = {
        "0-based": [F.text0(p) for p in seq],
        "1-based": [F.text1(p) for p in seq],
        "alternating": [F.text0(p) if i % 2 else F.text1(p) for i, p in enumerate(seq)],
    }
    for si, sep in enumerate(F.SEPARATORS):
        wraps = F.WRAPS if full else [F.WRAPS[si % len(F.WRAPS)]]
        for (pre, post) in wraps:
            for name, toks in forms.items():
                out.append(({"numbering": name, "sep": sep, "wrap": [pre, post]},
                            pre + sep.join(toks) + post))
    return out


def check_text(part, seq, expected_sem, text, desc, av_expected):
    """Basis.from_string / Av.from_string on one text."""
    L = lib()
    case = {"patterns": [list(p) for p in seq], "text": text, "form": desc}
    try:
        b = L.Basis.from_string(text)
        got = [readback(e) for e in b]
    except Exception as exc:  # noqa
        part.violation("text:from_string", case, {"exception": repr(exc)})
        return
    if type(b) is not L.Basis or len(got) != len(set(got)) or set(got) != set(expected_sem):
        part.violation("text:from_string", case, {"expected": showset(expected_sem),
                                                  "got": [show(e) for e in got]})
        return
    if av_expected is not None:
        try:
            av = L.Av.from_string(text)
        except Exception as exc:  # noqa
            part.violation("text:av", case, {"exception": repr(exc)})
            return
        if av is not av_expected:
            part.violation("text:av", case, {"basis": repr(av.basis),
                                             "expected_object_of": repr(av_expected.basis)})


def check_classical_set(part, pset, prof, textmode):
    """pset: tuple of classical patterns (tuples), a set.  All orders."""
    L = lib()
    case = {"patterns": [list(p) for p in pset]}
    semset = frozenset((p, frozenset()) for p in pset)
    ref_min = minimal(semset)
    exp = [L.Perm(e[0]) for e in F.sort_plain(ref_min)]
    m_in = prof.mask(pset)
    first = None
    evals = 0
    orders = list(itertools.permutations(pset))
    for seq in orders:
        evals += 1
        try:
            b = L.Basis(*[L.Perm(p) for p in seq])
            if first is None:
                first = b
                got = [readback(e) for e in b]
                if len(got) != len(set(got)) or set(got) != set(ref_min):
                    part.violation("classical:minimal", case, {"expected": showset(ref_min),
                                                               "got": [show(e) for e in got]})
                    return evals
                m_out = prof.mask([e[0] for e in got])
                for pr in prof.distinct:
                    if (pr & m_in == 0) != (pr & m_out == 0):
                        part.violation("classical:class", case, {"got": [show(e) for e in got]})
                        return evals
                if not (_same(b, L.Basis(*exp)) and _same(b, L.Basis(*exp[::-1]))
                        and _same(b, L.Basis(*b)) and _same(b, L.Basis.from_iterable(iter(b)))):
                    part.violation("classical:canonical", case, {"got": repr(b)})
                    return evals
            elif not _same(first, b):
                part.violation("classical:order", dict(case, order=[list(p) for p in seq]),
                               {"first": repr(first), "this": repr(b)})
                return evals
        except Exception as exc:  # noqa
            part.violation("classical:exception", dict(case, order=[list(p) for p in seq]),
                           {"exception": repr(exc)})
            return evals
    # class object
    forbidden = set(ref_min) == {((), frozenset())}
    av0 = None
    try:
        for seq in orders:
            arg = [L.Perm(p) for p in seq]
            if forbidden:
                try:
                    L.Av(arg)
                except ValueError:      # the documented refusal of the basis {ε}
                    continue
            for av in (L.Av(arg), L.Av.from_iterable(tuple(arg)), L.Av(L.Basis(*arg))):
                if av0 is None:
                    av0 = av
                    if not _same(av.basis, first) or type(av.basis) is not L.Basis:
                        part.violation("classical:av", case, {"basis": repr(av.basis)})
                        return evals
                elif av is not av0:
                    part.violation("classical:av-identity", case, {"basis": repr(av.basis)})
                    return evals
    except Exception as exc:  # noqa
        part.violation("classical:av", case, {"exception": repr(exc)})
        return evals
    # text forms (the empty permutation has no digit form)
    if textmode and all(len(p) > 0 for p in pset):
        for seq in orders:
            for desc, text in texts_for(seq, textmode == "full"):
                check_text(part, seq, ref_min, text, desc, av0)
                evals += 1
    return evals


def shard_classical(shard):
    psets, profn, textmode = shard
    prof = profiles(profn)
    part = Partial()
    for pset in psets:
        n = check_classical_set(part, pset, prof, textmode)
        semset = frozenset((p, frozenset()) for p in pset)
        nt = 1 if (len(pset) >= 2 and len(minimal(semset)) < len(pset)) else 0
        part.add(n, nt)
        part.bump("classical_sets")
        if nt:
            part.bump("classical_sets_with_proper_pruning")
    if psets:
        pset = psets[-1]
        part.sample({"classical_set": [list(p) for p in pset],
                     "one_text": texts_for(pset, False)[4][1],
                     "reference_minimal_elements":
                         showset(minimal(frozenset((p, frozenset()) for p in pset)))}, cap=1)
    return part


def shard_longtext(shard):
    longs, shorts = shard
    L = lib()
    part = Partial()
    for p in longs:
        for q in [None] + shorts:
            seq = (p,) if q is None else (p, q)
            semset = frozenset((s, frozenset()) for s in seq)
            if q is None or not R.contains(p, q):
                ref_min = semset
            else:
                ref_min = frozenset([(q, frozenset())])
            for order in ([seq] if q is None else [seq, seq[::-1]]):
                for desc, text in texts_for(order, False):
                    if len(p) == 10 and desc["numbering"] != "0-based":
                        continue        # 1-based text needs the digit 10
                    check_text(part, order, ref_min, text, desc, None)
                    part.add(1, 1 if (q is not None and len(ref_min) == 1) else 0)
    return part


# --------------------------------------------------------------------------------------------
# holes: a long pattern with a large region next to a small pattern
# --------------------------------------------------------------------------------------------

def holes_underlying(quick):
    return F.symmetry_representatives(5) if quick else R.perms(5)


def check_holes_pair(part, pspec, qspec, H, hn, first_seen):
    """{p, q} in both orders: MeshBasis, Av(...).basis; minimal elements by the definitional
    containment; same class on S<=hn."""
    L = lib()
    specs = [pspec, qspec]
    case = {"specs": specs, "route": "holes", "hn": hn}
    sems = [F.sem(s) for s in specs]
    ref_min = minimal(frozenset(sems))
    try:
        objs = [build(s) for s in specs]
        b1 = L.MeshBasis(*objs)
        b2 = L.MeshBasis(*objs[::-1])
        got = [readback(e) for e in b1]
        if len(got) != len(set(got)) or set(got) != set(ref_min):
            part.violation("seq:minimal", case, {"expected": showset(ref_min),
                                                 "got": [show(e) for e in got]})
            return
        if not _same(b1, b2):
            part.violation("seq:order", dict(case, order=[1, 0]),
                           {"first_order": repr(b1), "this_order": repr(b2)})
            return
        if H.class_mask(set(got)) != H.class_mask(set(sems)):
            part.violation("seq:class", case, {"got": [show(e) for e in got], "horizon": hn})
            return
        av = L.Av(list(objs))
        av2 = L.Av(tuple(objs[::-1]))
        if av is not av2 or not _same(av.basis, b1) or type(av.basis) is not L.MeshBasis:
            part.violation("seq:av", case, {"basis": repr(av.basis), "built": repr(b1)})
    except Exception as exc:  # noqa
        part.violation("seq:exception", case, {"exception": repr(exc)})


def shard_holes(shard):
    quick, hn, lo, hi = shard
    part = Partial()
    H = horizon(hn)
    smalls = F.holes_small_patterns(not quick)
    fresh_class_cache()
    for qp in holes_underlying(quick)[lo:hi]:
        for sh in F.holes_of(qp, 3):
            qspec = ["mesh", list(qp), F.cells_list(sh)]
            qsem = F.sem(qspec)
            for pspec in smalls:
                check_holes_pair(part, pspec, qspec, H, hn, None)
                pruned = len(minimal(frozenset([F.sem(pspec), qsem]))) == 1
                part.add(2, 1 if pruned else 0)
                part.bump("holes_pairs")
                if pruned:
                    part.bump("holes_pairs_where_q_contains_p")
            H._mask.pop(qsem, None)
            _MIN.clear()
        fresh_class_cache()
    return part


# --------------------------------------------------------------------------------------------
# minimality only: larger classical collections, chains over three lengths
# --------------------------------------------------------------------------------------------

_CONT = {}


def cl_contains(p, q):
    """q is contained in p (classical), memoised."""
    k = (p, q)
    v = _CONT.get(k)
    if v is None:
        v = _CONT[k] = R.contains(p, q)
    return v


def cl_minimal(pset):
    return frozenset(p for p in pset
                     if not any(q != p and len(q) <= len(p) and cl_contains(p, q) for q in pset))


def orders_for(pset, mode):
    """mode "all": every order; "rot": sorted, reversed and every rotation of the sorted order."""
    pset = sorted(pset, key=lambda t: (len(t), t))
    if mode == "all":
        return list(itertools.permutations(pset))
    out = [tuple(pset), tuple(pset[::-1])]
    for r in range(1, len(pset)):
        out.append(tuple(pset[r:] + pset[:r]))
    return out


def check_minimal_set(part, pset, mode, mesh):
    """Basis in every order of `mode`, Basis.from_iterable, the basis of Av(list) and (if `mesh`)
    MeshBasis in two orders must consist of exactly the reference minimal elements."""
    L = lib()
    case = {"patterns": [list(p) for p in pset], "orders": mode}
    want = cl_minimal(pset)
    first = None
    n = 0
    try:
        for seq in orders_for(pset, mode):
            n += 1
            b = L.Basis(*[L.Perm(p) for p in seq])
            got = [tuple(e) for e in b]
            if len(got) != len(set(got)) or set(got) != want:
                part.violation("minimal:basis", dict(case, order=[list(p) for p in seq]),
                               {"expected": sorted(map(list, want)), "got": [list(g) for g in got]})
                return n
            if first is None:
                first = b
            elif not _same(first, b):
                part.violation("minimal:order", dict(case, order=[list(p) for p in seq]),
                               {"first": repr(first), "this": repr(b)})
                return n
        objs = [L.Perm(p) for p in pset]
        b = L.Basis.from_iterable(iter(objs[::-1]))
        if not _same(first, b):
            part.violation("minimal:from_iterable", case, {"first": repr(first), "this": repr(b)})
            return n
        av = L.Av(list(objs))
        if type(av.basis) is not L.Basis or not _same(first, av.basis) or \
                av is not L.Av(tuple(objs[::-1])):
            part.violation("minimal:av", case, {"basis": repr(av.basis), "built": repr(first)})
            return n
        n += 2
        if mesh:
            for seq in (objs, objs[::-1]):
                mb = L.MeshBasis(*seq)
                got = [readback(e) for e in mb]
                if len(got) != len(set(got)) or \
                        set(got) != set((p, frozenset()) for p in want):
                    part.violation("minimal:meshbasis", case,
                                   {"expected": sorted(map(list, want)),
                                    "got": [show(g) for g in got]})
                    return n
                n += 1
    except Exception as exc:  # noqa
        part.violation("minimal:exception", case, {"exception": repr(exc)})
    return n


def extensions(p):
    """All one-point extensions of p (a new point at any position with any value)."""
    n = len(p)
    return sorted(set(R.insert_point(p, i, v) for i in range(n + 1) for v in range(n + 1)))


def minimal_family(name, quick):
    """The stated families of classical sets (each yields tuples of patterns, each set once).
      small     all sets of 1..k patterns of S1..S4 (k = 4)
      five      (thorough) all sets of 5 patterns of S1..S4 [orders: sorted, reversed, rotations]
      one-long  {c} + T, c in S5 (= all one-point extensions of S4), T a set of 0..2 patterns of
                S1..S4
      one-long3 (thorough) the same with |T| = 3 [orders: sorted, reversed, rotations]
      chain     {a, c, d}: a in S1..S3 (thorough S1..S4), c in S5, d a one-point extension of c
                (three lengths in one set; d always contains c)
      two-long  (thorough) {c, c2, d}: c, c2 in S5, d a one-point extension of c"""
    s14 = [p for n in range(1, 5) for p in R.perms(n)]
    s5 = R.perms(5)
    if name == "small":
        for r in range(1, 5):
            yield from itertools.combinations(s14, r)
    elif name == "five":
        yield from itertools.combinations(s14, 5)
    elif name == "one-long":
        for c in s5:
            for r in range(0, 3):
                for t in itertools.combinations(s14, r):
                    yield t + (c,)
    elif name == "one-long3":
        for c in s5:
            for t in itertools.combinations(s14, 3):
                yield t + (c,)
    elif name == "chain":
        short = [p for p in s14 if len(p) <= (3 if quick else 4)]
        for c in s5:
            for d in extensions(c):
                for a in short:
                    yield (a, c, d)
    elif name == "two-long":
        for c in s5:
            ext = extensions(c)
            for c2 in s5:
                if c2 != c:
                    for d in ext:
                        yield (c, c2, d)
    else:
        raise ValueError(name)


MINIMAL_PLAN = {
    # family: (order mode, also MeshBasis?)
    "small": ("all", True), "five": ("rot", False), "one-long": ("all", True),
    "one-long3": ("rot", False), "chain": ("all", False), "two-long": ("all", False),
}


def shard_minimal(shard):
    name, quick, index, nsh = shard
    mode, mesh = MINIMAL_PLAN[name]
    part = Partial()
    fresh_class_cache()
    for k, pset in enumerate(minimal_family(name, quick)):
        if k % nsh != index:
            continue
        n = check_minimal_set(part, pset, mode, mesh)
        want = cl_minimal(pset)
        pruned = [p for p in pset if p not in want]
        nt = 1 if (pruned and len(want) >= 1 and len(pset) >= 2) else 0
        part.add(n, nt)
        part.bump("minimal_sets")
        if pruned:
            # the shape that needs every accepted pattern to be consulted: >= 2 kept patterns
            # of one length and a longer pruned pattern that contains only a non-first one
            by_len = {}
            for p in sorted(want, key=lambda t: (len(t), t)):
                by_len.setdefault(len(p), []).append(p)
            for q in pruned:
                hit = [p for p in sorted(want, key=lambda t: (len(t), t))
                       if len(p) < len(q) and cl_contains(q, p)]
                if hit and all(by_len[len(p)][0] != p for p in hit):
                    part.bump("minimal_sets_pruned_only_by_a_non_first_pattern_of_its_length")
                    break
        if k == index and pset:
            part.sample({"family": name, "set": [list(p) for p in pset],
                         "reference_minimal_elements": sorted(map(list, want))}, cap=1)
    return part


# --------------------------------------------------------------------------------------------
# cache pressure: class objects held while very many OTHER classes are constructed
# --------------------------------------------------------------------------------------------
# History dimension at scale: hold class objects (with computed levels), construct N distinct
# other classes with N crossing every power of two up to 2**16 (thorough 2**17) plus a margin,
# and at every crossing ask again for the held classes along several routes.

PRESSURE_HELD = [
    # (description, pattern specs, text or None)
    [["perm", [0, 1, 2]]],
    [["perm", [0, 2, 1]], ["perm", [0, 1, 2, 3]]],
    [["perm", [1, 0]], ["perm", [0, 1, 2]], ["perm", [3, 1, 2, 0]]],
    [["mesh", [0, 1], [[1, 1]]]],
    [["vinc", [0, 1], [1]], ["perm", [2, 1, 0]]],
    [["biv", [1, 0], [0], [2]], ["mesh", [0], [[0, 0]]], ["covinc", [0, 1], [1]]],
]


def pressure_others(stream):
    """An endless-enough supply of pairwise distinct bases, none equal to a held one.
    "classical": Basis(p, q) for all pairs p < q of S6 in lexicographic order (259,080).
    "mixed": alternately Basis(p, q) for the pairs of S6 in REVERSE order and one-element
    MeshBasis(<p, {c}>) for p in S6 then S7 and every cell c."""
    L = lib()
    s6 = R.perms(6)
    if stream == "classical":
        for a, b in itertools.combinations(s6, 2):
            yield lambda a=a, b=b: L.Basis(L.Perm(a), L.Perm(b))
        return

    def meshes():
        for n in (6, 7):
            for p in itertools.permutations(range(n)):
                for c in R.all_cells(n):
                    yield lambda p=p, c=c: L.MeshBasis(L.MeshPatt(L.Perm(p), [c]))
    rev = itertools.combinations(s6[::-1], 2)
    for (a, b), m in zip(rev, meshes()):
        yield lambda a=a, b=b: L.Basis(L.Perm(a), L.Perm(b))
        yield m


def pressure_checkpoints(limit_pow, margin):
    pts = set()
    for k in range(4, limit_pow + 1):
        pts.update((2 ** k - 1, 2 ** k, 2 ** k + 1))
    pts.add(2 ** limit_pow + margin)
    return sorted(pts)


def run_pressure(part, stream, limit_pow, margin, stop_at=None):
    L = lib()
    fresh_class_cache()
    held = []
    case0 = {"stream": stream, "limit_pow": limit_pow, "margin": margin}
    for specs in PRESSURE_HELD:
        classical = all(F.is_classical(sp) for sp in specs)
        objs = [build(sp) for sp in specs]
        av = L.Av(list(objs))
        counts = [av.count(k) for k in range(5)]
        level3 = sorted(av.of_length(3))
        held.append({"specs": specs, "classical": classical, "av": av, "counts": counts,
                     "level3": level3, "ncache": len(av.cache), "cache": av.cache,
                     "basis_hash": hash(av.basis)})

    def routes(h):
        objs = [build(sp) for sp in h["specs"]]
        kind = L.Basis if h["classical"] else L.MeshBasis
        out = [("Av(list reversed)", lambda: L.Av(objs[::-1])),
               ("Av.from_iterable(tuple)", lambda: L.Av.from_iterable(tuple(objs))),
               ("Av(basis)", lambda: L.Av(kind(*objs))),
               ("Av(iterator)", lambda: L.Av(iter(objs))),
               ("Av(repeated)", lambda: L.Av(objs + objs[:1]))]
        if h["classical"]:
            ps = [tuple(sp[1]) for sp in h["specs"]]
            out.append(("Av.from_string(0-based)",
                        lambda: L.Av.from_string(" ".join(F.text0(q) for q in ps))))
            out.append(("Av.from_string(1-based, reversed)",
                        lambda: L.Av.from_string(",".join(F.text1(q) for q in ps[::-1]))))
        return out

    def recheck(n, kept):
        evals = 0
        for hi, h in enumerate(held):
            for name, f in routes(h):
                case = dict(case0, n_others=n, held=h["specs"], route=name)
                evals += 1
                try:
                    av = f()
                    if av is not h["av"]:
                        part.violation("pressure:identity", case,
                                       {"same_object": False, "equal": av == h["av"],
                                        "levels_in_returned_object": len(av.cache),
                                        "levels_computed_before": h["ncache"]})
                        continue
                    if av.cache is not h["cache"] or len(av.cache) < h["ncache"] or \
                            hash(av.basis) != h["basis_hash"] or \
                            [av.count(k) for k in range(5)] != h["counts"] or \
                            sorted(av.of_length(3)) != h["level3"]:
                        part.violation("pressure:state", case,
                                       {"levels": len(av.cache), "levels_before": h["ncache"],
                                        "counts": [av.count(k) for k in range(5)],
                                        "counts_before": h["counts"]})
                except Exception as exc:  # noqa
                    part.violation("pressure:exception", case, {"exception": repr(exc)})
        for k, (mk, obj) in kept:
            evals += 1
            case = dict(case0, n_others=n, other_number=k)
            try:
                if L.Av(mk()) is not obj:
                    part.violation("pressure:identity", case, {"same_object": False})
            except Exception as exc:  # noqa
                part.violation("pressure:exception", case, {"exception": repr(exc)})
        return evals

    pts = pressure_checkpoints(limit_pow, margin)
    if stop_at is not None:
        pts = [q for q in pts if q <= stop_at]
    last = pts[-1]
    ptset = set(pts)
    kept = []
    evals = recheck(0, kept)
    n = 0
    for mk in pressure_others(stream):
        obj = L.Av(mk())
        n += 1
        if n in ptset:
            kept.append((n, (mk, obj)))
            evals += recheck(n, kept)
            part.bump("pressure_checkpoints")
        if n >= last:
            break
    if n < last:
        raise RuntimeError("supply of other bases exhausted at %d" % n)
    part.bump("pressure_other_classes_constructed", n)
    return evals, len(pts)


def shard_pressure(shard):
    stream, limit_pow, margin = shard
    part = Partial()
    evals, npts = run_pressure(part, stream, limit_pow, margin)
    part.add(evals, evals)
    part.sample({"stream": stream, "held_classes": len(PRESSURE_HELD),
                 "other_classes": 2 ** limit_pow + margin, "checkpoints": npts}, cap=1)
    fresh_class_cache()
    return part


# --------------------------------------------------------------------------------------------
# ABORT: an exception out of nowhere inside a construction, then construct again
# --------------------------------------------------------------------------------------------

class _Abort(BaseException):
    pass


def _run_with_abort(fn, k, root):
    """Run fn(); raise _Abort at the k-th 'call' event of a frame whose code lives under root
    (k=None: never).  Returns (finished?, number of such events seen)."""
    import sys
    seen = [0]

    def tracer(frame, event, arg):
        if event == "call" and frame.f_code.co_filename.startswith(root):
            seen[0] += 1
            if seen[0] == k:
                sys.settrace(None)
                raise _Abort()
        return None

    sys.settrace(tracer)
    try:
        fn()
        return True, seen[0]
    except _Abort:
        return False, seen[0]
    finally:
        sys.settrace(None)


ABORT_COLLECTIONS = [
    [["perm", [0, 1, 2]], ["perm", [0, 2, 1]], ["perm", [0, 3, 2, 1]]],
    [["perm", [0, 1]], ["perm", [1, 0]]],
    [["perm", [1, 0, 2]], ["perm", [1, 0]], ["perm", [0, 1, 2, 3]], ["perm", [1, 0, 2]]],
    [["mesh", [0], [[0, 1]]], ["mesh", [0], [[0, 0], [0, 1]]]],
    [["vinc", [0, 1], [1]], ["perm", [2, 1, 0]], ["mesh", [0, 1], [[1, 1]]]],
    [["biv", [1, 0], [0], [2]], ["mesh", [1, 0], [[0, 0], [0, 1], [0, 2], [0, 2], [1, 2], [2, 2]]],
     ["perm", [1, 0, 2]]],
    [["mesh", [], [[0, 0]]], ["perm", [0]], ["covinc", [0, 1], [1]]],
]
ABORT_OPS = ("Basis", "MeshBasis", "Av", "Av.from_iterable", "Av(basis)", "Basis.from_string",
             "Av.from_string")


def abort_case_ops(specs):
    classical = all(F.is_classical(sp) for sp in specs)
    for op in ABORT_OPS:
        if op in ("Basis", "Basis.from_string", "Av.from_string") and not classical:
            continue
        for warm in (False, True):
            if op in ("Basis", "MeshBasis", "Basis.from_string") and warm:
                continue            # no class object involved
            yield op, warm


def _in_child(fn):
    """Run fn() in a forked child and return its JSON-able result.  Every injection gets a
    process of its own, so that whatever an earlier run (or its read-back) memoised anywhere -
    including memo tables this harness does not know about - cannot shield a later injection:
    each one starts from the state of a process that has never constructed anything."""
    import json
    import os
    r, w = os.pipe()
    pid = os.fork()
    if pid == 0:
        code = 0
        try:
            os.close(r)
            try:
                out = fn()
            except BaseException as exc:  # noqa
                out = {"child_exception": repr(exc)}
            with os.fdopen(w, "w") as fh:
                fh.write(json.dumps(out))
        except BaseException:  # noqa
            code = 1
        finally:
            os._exit(code)
    os.close(w)
    with os.fdopen(r) as fh:
        data = fh.read()
    os.waitpid(pid, 0)
    try:
        return json.loads(data)
    except ValueError:
        return {"child_exception": "no result from the child process (it died)"}


def abort_attempt(ci, op, warm, k):
    """In a fresh child: bring the collection into being (optionally holding its class object
    already), run `op` with an injection at call event k (None: undisturbed), read back.
    Returns {"total": events seen, "finished": bool, "problems": [...]}."""
    import os
    import signal
    import sys
    from ..core import REPO
    L = lib()
    specs = ABORT_COLLECTIONS[ci]
    classical = all(F.is_classical(sp) for sp in specs)
    ref_min = frozenset(minimal(frozenset(F.sem(sp) for sp in specs)))
    kind = L.Basis if classical else L.MeshBasis
    text = " ".join(F.text1(tuple(sp[1])) for sp in specs) if classical else None
    root = os.path.join(os.path.abspath(REPO), "permuta") + os.sep
    objs = [build(sp) for sp in specs]
    held = L.Av(list(build(sp) for sp in specs)) if warm else None
    if op == "Basis":
        fn = lambda: L.Basis(*objs)                                   # noqa
    elif op == "MeshBasis":
        fn = lambda: L.MeshBasis(*objs)                               # noqa
    elif op == "Av":
        fn = lambda: L.Av(list(objs))                                 # noqa
    elif op == "Av.from_iterable":
        fn = lambda: L.Av.from_iterable(iter(objs))                   # noqa
    elif op == "Av(basis)":
        fn = lambda: L.Av(kind(*objs))                                # noqa
    elif op == "Basis.from_string":
        fn = lambda: L.Basis.from_string(text)                        # noqa
    else:
        fn = lambda: L.Av.from_string(text)                           # noqa

    def on_alarm(signum, frame):
        raise TimeoutError("read-back did not finish within 20 s")

    signal.signal(signal.SIGALRM, on_alarm)
    sys.unraisablehook = lambda unraisable: None
    finished, total = _run_with_abort(fn, k, root)
    problems = []
    signal.alarm(20)
    try:
        fresh = [build(sp) for sp in specs]
        for name, mk in (("MeshBasis(same objects)", lambda: L.MeshBasis(*objs)),
                         ("MeshBasis(fresh objects)", lambda: L.MeshBasis(*fresh[::-1]))):
            got = [readback(e) for e in mk()]
            if len(got) != len(set(got)) or set(got) != ref_min:
                problems.append({"call": name, "got": [show(e) for e in got]})
        if classical:
            b1, b2 = L.Basis(*objs), L.Basis(*fresh[::-1])
            b3 = L.Basis.from_string(text)
            for name, b in (("Basis(same objects)", b1), ("Basis(fresh objects)", b2),
                            ("Basis.from_string", b3)):
                got = [readback(e) for e in b]
                if len(got) != len(set(got)) or set(got) != ref_min:
                    problems.append({"call": name, "got": [show(e) for e in got]})
            if not (_same(b1, b2) and _same(b1, b3)):
                problems.append({"call": "Basis same/fresh/from_string differ"})
        avs = [("Av(same objects)", L.Av(list(objs))),
               ("Av.from_iterable(fresh)", L.Av.from_iterable(iter(fresh))),
               ("Av(basis)", L.Av(kind(*fresh)))]
        if classical:
            avs.append(("Av.from_string", L.Av.from_string(text)))
        for name, av in avs:
            got = set(readback(e) for e in av.basis)
            if got != ref_min or type(av.basis) is not kind:
                problems.append({"call": name, "basis": repr(av.basis)})
            if av is not avs[0][1]:
                problems.append({"call": name, "same_object_as": avs[0][0], "answer": False})
            if held is not None and av is not held:
                problems.append({"call": name, "same_object_as":
                                 "the class object obtained before the abort", "answer": False})
            if len(av.cache) < 1 or [av.count(n) for n in range(4)] != \
                    [avs[0][1].count(n) for n in range(4)]:
                problems.append({"call": name, "counts": [av.count(n) for n in range(4)]})
    except TimeoutError as exc:
        problems.append({"hang": str(exc)})
    except Exception as exc:  # noqa
        problems.append({"exception_in_read_back": repr(exc)})
    signal.alarm(0)
    return {"total": total, "finished": finished, "problems": problems[:4]}


def shard_abort(shard):
    ci, op, warm = shard[:3]
    only_k = shard[3] if len(shard) > 3 else None
    part = Partial()
    specs = ABORT_COLLECTIONS[ci]
    res = _in_child(lambda: abort_attempt(ci, op, warm, None))
    if "total" not in res or res["problems"]:
        part.violation("abort", {"collection": ci, "specs": specs, "op": op,
                                 "warm_class_cache": warm, "abort_at_call": None}, res)
        return part
    total = res["total"]
    for k in ([only_k] if only_k else range(1, total + 1)):
        case = {"collection": ci, "specs": specs, "op": op, "warm_class_cache": warm,
                "abort_at_call": k}
        res = _in_child(lambda: abort_attempt(ci, op, warm, k))
        if "child_exception" in res:
            part.violation("abort", case, res)
        elif res["problems"]:
            part.violation("abort", case, {"aborted_before_completion": not res["finished"],
                                           "problems": res["problems"]})
        part.add(1, 0 if res.get("finished") else 1)
    part.bump("abort_points", total)
    return part


# --------------------------------------------------------------------------------------------
# one-shot iterators (known finding)
# --------------------------------------------------------------------------------------------

def outcome_of(f, arg):
    L = lib()
    try:
        av = f(arg)
    except Exception as exc:  # noqa
        return ("exception", type(exc).__name__)
    return ("ok", type(av.basis).__name__, frozenset(readback(e) for e in av.basis))


def correct_outcome(specs):
    classical = all(F.is_classical(s) for s in specs)
    ref_min = minimal(frozenset(F.sem(s) for s in specs))
    if classical and set(ref_min) == {((), frozenset())}:
        return ("exception", "ValueError")
    return ("ok", "Basis" if classical else "MeshBasis", frozenset(ref_min))


def deviation_iterator(specs):
    """Deviation model of the open finding: MeshBasis.is_mesh_basis() runs any(...) over the
    argument, which consumes a one-shot iterator up to and including the first non-classical
    pattern (all of it when there is none); the basis is then built from what is left."""
    k = next((i for i, s in enumerate(specs) if not F.is_classical(s)), None)
    rest = [] if k is None else specs[k + 1:]
    if not rest:
        return ("exception", "ValueError")      # empty basis is rejected by Av
    ref_min = minimal(frozenset(F.sem(s) for s in rest))
    return ("ok", "MeshBasis", frozenset(ref_min))


def show_outcome(o):
    return list(o[:2]) + ([showset(o[2])] if len(o) > 2 else [])


def argument_forms(objs, classical):
    """(name, thunk -> argument, one_shot?) for every form an 'iterable of patterns' can take."""
    import collections
    L = lib()
    forms = [
        ("list", lambda: list(objs), False),
        ("tuple", lambda: tuple(objs), False),
        ("list reversed", lambda: list(objs)[::-1], False),
        ("list with the first element repeated at the end", lambda: list(objs) + list(objs)[:1],
         False),
        ("set", lambda: set(objs), False),
        ("frozenset", lambda: frozenset(objs), False),
        ("dict keys view", lambda: dict.fromkeys(objs).keys(), False),
        ("dict", lambda: dict.fromkeys(objs), False),
        ("deque", lambda: collections.deque(objs), False),
        ("MeshBasis object", lambda: L.MeshBasis(*objs), False),
        ("iter(list)", lambda: iter(list(objs)), True),
        ("generator", lambda: (x for x in objs), True),
        ("map", lambda: map(lambda x: x, objs), True),
        ("filter", lambda: filter(lambda x: True, objs), True),
        ("itertools.chain", lambda: itertools.chain(objs[:1], objs[1:]), True),
        ("reversed()", lambda: reversed(list(objs)), True),
        ("iter(dict)", lambda: iter(dict.fromkeys(objs)), True),
    ]
    if classical:
        forms.append(("Basis object", lambda: L.Basis(*objs), False))
    return forms


def entry_points(classical):
    """(name, callable(arg), returns a class object?)"""
    L = lib()
    eps = [("Av(x)", lambda x: L.Av(x), True),
           ("Av(basis=x)", lambda x: L.Av(basis=x), True),
           ("Av.from_iterable(x)", lambda x: L.Av.from_iterable(x), True),
           ("Av.from_iterable(basis=x)", lambda x: L.Av.from_iterable(basis=x), True),
           ("MeshBasis.from_iterable(x)", lambda x: L.MeshBasis.from_iterable(x), False),
           ("MeshBasis.from_iterable(patts=x)", lambda x: L.MeshBasis.from_iterable(patts=x), False),
           ("MeshBasis(*x)", lambda x: L.MeshBasis(*x), False)]
    if classical:
        eps += [("Basis.from_iterable(x)", lambda x: L.Basis.from_iterable(x), False),
                ("Basis.from_iterable(patts=x)", lambda x: L.Basis.from_iterable(patts=x), False),
                ("Basis(*x)", lambda x: L.Basis(*x), False)]
    return eps


def form_outcome(f, arg, is_av):
    try:
        res = f(arg)
    except Exception as exc:  # noqa
        return ("exception", type(exc).__name__)
    b = res.basis if is_av else res
    return ("ok", type(b).__name__, frozenset(readback(e) for e in b))


def check_iterator(part, specs):
    """FORMS: one collection through every entry point x every argument form."""
    classical = all(F.is_classical(s) for s in specs)
    ref_min = frozenset(minimal(frozenset(F.sem(s) for s in specs)))
    want_av = correct_outcome(specs)
    dev = deviation_iterator(specs)
    evals = 0
    for ename, f, is_av in entry_points(classical):
        if is_av:
            want = want_av
        else:
            want = ("ok", "Basis" if ename.startswith("Basis") else "MeshBasis", ref_min)
        objs = [build(s) for s in specs]
        for fname, mk, one_shot in argument_forms(objs, classical):
            if fname == "MeshBasis object" and ename.startswith("Basis"):
                continue            # a Basis is made of classical patterns only
            w = want
            if is_av and fname == "MeshBasis object":
                w = ("ok", "MeshBasis", ref_min)     # an explicit MeshBasis stays one
            try:
                arg = mk()
            except Exception as exc:  # noqa
                part.violation("forms", {"specs": specs, "call": ename, "form": fname},
                               {"exception_building_the_argument": repr(exc)})
                continue
            got = form_outcome(f, arg, is_av)
            evals += 1
            if got == w:
                continue
            part.violation("iterator" if one_shot else "forms",
                           {"specs": specs, "call": ename, "form": fname},
                           {"expected": show_outcome(w), "got": show_outcome(got)},
                           sig=SIG_ITER if (one_shot and is_av and got == dev) else None)
    return evals


def check_helper_forms(part):
    """Collections handed over straight from the library's own generator-returning helpers,
    and the keyword spellings of the text entry points."""
    L = lib()
    s3 = R.perms(3)
    av012 = sorted(p for p in s3 if p != (0, 1, 2))
    cases = [
        ("Av.from_iterable(Perm.of_length(1))", lambda: L.Av.from_iterable(L.Perm.of_length(1)),
         True, "Basis", [(p, frozenset()) for p in R.perms(1)]),
        ("Av(Perm.of_length(2))", lambda: L.Av(L.Perm.of_length(2)),
         True, "Basis", [(p, frozenset()) for p in R.perms(2)]),
        ("Basis.from_iterable(Perm.of_length(3))", lambda: L.Basis.from_iterable(L.Perm.of_length(3)),
         False, "Basis", [(p, frozenset()) for p in s3]),
        ("Basis(*Perm.of_length(3))", lambda: L.Basis(*L.Perm.of_length(3)),
         False, "Basis", [(p, frozenset()) for p in s3]),
        ("MeshBasis.from_iterable(MeshPatt.of_length(1))",
         lambda: L.MeshBasis.from_iterable(L.MeshPatt.of_length(1)),
         False, "MeshBasis", [((0,), frozenset())]),
        ("Av(MeshPatt.of_length(1))", lambda: L.Av(L.MeshPatt.of_length(1)),
         True, "MeshBasis", [((0,), frozenset())]),
        ("Av.from_iterable(MeshPatt.of_length(1, Perm((0,))))",
         lambda: L.Av.from_iterable(L.MeshPatt.of_length(1, L.Perm((0,)))),
         True, "MeshBasis", [((0,), frozenset())]),
        ("Av(Av([012]).of_length(3))",
         lambda: L.Av(L.Av([L.Perm((0, 1, 2))]).of_length(3)),
         True, "Basis", [(p, frozenset()) for p in av012]),
        ("Av(iter(Basis))", lambda: L.Av(iter(L.Basis(L.Perm((0, 2, 1)), L.Perm((1, 0))))),
         True, "Basis", [((1, 0), frozenset())]),
        ("Basis.from_string(patts=...)", lambda: L.Basis.from_string(patts="132, 4321"),
         False, "Basis", [((0, 2, 1), frozenset()), ((3, 2, 1, 0), frozenset())]),
        ("Av.from_string(basis=...)", lambda: L.Av.from_string(basis="021_3210"),
         True, "Basis", [((0, 2, 1), frozenset()), ((3, 2, 1, 0), frozenset())]),
    ]
    for name, f, is_av, kind, elems in cases:
        want = ("ok", kind, frozenset(elems))
        got = form_outcome(lambda _: f(), None, is_av)
        if got != want:
            part.violation("forms", {"helper": name},
                           {"expected": show_outcome(want), "got": show_outcome(got)})
        part.add(1, 1)
    # the class object is the same whichever spelling produced it
    try:
        a = L.Av.from_string(basis="021_3210")
        if not (a is L.Av.from_string("132 4321") is L.Av([L.Perm((3, 2, 1, 0)), L.Perm((0, 2, 1))])):
            part.violation("forms", {"helper": "Av.from_string keyword / positional / list"},
                           {"same_object": False})
    except Exception as exc:  # noqa
        part.violation("forms", {"helper": "Av.from_string keyword / positional / list"},
                       {"exception": repr(exc)})


def shard_iterator(shard):
    poolname, seqs = shard
    pool = POOLS[poolname]
    part = Partial()
    for seq in seqs:
        specs = [pool[i] for i in seq]
        n = check_iterator(part, specs)
        part.add(n, n if (len(set(map(repr, specs))) > 1
                          and len(set(s[0] for s in specs)) > 1) else 0)
    if poolname == "sub" and seqs and seqs[0] == (0,):
        check_helper_forms(part)
    return part


# --------------------------------------------------------------------------------------------

def run(ctx, only=None):
    def want(name):
        return only is None or name in only

    quick = ctx.quick
    prepare_pools()
    ctx.rule = ("one evaluation = one construction order of one collection (multiset of patterns "
                "or set of classical patterns), one text form, or one one-shot-iterator call; "
                "non-trivial = collections with >= 2 distinct patterns of which at least one is "
                "pruned because it properly contains another (so order, minimality and class "
                "equality are all exercised), long-pattern texts in which the long pattern is "
                "pruned by the short one, iterator sequences mixing kinds; each collection / "
                "text / sequence is enumerated once")
    ctx.assumptions = [
        "reference containment between mesh patterns: mc/ref_c05.py (rectangle fully shaded and "
        "point free), self-tested against the avoidance semantics of mc/refmodel.py on the pool",
        "avoidance classes are compared on S<=%d (mesh) and through pattern profiles on S<=%d "
        "(classical)" % (5 if quick else 6, 7 if quick else 8),
        "1-based text is only defined up to length 9, 0-based up to length 10",
        "collections larger than the stated sizes and patterns outside the pools are not explored",
    ]
    hn = 5 if quick else 6
    if want("seq"):
        H = horizon(hn)
        for name in ("full", "sub", "deep"):
            for s in POOLS[name]:
                H.cmask(F.sem(s))
        self_test_reference(POOLS["full"], H)
        # (pool, sizes): nested pools, disjoint size ranges => every multiset once
        plan = [("full", (1, 2)), ("sub", (3,)), ("deep", (4,))] if quick else \
               [("full", (1, 2, 3)), ("sub", (4,)), ("deep", (5,))]
        for poolname, sizes in plan:
            pool = POOLS[poolname]
            for size in sizes:
                e0 = ctx.evals
                import math
                ncombos = math.comb(len(pool) + size - 1, size)
                # interleaved shards: every shard has cheap and expensive collections
                nsh = 16 if ncombos < 2000 else 96
                # the largest space (whole pool, size 3) asks for fewer redundant re-constructions
                # per collection: every order of the constructors, fixed point, from_iterable
                # (iterator), canonical form, Av through two orders, the basis and a frozenset
                light = (poolname == "full" and size >= 3)
                shards = [(poolname, hn, size, nsh, i, light) for i in range(min(nsh, ncombos))]
                ctx.pmap(shard_seq, shards)
                ctx.section("seq", pool=poolname, pool_size=len(pool), size=size,
                            collections=ncombos, evaluations=ctx.evals - e0)
        ctx.bounds["seq"] = [{"pool": p, "pool_size": len(POOLS[p]), "multiset_sizes": list(s),
                              "orders": "all"} for p, s in plan]
        ctx.bounds["seq_class_horizon"] = hn
    if want("classical"):
        e0 = ctx.evals
        r = 2 if quick else 3
        profn = 7 if quick else 8
        profiles(profn)
        pool = R.perms_upto(4)
        psets = list(R.subsets(pool, r))
        # text: full product of separators x wrappers x numberings for sets of size <= 2,
        # separators x numberings for size 3
        small = [s for s in psets if len(s) <= 2]
        big = [s for s in psets if len(s) > 2]
        shards = [(small[i::32], profn, "full") for i in range(32) if small[i::32]]
        shards += [(big[i::96], profn, "short") for i in range(96) if big[i::96]]
        ctx.pmap(shard_classical, shards)
        ctx.bounds["classical"] = {"patterns": "S<=4 including the empty permutation",
                                   "set_size": r, "sets": len(psets), "orders": "all",
                                   "class_horizon": profn,
                                   "text": "separators(%d) x wrappers(%d) x {0-based,1-based,"
                                           "alternating} for sets of size<=2; separators x "
                                           "numberings for size 3" % (len(F.SEPARATORS),
                                                                      len(F.WRAPS))}
        ctx.section("classical", sets=len(psets), evaluations=ctx.evals - e0)
    if want("holes"):
        e0 = ctx.evals
        hhn = 5 if quick else 6
        horizon(hhn)
        und = holes_underlying(quick)
        ctx.pmap(shard_holes, [(quick, hhn, i, i + 1) for i in range(len(und))])
        ctx.bounds["holes"] = {
            "q": "underlying patterns of length 5 (%s: %d); every point-free rectangle of boxes "
                 "with both sides >= 3, shaded completely / minus one box (each box in turn) / "
                 "minus one column / minus one row" % (
                     "quick: least member of each symmetry orbit" if quick else "all", len(und)),
            "p": "every shading (>= 1 cell) of the one-point pattern and the shaded pattern of "
                 "length 0" + ("" if quick else "; the one-cell shadings of length 2"),
            "collections": "{p, q} in both orders", "class_horizon": hhn}
        ctx.section("holes", pairs=ctx.counters.get("holes_pairs", 0),
                    q_contains_p=ctx.counters.get("holes_pairs_where_q_contains_p", 0),
                    evaluations=ctx.evals - e0)
    if want("minimal"):
        fams = ["small", "one-long", "chain"] if quick else \
            ["small", "five", "one-long", "one-long3", "chain", "two-long"]
        info = {}
        for name in fams:
            e0 = ctx.evals
            c0 = ctx.counters.get("minimal_sets", 0)
            nsh = 96
            ctx.pmap(shard_minimal, [(name, quick, i, nsh) for i in range(nsh)])
            info[name] = {"sets": ctx.counters.get("minimal_sets", 0) - c0,
                          "orders": MINIMAL_PLAN[name][0], "meshbasis_too": MINIMAL_PLAN[name][1]}
            ctx.section("minimal", family=name, sets=info[name]["sets"],
                        evaluations=ctx.evals - e0)
        ctx.bounds["minimal"] = {"families": info, "definition": minimal_family.__doc__}
    if want("pressure"):
        e0 = ctx.evals
        limit_pow, margin = (16, 4464) if quick else (17, 8928)
        # two streams = two forked workers; the big class caches die with them
        ctx.pmap(shard_pressure, [("classical", limit_pow, margin), ("mixed", limit_pow, margin)])
        ctx.bounds["pressure"] = {
            "held_classes": len(PRESSURE_HELD), "streams": ["classical", "mixed"],
            "other_classes_per_stream": 2 ** limit_pow + margin,
            "checkpoints": pressure_checkpoints(limit_pow, margin),
            "at_each_checkpoint": "every held class asked for again along 5 (mesh) / 7 "
                                  "(classical) routes: same object, same level cache, same "
                                  "counts; the classes constructed at earlier checkpoints too"}
        ctx.section("pressure", other_classes=2 * (2 ** limit_pow + margin),
                    evaluations=ctx.evals - e0)
    if want("longtext"):
        e0 = ctx.evals
        longs = list(R.perms(5))
        if quick:
            longs += F.strided(6, 7) + F.strided(7, 97) + F.strided(8, 997) + \
                F.strided(9, 9973) + F.strided(10, 99991)
        else:
            longs += list(R.perms(6)) + F.strided(7, 7) + F.strided(8, 97) + \
                F.strided(9, 997) + F.strided(10, 9973)
        shorts = [p for p in R.perms_upto(3) if len(p) >= 1]
        shards = [(longs[i::64], shorts) for i in range(64) if longs[i::64]]
        ctx.pmap(shard_longtext, shards)
        ctx.bounds["longtext"] = {"long_patterns": len(longs),
                                  "family": "all of S5" + ("" if quick else ", S6")
                                            + "; every k-th of S6..S10 in lexicographic order",
                                  "next_to": "nothing or one pattern of S1..S3, both orders",
                                  "forms": "separators x numberings"}
        ctx.section("longtext", long_patterns=len(longs), evaluations=ctx.evals - e0)
    if want("abort"):
        e0 = ctx.evals
        # quick: four of the seven collections (every injection costs a process)
        use = (0, 1, 3, 4) if quick else range(len(ABORT_COLLECTIONS))
        shards = [(ci, op, warm) for ci in use
                  for op, warm in abort_case_ops(ABORT_COLLECTIONS[ci])]
        ctx.pmap(shard_abort, shards)
        ctx.bounds["abort"] = {"collections": [ABORT_COLLECTIONS[ci] for ci in use],
                               "operations": list(ABORT_OPS),
                               "class_cache": ["cold", "holding the class already"],
                               "injection_points": ctx.counters.get("abort_points", 0),
                               "cases": len(shards), "bound": "one injection per run, every k; "
                               "every injection in a forked process of its own"}
        ctx.section("abort", cases=len(shards),
                    injection_points=ctx.counters.get("abort_points", 0),
                    evaluations=ctx.evals - e0)
    if want("iterator") or want("forms"):
        e0 = ctx.evals
        pool = POOLS["sub"]
        seqs = [(i,) for i in range(len(pool))] + \
            list(itertools.product(range(len(pool)), repeat=2))
        if not quick:
            seqs += list(itertools.product(range(len(POOLS["deep"])), repeat=3))
            # deep pool indices refer to the deep pool: separate shards
        n2 = len(pool) + len(pool) ** 2
        shards = [("sub", seqs[:n2][i::32]) for i in range(32)]
        if not quick:
            shards += [("deep", seqs[n2:][i::32]) for i in range(32)]
        ctx.pmap(shard_iterator, shards)
        ctx.bounds["iterator"] = "FORMS: all sequences of length<=2 over the sub pool" + \
            ("" if quick else " and of length 3 over the deep pool") + \
            ", through 7 entry points (10 for classical sequences; positional and keyword) x " \
            "17-18 argument forms (list, tuple, reversed, repeated element, set, frozenset, " \
            "dict, dict keys, deque, Basis/MeshBasis object, and 7 one-shot iterators); plus " \
            "11 collections taken straight from the library's generator helpers / keyword " \
            "text entry points"
        ctx.section("iterator", sequences=len(seqs), evaluations=ctx.evals - e0)


    import json
    ctx.viols.sort(key=lambda v: (v["sig"] is not None, len(json.dumps(v["case"]))))


# --------------------------------------------------------------------------------------------

def replay(ctx, rec):
    sub, case = rec["sub"], rec["case"]
    prepare_pools()
    if sub.startswith("seq:"):
        hn = case.get("hn", 5)
        H = horizon(hn)
        fresh_class_cache()
        probe = Partial()
        check_collection(probe, case["specs"], H, hn, {}, earlier=case.get("earlier"))
        ident = case.get("shard")
        if probe.nviol or not ident:
            fresh_class_cache()
            check_collection(ctx, case["specs"], H, hn, {}, earlier=case.get("earlier"))
        else:
            # state dependent: re-execute the shard up to and including this collection
            pool = POOLS[ident["pool"]]
            combos = shard_combos(ident["pool"], ident["size"], ident["nsh"], ident["index"])
            fresh_class_cache()
            first_seen = {}
            for k, combo in enumerate(combos[:ident["upto"] + 1]):
                specs = [pool[i] for i in combo]
                check_collection(ctx if k == ident["upto"] else Partial(), specs, H, hn,
                                 first_seen, light=ident.get("light", False))
    elif sub.startswith("classical:"):
        pset = tuple(tuple(p) for p in case["patterns"])
        check_classical_set(ctx, pset, profiles(7), "full" if len(pset) <= 2 else "short")
    elif sub == "abort":
        ctx.merge(shard_abort((case["collection"], case["op"], case["warm_class_cache"],
                               case["abort_at_call"])))
    elif sub.startswith("pressure:"):
        run_pressure(ctx, case["stream"], case["limit_pow"], case["margin"],
                     stop_at=case["n_others"])
    elif sub.startswith("minimal:"):
        pset = tuple(tuple(p) for p in case["patterns"])
        check_minimal_set(ctx, pset, case.get("orders", "all"), True)
    elif sub.startswith("text:"):
        seq = tuple(tuple(p) for p in case["patterns"])
        L = lib()
        ref_min = minimal(frozenset((p, frozenset()) for p in seq))
        av = None
        if sub == "text:av":
            av = L.Av(L.Basis(*[L.Perm(p) for p in seq]))
        check_text(ctx, seq, ref_min, case["text"], case["form"], av)
    elif sub in ("iterator", "forms"):
        if "helper" in case:
            check_helper_forms(ctx)
        else:
            check_iterator(ctx, case["specs"])
    else:
        raise ValueError("unknown sub-check %r" % sub)
