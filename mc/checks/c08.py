"""C08 - equality, hashing and ordering of permutations, patterns and bases are coherent.

E1 (all pairs / all triples of a universe of real objects) + E2 (BFS over allocation histories
between hash computations of the same object; the allocator is the environment).

Sub-checks (names usable with --only):
  pairs       all ordered pairs of the universe: ==, !=, hash, set/dict membership, and for
              permutation pairs and mesh-type pairs the six comparison operators (defined, bool,
              trichotomy, <=/>= consistent, mirror law); the observed < and == relations are
              returned as bit matrices
  triples     transitivity of == and < over ALL triples, decided on the observed matrices by
              bitset inclusion; a failing triple is re-executed on the real objects
  sorted      sorted() of every 3-subset of the mesh-type universe (quick: of a sub-universe)
              in all 6 orders; sorted()/min()/max() of the whole universe in rotated and
              reversed orders; the result must be sorted w.r.t. the observed relation and
              independent of the input order
  sets        sets and dicts of the whole universe built in several insertion orders: size =
              number of distinct values, every freshly built equal object is found
  routes      construction routes: for every mesh value of a stated family the equal object is
              obtained along every route (shaded cells in every order, six container types,
              symmetry round trips, unrank, shade, sub_mesh_pattern, every bivincular-type
              spelling) and so are the one-element (and, for a family of pairs, two-element)
              mesh bases; permutations and classical bases likewise; all objects of one value
              must agree under ==, !=, hash, set/dict lookup both ways and the order operators
              (within the group and against a fixed list of probes)
  scale       sparse, fully enumerated structured family at sizes straddling thresholds of the
              runtime (7..12, 31..34, 255..258, 300; thorough 511..513, 1000): identity, reverse,
              adjacent transpositions near both ends, rotations, k*i mod n, layered, sums with a
              long monotone permutation, also obtained along other routes; mesh-type patterns
              over them; adjacency sets with values >= 8 / >= 32 in several input forms; all
              pair laws, sorted()/min()/max() against (length, entries), Basis canonical form
  derived     E2 BFS (depth 3, thorough 4) from 9 start objects over {use-ops that may create
              hidden state: hash, ==, order, sorted, set/dict, all_syms, containment queries,
              repr} + {every method that returns a new pattern: shade, add_point, add_increase,
              add_decrease, sub_mesh_pattern, rotate, reverse, complement, inverse, flips,
              get_perm; for permutations also remove, insert, direct/skew sum}; after every
              operation every live object is compared with the same value rebuilt through the
              constructor (==, hash, lookups both ways, order against every live object)
  fresh       FRESH: objects are built from mutable containers (shading list/set/dict, entry
              list, adjacency lists/sets) which are edited afterwards, and the mutable containers
              an object hands out (get_adjacent_requirements lists, sorted(shading), list(basis),
              any exposed mutable attribute) are edited; then ==, hash, lookup, order against a
              freshly built equal object and the handed-out data are checked again
  abort       ABORT: a BaseException is raised at the k-th call event (every k) inside every
              hash / == / < / <= / > / >= of a 14-object family, sorted / min / max / set / dict
              / list.sort of its families and Basis / MeshBasis construction; every injection in
              its own forked process; afterwards all pair laws must hold on the same objects and
              against fresh ones
  perm_order  all ordered pairs of S<=5 (thorough S<=6): the six operators against (length,
              entries); sorted() of S<=n from rotated/reversed orders
  history     BFS over histories of {hash x_i, use x_i, retain an object of some size class,
              release, gc.collect()} on three live objects; after every step hash(x_i) must equal
              its first value and the hash of freshly built equal objects, and lookups in a
              dict/set filled at creation time must succeed

Reference identity of a universe entry (no library involved): permutations by their entries,
mesh-type patterns by (permutation, set of shaded cells) whatever the class, bases by kind and
set of elements.
"""
from __future__ import annotations

import gc
import itertools

from .. import refmodel as R
from .. import ref_c05 as F
from ..core import Partial
from ..explore import bfs

PROPERTY = "C08"
LEVEL = "model_checking"


# --------------------------------------------------------------------------------------------
# library access, construction of universe entries
# --------------------------------------------------------------------------------------------

_L = None


def lib():
    global _L
    if _L is None:
        from permuta import Av, BivincularPatt, CovincularPatt, MeshPatt, Perm, VincularPatt
        from permuta.perm_sets.basis import Basis, MeshBasis

        class L:
            pass
        L.Perm, L.MeshPatt, L.Biv, L.Vinc, L.Covinc = (Perm, MeshPatt, BivincularPatt,
                                                      VincularPatt, CovincularPatt)
        L.Basis, L.MeshBasis = Basis, MeshBasis
        _L = L
    return _L


# An entry is [spec, variant].  spec: a pattern spec of mc/ref_c05.py, or
# ["basis", [perm specs]] / ["meshbasis", [pattern specs]].  variant: how the object is built.

def build_perm(p, variant):
    L = lib()
    if variant == "inverse2":
        return L.Perm(tuple(p)).inverse().inverse()
    if variant == "reverse2":
        return L.Perm(tuple(p)).reverse().reverse()
    if variant == "list":
        return L.Perm(list(p))
    if variant == "gen":
        return L.Perm(v for v in p)
    if variant == "std":
        return L.Perm.to_standard([3 * v + 2 for v in p])
    return L.Perm(tuple(p))


def shape_values(n, shape, param):
    """Structured permutations of length n with an obvious definition (the scale family)."""
    idn = list(range(n))
    if shape == "identity":
        return tuple(idn)
    if shape == "reverse":
        return tuple(idn[::-1])
    if shape == "id-swap":              # identity with positions param, param+1 exchanged
        p = idn[:]
        p[param], p[param + 1] = p[param + 1], p[param]
        return tuple(p)
    if shape == "rev-swap":
        p = idn[::-1]
        p[param], p[param + 1] = p[param + 1], p[param]
        return tuple(p)
    if shape == "rotation":             # i -> (i + param) mod n
        return tuple((i + param) % n for i in idn)
    if shape == "multiply":             # i -> param * i mod n, param coprime to n
        return tuple((param * i) % n for i in idn)
    if shape == "layered":              # increasing sequence of decreasing layers of size param
        out = []
        for lo in range(0, n, param):
            out.extend(range(min(n, lo + param) - 1, lo - 1, -1))
        return tuple(out)
    if shape == "first-then-decreasing":    # value param first, the rest decreasing
        return (param,) + tuple(v for v in range(n - 1, -1, -1) if v != param)
    if shape == "021+increasing":       # direct sum of 021 and a long increasing permutation
        return (0, 2, 1) + tuple(range(3, n))
    if shape == "102-decreasing":       # skew sum of 102 and a long decreasing permutation
        return (n - 2, n - 3, n - 1) + tuple(range(n - 4, -1, -1))
    raise ValueError(shape)


def perm_values(x):
    """spec[1] is either the list of entries or ["shape", n, shape, param]."""
    if len(x) and isinstance(x[0], str):
        return list(shape_values(x[1], x[2], x[3]))
    return list(x)


def resolved(spec):
    if spec[0] in ("basis", "meshbasis"):
        return [spec[0], [resolved(s) for s in spec[1]]] + list(spec[2:])
    return [spec[0], perm_values(spec[1])] + list(spec[2:])


def build(entry):
    L = lib()
    spec, variant = entry
    spec = resolved(spec)
    kind = spec[0]
    if kind == "basis":
        objs = [build([s, "plain"]) for s in spec[1]]
        return L.Basis(*(objs[::-1] if variant == "rev" else objs))
    if kind == "meshbasis":
        objs = [build([s, "plain"]) for s in spec[1]]
        return L.MeshBasis(*(objs[::-1] if variant == "rev" else objs))
    if kind == "perm":
        return build_perm(spec[1], variant)
    p = L.Perm(spec[1])
    if kind == "mesh":
        cells = [tuple(c) for c in spec[2]]
        if variant == "rev":
            return L.MeshPatt(p, cells[::-1])
        if variant == "fset":
            return L.MeshPatt(p, frozenset(cells[::-1]))
        if variant == "gen":
            return L.MeshPatt(p, (c for c in cells))
        return L.MeshPatt(p, cells)
    rev = variant == "rev"

    def arg(a):
        a = list(a)
        if variant == "set":
            return set(a)
        if variant == "fset":
            return frozenset(a[::-1])
        if variant == "gen":
            return (v for v in a[::-1])
        return a[::-1] if rev else a
    if kind == "biv":
        return L.Biv(p, arg(spec[2]), arg(spec[3]))
    if kind == "vinc":
        return L.Vinc(p, arg(spec[2]))
    if kind == "covinc":
        return L.Covinc(p, arg(spec[2]))
    raise ValueError(kind)


def try_build(part, entry, report=True):
    """build(); a library exception while constructing a universe entry is an observation."""
    try:
        return build(entry)
    except Exception as exc:  # noqa
        if report and part is not None:
            part.violation("build", {"entry": entry}, {"exception": repr(exc)})
        return None


_KEYS = {}


def key(entry):
    """Reference identity (memoised on the entry's text)."""
    r = repr(entry)
    k = _KEYS.get(r)
    if k is None:
        k = _KEYS[r] = _key(entry)
    return k


def _key(entry):
    spec = resolved(entry[0])
    kind = spec[0]
    if kind == "perm":
        return ("P", tuple(spec[1]))
    if kind == "basis":
        return ("B", frozenset(F.sem(s) for s in spec[1]))
    if kind == "meshbasis":
        return ("MB", frozenset(F.sem(s) for s in spec[1]))
    p, sh = F.sem(spec)
    return ("M", p, sh)


def family(k):
    return "BB" if k[0] in ("B", "MB") else k[0]


def twin_entries(entry):
    """Other ways to write the same value: same class rebuilt, and (for bivincular-type
    patterns and bases containing them) the plain mesh pattern with the same shading."""
    spec, variant = entry
    kind = spec[0]
    out = [[spec, variant], [spec, "rev" if variant != "rev" else "plain"]]
    if kind in ("biv", "vinc", "covinc"):
        p, sh = F.sem(spec)
        out.append([["mesh", list(p), F.cells_list(sh)], "plain"])
        out.append([["mesh", list(p), F.cells_list(sh)], "fset"])
    elif kind == "mesh":
        out.append([spec, "fset"])
        out.append([spec, "gen"])
    elif kind == "perm":
        out.append([spec, "list"])
        out.append([spec, "std"])
    elif kind == "meshbasis":
        plain = []
        for s in spec[1]:
            p, sh = F.sem(s)
            plain.append(["mesh", list(p), F.cells_list(sh)])
        out.append([["meshbasis", plain], "plain"])
        out.append([["meshbasis", plain], "rev"])
    return out


# --------------------------------------------------------------------------------------------
# the universe
# --------------------------------------------------------------------------------------------

def biv_type_specs(k, full_biv):
    out = []
    for p in R.perms(k):
        subsets = [list(a) for r in range(k + 2) for a in itertools.combinations(range(k + 1), r)]
        for a in subsets:
            out.append(["vinc", list(p), a])
            out.append(["covinc", list(p), a])
        if full_biv:
            for a in subsets:
                for b in subsets:
                    out.append(["biv", list(p), a, b])
        else:
            for i in range(k + 1):
                for v in range(k + 1):
                    out.append(["biv", list(p), [i], [v]])
            out.append(["biv", list(p), [], []])
            out.append(["biv", list(p), list(range(k + 1)), list(range(k + 1))])
    return out


def mesh_universe(quick):
    """Entries of mesh type."""
    ents = []
    for k in (0, 1):
        for p in R.perms(k):
            for sh in R.all_shadings(k):
                ents.append([["mesh", list(p), F.cells_list(sh)], "plain"])
    for p in R.perms(2):
        maxcells = 1 if quick else 2
        for r in range(maxcells + 1):
            for sh in itertools.combinations(R.all_cells(2), r):
                ents.append([["mesh", list(p), F.cells_list(sh)], "plain"])
        ents.append([["mesh", list(p), F.cells_list(R.all_cells(2))], "plain"])
    if not quick:
        for p in R.perms(3):
            ents.append([["mesh", list(p), []], "plain"])
            for c in R.all_cells(3):
                ents.append([["mesh", list(p), [list(c)]], "plain"])
            ents.append([["mesh", list(p), F.cells_list(R.all_cells(3))], "plain"])
    bivs = biv_type_specs(0, True) + biv_type_specs(1, True) + biv_type_specs(2, not quick)
    if not quick:
        for p in R.perms(3):
            for a in range(4):
                bivs.append(["vinc", list(p), [a]])
                bivs.append(["covinc", list(p), [a]])
                bivs.append(["biv", list(p), [a], [3 - a]])
    for s in bivs:
        ents.append([s, "plain"])
    # the plain mesh pattern with the same shading as each bivincular-type pattern (one per value)
    seen = set(key(e) for e in ents if e[0][0] == "mesh")
    for s in bivs:
        p, sh = F.sem(s)
        if ("M", p, sh) not in seen:
            seen.add(("M", p, sh))
            ents.append([["mesh", list(p), F.cells_list(sh)], "plain"])
    # construction variants of every entry with >= 2 cells of length <= 1, and of the length-2
    # bivincular-type patterns with two adjacencies
    extra = []
    for e in ents:
        p, sh = F.sem(e[0])
        if e[0][0] == "mesh" and len(sh) >= 2 and len(p) <= 1:
            extra.append([e[0], "rev"])
            extra.append([e[0], "fset"])
        if e[0][0] in ("vinc", "covinc") and len(e[0][2]) == 2:
            extra.append([e[0], "rev"])
    ents += extra
    ents.sort(key=lambda e: (F.spec_size(e[0]), e[1]))
    return ents


def perm_universe(quick):
    ents = []
    for p in R.perms_upto(4 if quick else 5):
        ents.append([["perm", list(p)], "plain"])
        if len(p) <= 3:
            for v in ("list", "gen", "std"):
                ents.append([["perm", list(p)], v])
    return ents


def basis_universe(quick):
    ents = [[["basis", []], "plain"], [["meshbasis", []], "plain"]]
    pool = [p for p in R.perms_upto(3)]
    for r in (1, 2):
        for ps in itertools.combinations(pool, r):
            sems = frozenset((p, frozenset()) for p in ps)
            if F.minimal(sems) != sems:
                continue
            spec = [["perm", list(p)] for p in ps]
            ents.append([["basis", spec], "plain"])
            if r == 2:
                ents.append([["basis", spec], "rev"])
            if r == 1 or not quick:
                ents.append([["meshbasis", spec], "plain"])
    mpool = F.deep_pool() if quick else F.sub_pool()
    for r in (1, 2):
        for ss in itertools.combinations(mpool, r):
            if all(F.is_classical(s) for s in ss):
                continue
            sems = frozenset(F.sem(s) for s in ss)
            if len(sems) != len(ss) or F.minimal(sems) != sems:
                continue
            ents.append([["meshbasis", list(ss)], "plain"])
            if r == 2:
                ents.append([["meshbasis", list(ss)], "rev"])
    return ents


_U = {}


def universe(quick):
    u = _U.get(quick)
    if u is None:
        u = _U[quick] = perm_universe(quick) + mesh_universe(quick) + basis_universe(quick)
    return u


# --------------------------------------------------------------------------------------------
# E1: pairs
# --------------------------------------------------------------------------------------------

OPS = ("lt", "le", "gt", "ge")


def observe_order(x, y):
    """The four order operators on real objects; an exception is an observation."""
    out = {}
    for name in OPS:
        try:
            if name == "lt":
                v = x < y
            elif name == "le":
                v = x <= y
            elif name == "gt":
                v = x > y
            else:
                v = x >= y
        except Exception as exc:  # noqa
            v = "exception: %r" % (exc,)
        out[name] = v
    return out


def check_pair(part, ex, ey, x, y):
    """All pair laws for (x, y) built from entries (ex, ey).  Returns (eq, lt) as observed
    (None when undefined / not applicable)."""
    kx, ky = key(ex), key(ey)
    fx, fy = family(kx), family(ky)
    case = {"x": ex, "y": ey}
    try:
        eq, eq_r = (x == y), (y == x)
        ne = (x != y)
        hx, hy = hash(x), hash(y)
    except Exception as exc:  # noqa
        part.violation("pairs:eq", case, {"exception": repr(exc)})
        return None, None
    if not (isinstance(eq, bool) and isinstance(ne, bool) and isinstance(eq_r, bool)):
        part.violation("pairs:eq", case, {"not_bool": [repr(eq), repr(eq_r), repr(ne)]})
        return None, None
    ref_eq = None                       # None: nothing demanded of ==
    if fx == fy:
        ref_eq = kx == ky
        if fx == "BB" and kx[0] != ky[0] and kx[1] == ky[1]:
            ref_eq = None               # Basis vs MeshBasis with the same elements: no demand
    else:
        if eq != eq_r:
            part.bump("crossfamily_asymmetric_eq_observed")
    if ref_eq is not None:
        if eq != ref_eq or eq_r != ref_eq:
            part.violation("pairs:eq", case, {"expected": ref_eq, "x==y": eq, "y==x": eq_r})
            return None, None
        if ne != (not eq):
            part.violation("pairs:ne", case, {"x==y": eq, "x!=y": ne})
    if (eq or eq_r) and hx != hy:
        part.violation("pairs:hash", case, {"x==y": eq, "y==x": eq_r, "hash_x": hx, "hash_y": hy})
    # membership
    try:
        in_set = x in {y}
        in_fset = x in frozenset([y])
        d = {y: 1}
        in_dict = x in d
        got = d.get(x)
        in_list = x in [y]
    except Exception as exc:  # noqa
        part.violation("pairs:lookup", case, {"exception": repr(exc)})
        return eq, None
    if ref_eq is not None:
        want = [ref_eq, ref_eq, ref_eq, 1 if ref_eq else None, ref_eq]
        if [in_set, in_fset, in_dict, got, in_list] != want:
            part.violation("pairs:lookup", case,
                           {"x==y": eq, "x in {y}": in_set, "x in frozenset([y])": in_fset,
                            "x in {y:1}": in_dict, "{y:1}.get(x)": got, "x in [y]": in_list})
    lt = None
    if fx == fy and fx in ("P", "M"):
        o = observe_order(x, y)
        m = observe_order(y, x)
        bad = [n for n in OPS if not isinstance(o[n], bool)] + \
              ["mirror " + n for n in OPS if not isinstance(m[n], bool)]
        if bad:
            part.violation("pairs:order-defined", case, {"x?y": o, "y?x": m})
            return eq, None
        lt = o["lt"]
        problems = []
        if [o["lt"], eq, o["gt"]].count(True) != 1:
            problems.append("not exactly one of <, ==, >")
        if o["le"] != (o["lt"] or eq):
            problems.append("<= is not (< or ==)")
        if o["ge"] != (o["gt"] or eq):
            problems.append(">= is not (> or ==)")
        if o["lt"] != m["gt"] or o["gt"] != m["lt"] or o["le"] != m["ge"] or o["ge"] != m["le"]:
            problems.append("x<y differs from y>x (mirror law)")
        if fx == "P":
            a, b = kx[1], ky[1]
            if o["lt"] != ((len(a), a) < (len(b), b)):
                problems.append("not the (length, entries) order")
        if problems:
            part.violation("pairs:order", case, {"problems": problems, "x?y": o, "y?x": m,
                                                 "x==y": eq})
    return eq, lt


def shard_pairs(shard):
    quick, lo, hi = shard
    U = universe(quick)
    part = Partial()
    objs = [try_build(part, e, report=False) for e in U]
    # x is a different object than y even when i == j
    fresh = [try_build(part, e) for e in U[lo:hi]]
    rows = []
    for off, i in enumerate(range(lo, hi)):
        x = fresh[off]
        eqrow = 0
        ltrow = 0
        if x is None:
            rows.append((i, 0, 0))
            continue
        for j, y in enumerate(objs):
            if y is None:
                continue
            eq, lt = check_pair(part, U[i], U[j], x, y)
            if eq:
                eqrow |= 1 << j
            if lt:
                ltrow |= 1 << j
            ki, kj = key(U[i]), key(U[j])
            part.add(1, 1 if (i != j and ki == kj and U[i] != U[j]) else 0)
            if ki == kj and i != j:
                part.bump("equal_pairs_of_distinct_entries")
                if U[i][0][0] != U[j][0][0]:
                    part.bump("equal_pairs_across_classes")
        # the very same object
        check_pair(part, U[i], U[i], objs[i], objs[i])
        part.add(1, 0)
        rows.append((i, eqrow, ltrow))
    if lo == 0:
        part.sample({"x": U[len(U) // 2], "y": U[len(U) // 2 + 1]}, cap=1)
    return part, rows


def check_triples(ctx, quick, rows):
    """Transitivity over all triples on the observed matrices (bitset inclusion)."""
    U = universe(quick)
    n = len(U)
    EQ = [0] * n
    LT = [0] * n
    for i, e, l in rows:
        EQ[i], LT[i] = e, l
    fams = [family(key(e)) for e in U]
    bad = []
    for i in range(n):
        # == transitive within a family: every j equal to i must have the same equality row
        # restricted to the family
        fam_mask = sum(1 << j for j in range(n) if fams[j] == fams[i])
        row = EQ[i] & fam_mask
        m = row
        while m:
            j = (m & -m).bit_length() - 1
            m &= m - 1
            if (EQ[j] & fam_mask) & ~row:
                k = (((EQ[j] & fam_mask) & ~row) & -((EQ[j] & fam_mask) & ~row)).bit_length() - 1
                bad.append(("eq", i, j, k))
        if fams[i] in ("P", "M"):
            m = LT[i] & fam_mask
            while m:
                j = (m & -m).bit_length() - 1
                m &= m - 1
                missing = (LT[j] & fam_mask) & ~LT[i]      # j<k but not i<k
                if missing:
                    k = (missing & -missing).bit_length() - 1
                    bad.append(("lt", i, j, k))
    nfam = {}
    for f in fams:
        nfam[f] = nfam.get(f, 0) + 1
    ntr = sum(v ** 3 for v in nfam.values())
    ctx.bump("triples_decided_on_observed_relations", ntr)
    for what, i, j, k in bad[:20]:
        check_triple(ctx, what, U[i], U[j], U[k], observed=True)
    return ntr


def check_triple(part, what, ea, eb, ec, observed=False):
    """Re-execute one triple on real objects."""
    a, b, c = build(ea), build(eb), build(ec)
    case = {"law": what, "x": ea, "y": eb, "z": ec}
    try:
        if what == "eq":
            r = [a == b, b == c, a == c]
        else:
            r = [a < b, b < c, a < c]
    except Exception as exc:  # noqa
        part.violation("triples", case, {"exception": repr(exc)})
        return
    if r[0] and r[1] and not r[2]:
        part.violation("triples", case, {"x?y": r[0], "y?z": r[1], "x?z": r[2]})
    elif observed:
        part.violation("triples", case, {"note": "failed on the observed matrices but not when "
                                                 "re-executed: the relation is not a function of "
                                                 "the values", "now": r})


# --------------------------------------------------------------------------------------------
# E1: sorted, sets
# --------------------------------------------------------------------------------------------

def key_seq(U, idxs):
    return [key(U[i]) for i in idxs]


def shard_sorted3(shard):
    quick, sub, lo, hi = shard
    U = universe(quick)
    part = Partial()
    objs = {i: try_build(part, U[i], report=False) for i in sub}
    sub = [i for i in sub if objs[i] is not None]
    pos = {id(o): i for i, o in objs.items() if o is not None}
    for a in [i for i in sub if i in set(shard[1][lo:hi])]:
        for b, c in itertools.combinations([i for i in sub if i > a], 2):
            first = None
            for order in itertools.permutations((a, b, c)):
                try:
                    res = sorted(objs[i] for i in order)
                    ks = [key(U[pos[id(o)]]) for o in res]
                    ok = not (res[1] < res[0]) and not (res[2] < res[1])
                except Exception as exc:  # noqa
                    part.violation("sorted:3", {"entries": [U[i] for i in order]},
                                   {"exception": repr(exc)})
                    break
                if first is None:
                    first = ks
                if ks != first or not ok:
                    part.violation("sorted:3", {"entries": [U[i] for i in order]},
                                   {"first_order_gives": [list(map(repr, first))],
                                    "this_order_gives": [list(map(repr, ks))],
                                    "nondecreasing": ok})
                    break
            ka, kb, kc = key(U[a]), key(U[b]), key(U[c])
            part.add(6, 1 if len({ka, kb, kc}) == 3 else 0)
    return part


def rotations(seq, k):
    seq = list(seq)
    n = len(seq)
    out = [seq, seq[::-1]]
    for r in range(1, k):
        s = (r * n) // k
        out.append(seq[s:] + seq[:s])
        out.append((seq[s:] + seq[:s])[::-1])
    # a riffle: evens then odds
    out.append(seq[::2] + seq[1::2])
    return out


def check_sorted_all(part, quick, fam):
    U = universe(quick)
    idx = [i for i, e in enumerate(U) if family(key(e)) == fam]
    objs = {i: try_build(part, U[i], report=False) for i in idx}
    idx = [i for i in idx if objs[i] is not None]
    pos = {id(o): i for i, o in objs.items() if o is not None}
    first = None
    for n, order in enumerate(rotations(idx, 8)):
        case = {"family": fam, "arrangement": n}
        try:
            res = sorted(objs[i] for i in order)
            ks = [key(U[pos[id(o)]]) for o in res]
            mn, mx = min(objs[i] for i in order), max(objs[i] for i in order)
            nondecr = all(not (res[t + 1] < res[t]) for t in range(len(res) - 1))
        except Exception as exc:  # noqa
            part.violation("sorted:all", case, {"exception": repr(exc)})
            return
        if first is None:
            first = ks
        problems = []
        if ks != first:
            t = next(t for t in range(len(ks)) if ks[t] != first[t])
            problems.append("position %d: %r vs %r" % (t, ks[t], first[t]))
        if not nondecr:
            problems.append("result not non-decreasing")
        if key(U[pos[id(mn)]]) != ks[0] or key(U[pos[id(mx)]]) != ks[-1]:
            problems.append("min/max differ from the ends of sorted()")
        if fam == "P" and [k[1] for k in ks] != sorted((k[1] for k in ks),
                                                       key=lambda t: (len(t), t)):
            problems.append("not in (length, entries) order")
        if problems:
            part.violation("sorted:all", case, {"problems": problems})
            return
        part.add(1, 1)


def check_sets(part, quick, fam):
    """Sets / dicts of a whole family in several insertion orders."""
    U = universe(quick)
    idx = [i for i, e in enumerate(U) if key(e)[0] == fam]
    distinct = len(set(key(U[i]) for i in idx))
    for n, order in enumerate(rotations(idx, 4)):
        case = {"family": fam, "arrangement": n}
        try:
            objs = [(i, build(U[i])) for i in order]
            s = set(o for _, o in objs)
            d = {}
            for i, o in objs:
                d.setdefault(o, key(U[i]))
            if len(s) != distinct or len(d) != distinct:
                part.violation("sets", case, {"distinct_values": distinct, "len(set)": len(s),
                                              "len(dict)": len(d)})
                return
            for i in idx:
                for t in twin_entries(U[i]):
                    o = build(t)
                    if o not in s or o not in d or d[o] != key(U[i]):
                        part.violation("sets", dict(case, entry=U[i], written_as=t),
                                       {"in_set": o in s, "in_dict": o in d,
                                        "found_value": repr(d.get(o))})
                        return
                    part.add(1, 1 if t != U[i] else 0)
        except Exception as exc:  # noqa
            part.violation("sets", case, {"exception": repr(exc)})
            return


def shard_misc(shard):
    what, quick, fam = shard
    part = Partial()
    if what == "sorted_all":
        check_sorted_all(part, quick, fam)
    else:
        check_sets(part, quick, fam)
    return part


# --------------------------------------------------------------------------------------------
# E1: permutation order
# --------------------------------------------------------------------------------------------

def shard_perm_order(shard):
    n, lo, hi = shard
    L = lib()
    part = Partial()
    ps = R.perms_upto(n)
    objs = [L.Perm(p) for p in ps]
    for i in range(lo, hi):
        a = ps[i]
        x = L.Perm(a)
        for b, y in zip(ps, objs):
            ra, rb = (len(a), a), (len(b), b)
            want = {"lt": ra < rb, "le": ra <= rb, "gt": ra > rb, "ge": ra >= rb}
            got = observe_order(x, y)
            try:
                eq, hh = (x == y), (hash(x) == hash(y))
            except Exception as exc:  # noqa
                eq, hh = repr(exc), None
            if got != want or eq != (a == b) or (eq is True and not hh):
                part.violation("perm_order", {"x": list(a), "y": list(b)},
                               {"expected": want, "got": got, "x==y": eq, "hash_equal": hh})
            part.add(1, 1 if (len(a) == len(b) and a != b) else 0)
    if lo == 0:
        for arr, order in enumerate(rotations(range(len(ps)), 6)):
            try:
                res = [tuple(p) for p in sorted(objs[i] for i in order)]
            except Exception as exc:  # noqa
                part.violation("perm_order", {"sorted_arrangement": arr, "n": n},
                               {"exception": repr(exc)})
                continue
            if res != ps:
                t = next(t for t in range(len(ps)) if res[t] != ps[t])
                part.violation("perm_order", {"sorted_arrangement": arr, "n": n},
                               {"position": t, "got": list(res[t]), "expected": list(ps[t])})
            part.add(1, 1)
    return part


# --------------------------------------------------------------------------------------------
# E1: construction routes
# --------------------------------------------------------------------------------------------
# One VALUE, many ways to obtain an object denoting it.  All objects obtained for one value must
# be indistinguishable through ==, hash, set/dict lookup (both ways) and the order operators, and
# so must the bases built from them.  A route is a JSON-able descriptor.

def cell_orders(cells):
    """Orders in which the shaded cells are handed over: every order for <= 3 cells; beyond
    that sorted, reversed, every rotation of the sorted list and evens-then-odds."""
    cells = sorted(cells)
    k = len(cells)
    if k <= 3:
        return [list(o) for o in itertools.permutations(cells)]
    out = [cells, cells[::-1]]
    for r in range(1, k):
        out.append(cells[r:] + cells[:r])
    out.append(cells[::2] + cells[1::2])
    return out


ROUND_TRIPS = ("reverse2", "complement2", "inverse2", "rotate1x4", "rotate2x2", "rotate3+1",
               "rotate-1+1", "reverse.complement.rotate2", "flip_h2", "flip_v2", "flip_d2")


def mesh_routes(value):
    p, sh = value
    n = len(p)
    cells = sorted(sh)
    routes = [["cells", [list(c) for c in o]] for o in cell_orders(cells)]
    for cont in ("frozenset", "set", "generator", "tuple", "frozenset-of-reversed", "dict-keys"):
        routes.append(["container", cont])
    for rt in ROUND_TRIPS:
        routes.append(["roundtrip", rt])
    routes.append(["unrank"])
    routes.append(["submesh-all"])
    routes.append(["shade-all-reversed"])
    if cells:
        routes.append(["shade-first-last"])
    subsets = [list(a) for r in range(n + 2) for a in itertools.combinations(range(n + 1), r)]
    for a in subsets:
        for b in subsets:
            if F.sem(["biv", list(p), a, b])[1] == sh:
                routes.append(["biv", a, b])
                if len(a) > 1 or len(b) > 1:
                    routes.append(["biv", a[::-1], b[::-1]])
                if not b:
                    routes.append(["vinc", a])
                    if len(a) > 1:
                        routes.append(["vinc", a[::-1]])
                if not a:
                    routes.append(["covinc", b])
                    if len(b) > 1:
                        routes.append(["covinc", b[::-1]])
    return routes


def build_mesh_route(value, route):
    L = lib()
    p, sh = value
    P = L.Perm(p)
    n = len(p)
    cells = sorted(sh)
    kind = route[0]
    if kind == "cells":
        return L.MeshPatt(P, [tuple(c) for c in route[1]])
    if kind == "container":
        c = route[1]
        if c == "frozenset":
            return L.MeshPatt(P, frozenset(cells))
        if c == "set":
            return L.MeshPatt(P, set(cells[::-1]))
        if c == "generator":
            return L.MeshPatt(P, (x for x in cells[::-1]))
        if c == "tuple":
            return L.MeshPatt(P, tuple(cells[::-1]))
        if c == "frozenset-of-reversed":
            return L.MeshPatt(P, frozenset(cells[::-1]))
        return L.MeshPatt(P, dict.fromkeys(cells[::-1]).keys())
    if kind == "roundtrip":
        m = L.MeshPatt(P, cells)
        t = route[1]
        if t == "reverse2":
            return m.reverse().reverse()
        if t == "complement2":
            return m.complement().complement()
        if t == "inverse2":
            return m.inverse().inverse()
        if t == "rotate1x4":
            return m.rotate().rotate().rotate().rotate()
        if t == "rotate2x2":
            return m.rotate(2).rotate(2)
        if t == "rotate3+1":
            return m.rotate(3).rotate(1)
        if t == "rotate-1+1":
            return m.rotate(-1).rotate(1)
        if t == "reverse.complement.rotate2":
            return m.reverse().complement().rotate(2)
        if t == "flip_h2":
            return m.flip_horizontal().flip_horizontal()
        if t == "flip_v2":
            return m.flip_vertical().flip_vertical()
        if t == "flip_d2":
            return m.flip_diagonal().flip_diagonal()
        raise ValueError(t)
    if kind == "unrank":
        return L.MeshPatt.unrank(P, sum(1 << (x * (n + 1) + y) for x, y in cells))
    if kind == "submesh-all":
        return L.MeshPatt(P, cells).sub_mesh_pattern(range(n))
    if kind == "shade-all-reversed":
        return L.MeshPatt(P, []).shade(*cells[::-1])
    if kind == "shade-first-last":
        return L.MeshPatt(P, cells[1:]).shade(cells[0])
    if kind == "biv":
        return L.Biv(P, list(route[1]), list(route[2]))
    if kind == "vinc":
        return L.Vinc(P, list(route[1]))
    if kind == "covinc":
        return L.Covinc(P, list(route[1]))
    raise ValueError(kind)


def perm_routes(p):
    return [["tuple"], ["list"], ["generator"], ["to_standard"], ["reverse2"], ["complement2"],
            ["inverse2"], ["rotate1x4"], ["from_string"], ["one_based"], ["unrank"],
            ["meshpatt.pattern"], ["get_perm"]]


def build_perm_route(p, route):
    L = lib()
    k = route[0]
    if k == "tuple":
        return L.Perm(tuple(p))
    if k == "list":
        return L.Perm(list(p))
    if k == "generator":
        return L.Perm(v for v in p)
    if k == "to_standard":
        return L.Perm.to_standard([5 * v + 1 for v in p])
    if k == "reverse2":
        return L.Perm(p).reverse().reverse()
    if k == "complement2":
        return L.Perm(p).complement().complement()
    if k == "inverse2":
        return L.Perm(p).inverse().inverse()
    if k == "rotate1x4":
        return L.Perm(p).rotate().rotate().rotate().rotate()
    if k == "from_string":
        return L.Perm.from_string("".join(map(str, p))) if p else L.Perm.from_string("\u03b5")
    if k == "one_based":
        return L.Perm.one_based([v + 1 for v in p])
    if k == "unrank":
        return L.Perm.unrank(L.Perm(p).rank())
    if k == "meshpatt.pattern":
        return L.MeshPatt(L.Perm(p), [(0, 0)]).pattern
    if k == "get_perm":
        return L.MeshPatt(L.Perm(p), []).get_perm()
    raise ValueError(k)


def route_values(quick):
    """The mesh values whose routes are explored: every shading of length <= 1, every shading
    with <= 3 cells of length 2, every bivincular-type shading of length <= 2, the full shading;
    thorough: also <= 4 cells of length 2 and <= 2 cells / one-adjacency shadings of length 3."""
    vals = []
    seen = set()

    def add(p, sh):
        v = (tuple(p), frozenset(sh))
        if v not in seen:
            seen.add(v)
            vals.append(v)
    for k in (0, 1):
        for p in R.perms(k):
            for sh in R.all_shadings(k):
                add(p, sh)
    for p in R.perms(2):
        for r in range(0, (3 if quick else 4) + 1):
            for sh in itertools.combinations(R.all_cells(2), r):
                add(p, sh)
        add(p, R.all_cells(2))
    for k in (0, 1, 2):
        for s in biv_type_specs(k, True):
            add(*F.sem(s))
    if not quick:
        for p in R.perms(3):
            for r in range(0, 3):
                for sh in itertools.combinations(R.all_cells(3), r):
                    add(p, sh)
            for a in range(4):
                add(*F.sem(["vinc", list(p), [a]]))
                add(*F.sem(["covinc", list(p), [a]]))
                add(*F.sem(["biv", list(p), [a], [3 - a]]))
    return vals


def route_probes():
    """Objects every route object is compared with (order operators): one plainly built object
    for every shading of length <= 1 and every <= 1-cell shading of length 2, plus the
    one-adjacency (co)vincular patterns of length 2."""
    L = lib()
    out = []
    for k in (0, 1):
        for p in R.perms(k):
            for sh in R.all_shadings(k):
                out.append(L.MeshPatt(L.Perm(p), sorted(sh)))
    for p in R.perms(2):
        out.append(L.MeshPatt(L.Perm(p), []))
        for c in R.all_cells(2):
            out.append(L.MeshPatt(L.Perm(p), [c]))
        for a in range(3):
            out.append(L.Vinc(L.Perm(p), [a]))
            out.append(L.Covinc(L.Perm(p), [a]))
    return out


def check_group(part, what, value_desc, routes, objs, probes, ordered):
    """objs[i] was obtained through routes[i]; all denote the same value.  Every ordered pair:
    ==, !=, hash, lookups both ways; with `ordered`: order operators within the group and
    identical answers against every probe."""
    m = len(objs)
    try:
        hashes = [hash(o) for o in objs]
    except Exception as exc:  # noqa
        part.violation("routes:hash", {"what": what, "value": value_desc}, {"exception": repr(exc)})
        return 0
    nontrivial = 0
    for i in range(m):
        a = objs[i]
        for j in range(m):
            b = objs[j]
            case = {"what": what, "value": value_desc, "a": routes[i], "b": routes[j]}
            try:
                eq, ne = (a == b), (a != b)
                if eq is not True or ne is not False:
                    part.violation("routes:eq", case, {"a==b": eq, "a!=b": ne,
                                                       "a": repr(a), "b": repr(b)})
                    continue
                if hashes[i] != hashes[j]:
                    part.violation("routes:hash", case, {"hash_a": hashes[i], "hash_b": hashes[j],
                                                         "a": repr(a), "b": repr(b)})
                    continue
                d = {b: 1}
                if not (a in {b} and a in frozenset((b,)) and a in d and d.get(a) == 1):
                    part.violation("routes:lookup", case, {"a in {b}": a in {b},
                                                           "{b:1}.get(a)": d.get(a)})
                    continue
                if ordered:
                    o = [a < b, a <= b, a > b, a >= b]
                    if o != [False, True, False, True]:
                        part.violation("routes:order", case, {"[a<b, a<=b, a>b, a>=b]": o})
                        continue
            except Exception as exc:  # noqa
                part.violation("routes:exception", case, {"exception": repr(exc)})
                continue
            if i != j:
                nontrivial += 1
    # one set / dict of the whole group, in both directions of insertion
    try:
        for seq in (objs, objs[::-1]):
            if len(set(seq)) != 1 or len(dict.fromkeys(seq)) != 1:
                part.violation("routes:lookup", {"what": what, "value": value_desc,
                                                 "a": routes[0], "b": routes[-1]},
                               {"len(set(all routes))": len(set(seq))})
                break
    except Exception as exc:  # noqa
        part.violation("routes:exception", {"what": what, "value": value_desc,
                                            "a": routes[0], "b": routes[-1]},
                       {"exception": repr(exc)})
    if ordered and probes:
        try:
            ref = None
            for i, a in enumerate(objs):
                row = [(a < q, a <= q, q < a, q <= a, a == q) for q in probes]
                if ref is None:
                    ref = row
                elif row != ref:
                    t = next(t for t in range(len(row)) if row[t] != ref[t])
                    part.violation("routes:order", {"what": what, "value": value_desc,
                                                    "a": routes[0], "b": routes[i], "probe": t},
                                   {"probe": repr(probes[t]),
                                    "[x<q, x<=q, q<x, q<=x, x==q] via a": ref[t], "via b": row[t]})
                    break
        except Exception as exc:  # noqa
            part.violation("routes:exception", {"what": what, "value": value_desc,
                                                "a": routes[0], "b": routes[0]},
                           {"exception": repr(exc)})
    return nontrivial


def build_routes(part, what, value, value_desc, routes, builder, same_value):
    """Objects for all routes; a route whose object does not denote the value (symmetry or
    unrank misbehaving: the business of C04/C09) is counted and left out."""
    objs, kept = [], []
    for r in routes:
        try:
            o = builder(value, r)
        except Exception as exc:  # noqa
            part.violation("routes:exception", {"what": what, "value": value_desc, "a": r, "b": r},
                           {"exception": repr(exc)})
            continue
        if not same_value(o):
            part.bump("routes_not_denoting_the_value")
            continue
        objs.append(o)
        kept.append(r)
    return objs, kept


def mesh_value_desc(v):
    return [list(v[0]), F.cells_list(v[1])]


def check_mesh_value(part, v, probes):
    L = lib()
    desc = mesh_value_desc(v)
    objs, routes = build_routes(
        part, "pattern", v, desc, mesh_routes(v), build_mesh_route,
        lambda o: (tuple(o.pattern), frozenset(tuple(c) for c in o.shading)) == v)
    nt = check_group(part, "pattern", desc, routes, objs, probes, True)
    n = len(objs) ** 2
    # the one-element mesh basis of every route object, and its rebuilt copy
    try:
        bases = [L.MeshBasis(o) for o in objs]
        bases += [L.MeshBasis(*bases[0]), L.MeshBasis.from_iterable(iter([objs[-1], objs[0]]))]
        broutes = routes + [["basis-of-basis"], ["from_iterable-last-first"]]
    except Exception as exc:  # noqa
        part.violation("routes:exception", {"what": "meshbasis", "value": desc,
                                            "a": routes[0], "b": routes[0]},
                       {"exception": repr(exc)})
        return n, nt
    nt += check_group(part, "meshbasis", desc, broutes, bases, None, False)
    n += len(bases) ** 2
    return n, nt


def shard_routes_mesh(shard):
    quick, lo, hi = shard
    part = Partial()
    vals = route_values(quick)
    probes = route_probes()
    for v in vals[lo:hi]:
        n, nt = check_mesh_value(part, v, probes)
        part.add(n, nt)
        part.bump("route_values")
    if lo == 0:
        part.sample({"value": mesh_value_desc(vals[min(len(vals) - 1, 40)]),
                     "routes": mesh_routes(vals[min(len(vals) - 1, 40)])[:8]}, cap=1)
    return part


def pair_values(quick):
    """Pairs of incomparable mesh values for two-element bases: the values of the deep pool
    (thorough: sub pool) of mc/ref_c05.py with 1..3 cells."""
    pool = F.deep_pool() if quick else F.sub_pool()
    vals = []
    for s in pool:
        v = F.sem(s)
        if 1 <= len(v[1]) <= 3 and v not in vals:
            vals.append(v)
    out = []
    for a, b in itertools.combinations(vals, 2):
        if F.minimal(frozenset([a, b])) == frozenset([a, b]):
            out.append((a, b))
    return out


def check_pair_value(part, a, b):
    """Two-element mesh bases: every cell order of a x every cell order of b x both argument
    orders, plus the bivincular-type constructors where they exist."""
    L = lib()
    desc = [mesh_value_desc(a), mesh_value_desc(b)]
    ra = [r for r in mesh_routes(a) if r[0] in ("cells", "biv", "vinc", "covinc")] + \
        [["roundtrip", "reverse2"]]
    rb = [r for r in mesh_routes(b) if r[0] in ("cells", "biv", "vinc", "covinc")] + \
        [["roundtrip", "reverse2"]]
    bases, routes = [], []
    try:
        for x in ra:
            for y in rb:
                oa, ob = build_mesh_route(a, x), build_mesh_route(b, y)
                bases.append(L.MeshBasis(oa, ob))
                routes.append([x, y, "a,b"])
                bases.append(L.MeshBasis(ob, oa))
                routes.append([x, y, "b,a"])
    except Exception as exc:  # noqa
        part.violation("routes:exception", {"what": "meshbasis2", "value": desc,
                                            "a": routes[-1] if routes else None, "b": None},
                       {"exception": repr(exc)})
        return 0, 0
    nt = check_group(part, "meshbasis2", desc, routes, bases, None, False)
    return len(bases) ** 2, nt


def shard_routes_pairs(shard):
    quick, lo, hi = shard
    part = Partial()
    for a, b in pair_values(quick)[lo:hi]:
        n, nt = check_pair_value(part, a, b)
        part.add(n, nt)
        part.bump("route_value_pairs")
    return part


def classical_route_sets():
    pool = R.perms_upto(3)
    out = []
    for r in (1, 2):
        for ps in itertools.combinations(pool, r):
            sems = frozenset((p, frozenset()) for p in ps)
            if F.minimal(sems) == sems:
                out.append(ps)
    return out


def check_classical_routes(part, quick):
    """Permutations (S<=4, thorough S<=5) along 13 routes; classical bases (antichains of <= 2
    patterns of S<=3) through constructor orders, from_iterable and the two text forms."""
    L = lib()
    for p in R.perms_upto(4 if quick else 5):
        routes = perm_routes(p)
        objs, kept = build_routes(part, "perm", p, list(p), routes, build_perm_route,
                                  lambda o: tuple(o) == tuple(p))
        nt = check_group(part, "perm", list(p), kept, objs, None, True)
        part.add(len(objs) ** 2, nt)
    for ps in classical_route_sets():
        desc = [list(p) for p in ps]
        try:
            objs = [L.Perm(p) for p in ps]
            bases = [L.Basis(*objs), L.Basis(*objs[::-1]), L.Basis.from_iterable(iter(objs)),
                     L.Basis(*[build_perm_route(p, ["inverse2"]) for p in ps]),
                     L.Basis(*[build_perm_route(p, ["to_standard"]) for p in ps])]
            routes = [["ctor"], ["ctor-reversed"], ["from_iterable"], ["ctor-of-inverse2"],
                      ["ctor-of-to_standard"]]
            if all(len(p) for p in ps):
                bases.append(L.Basis.from_string(" ".join(F.text0(p) for p in ps)))
                bases.append(L.Basis.from_string(", ".join(F.text1(p) for p in ps[::-1])))
                routes += [["from_string-0"], ["from_string-1-reversed"]]
        except Exception as exc:  # noqa
            part.violation("routes:exception", {"what": "basis", "value": desc, "a": None,
                                                "b": None}, {"exception": repr(exc)})
            continue
        nt = check_group(part, "basis", desc, routes, bases, None, False)
        part.add(len(bases) ** 2, nt)


def shard_routes_classical(shard):
    part = Partial()
    check_classical_routes(part, shard[0])
    return part


def replay_routes(ctx, case):
    what, value = case["what"], case["value"]
    if what in ("pattern", "meshbasis"):
        v = (tuple(value[0]), frozenset(tuple(c) for c in value[1]))
        check_mesh_value(ctx, v, route_probes())
    elif what == "meshbasis2":
        a, b = [(tuple(x[0]), frozenset(tuple(c) for c in x[1])) for x in value]
        check_pair_value(ctx, a, b)
    else:
        check_classical_routes(ctx, True)


# --------------------------------------------------------------------------------------------
# E1: scale - sparse, fully enumerated structured family at sizes straddling runtime thresholds
# --------------------------------------------------------------------------------------------
# small-int cache (257), set table sizes (8, 32), byte sizes (256); shapes with an obvious
# definition so that the (length, entries) reference is immediate.

SCALE_SIZES_QUICK = (7, 8, 9, 10, 11, 12, 31, 32, 33, 34, 255, 256, 257, 258, 300)
SCALE_SIZES_THOROUGH = SCALE_SIZES_QUICK + (511, 512, 513, 1000)


def scale_shapes(n):
    import math
    out = [("identity", 0), ("reverse", 0), ("021+increasing", 0), ("102-decreasing", 0)]
    for i in (0, 1, 2, n - 4, n - 3, n - 2):
        out.append(("id-swap", i))
        out.append(("rev-swap", i))
    for r in (1, 2, n // 2, n - 1):
        out.append(("rotation", r))
    for k in (2, 3, 5, 7):
        if math.gcd(k, n) == 1:
            out.append(("multiply", k))
    out += [("layered", 2), ("layered", 3)]
    for q in (0, 1, n - 1):
        out.append(("first-then-decreasing", q))
    # distinct values only
    seen, res = set(), []
    for sh, par in out:
        v = shape_values(n, sh, par)
        assert R.is_perm(v), (n, sh, par)
        if v not in seen:
            seen.add(v)
            res.append((sh, par))
    return res


def scale_perm_entries(quick):
    ents = []
    for n in (SCALE_SIZES_QUICK if quick else SCALE_SIZES_THOROUGH):
        for sh, par in scale_shapes(n):
            ents.append([["perm", ["shape", n, sh, par]], "plain"])
        # the same value along other routes (equal objects must not be distinguished)
        for sh, par in (("identity", 0), ("id-swap", n - 2), ("rotation", 1)):
            for variant in (("gen", "std", "inverse2") if quick else
                            ("list", "gen", "std", "inverse2", "reverse2")):
                ents.append([["perm", ["shape", n, sh, par]], variant])
    return ents


def scale_mesh_entries(quick):
    """Mesh-type patterns over long permutations (their order rests on the order of the
    permutations) and adjacency sets containing values >= 8 / >= 32 in several input forms."""
    ents = []
    for n in ((9, 33, 257) if quick else (9, 10, 33, 34, 256, 257, 258)):
        for sh, par in ((("identity", 0), ("reverse", 0), ("id-swap", n - 2)) if quick else
                        (("identity", 0), ("reverse", 0), ("id-swap", 0), ("id-swap", n - 2))):
            P = ["shape", n, sh, par]
            for cells in ([], [[0, 0]], [[n, n]], [[n - 1, 8 if n > 8 else 0]],
                          [[0, 0], [n, n]]):
                ents.append([["mesh", P, cells], "plain"])
            ents.append([["mesh", P, [[0, 0], [n, n]]], "rev"])
            for adj in (([n - 1], [0, 8, n]) if quick else ([n - 1], [1, n - 1], [0, 8, n])):
                for variant in ("plain", "rev", "set", "fset", "gen"):
                    ents.append([["vinc", P, adj], variant])
                ents.append([["covinc", P, adj], "plain"])
                ents.append([["covinc", P, adj], "set"])
            ents.append([["biv", P, [1, n - 1], [0, 8]], "plain"])
            ents.append([["biv", P, [1, n - 1], [0, 8]], "set"])
    return ents


_SCALE = {}


def scale_universe(quick):
    u = _SCALE.get(quick)
    if u is None:
        u = _SCALE[quick] = scale_perm_entries(quick) + scale_mesh_entries(quick)
    return u


def shard_scale_pairs(shard):
    quick, lo, hi = shard
    U = scale_universe(quick)
    part = Partial()
    objs = [try_build(part, e, report=False) for e in U]
    keys = [key(e) for e in U]
    for i in range(lo, hi):
        x = try_build(part, U[i])
        if x is None:
            continue
        for j, y in enumerate(objs):
            if y is None or family(keys[i]) != family(keys[j]):
                continue
            check_pair(part, U[i], U[j], x, y)
            part.add(1, 1 if (keys[i] == keys[j] and i != j) or
                     (keys[i][0] == "P" and len(keys[i][1]) == len(keys[j][1]) and i != j) else 0)
    return part


def check_scale_sorted(part, quick):
    """sorted()/min()/max() of all scale permutations from several arrangements against the
    (length, entries) reference; Basis of all shapes of one length (<= 300) from several
    arrangements: one canonical tuple, in reference order."""
    L = lib()
    U = [e for e in scale_universe(quick) if e[0][0] == "perm" and e[1] == "plain"]
    vals = [key(e)[1] for e in U]
    want = sorted(vals, key=lambda t: (len(t), t))
    for arr, order in enumerate(rotations(range(len(U)), 6)):
        case = {"what": "sorted", "quick": quick, "arrangement": arr}
        try:
            objs = [build(U[i]) for i in order]
            got = [tuple(o) for o in sorted(objs)]
            mn, mx = tuple(min(objs)), tuple(max(objs))
        except Exception as exc:  # noqa
            part.violation("scale:sorted", case, {"exception": repr(exc)})
            continue
        if got != want or mn != want[0] or mx != want[-1]:
            t = next((t for t in range(len(want)) if got[t] != want[t]), None)
            part.violation("scale:sorted", case,
                           {"first_difference_at": t,
                            "got_length": None if t is None else len(got[t]),
                            "expected_length": None if t is None else len(want[t]),
                            "min_ok": mn == want[0], "max_ok": mx == want[-1]})
        part.add(1, 1)
    sizes = [n for n in (SCALE_SIZES_QUICK if quick else SCALE_SIZES_THOROUGH) if n <= 300]
    for n in sizes:
        ents = [e for e in U if e[0][1][1] == n]
        wantn = sorted((key(e)[1] for e in ents))
        first = None
        for arr, order in enumerate(rotations(range(len(ents)), 3)):
            case = {"what": "basis", "quick": quick, "n": n, "arrangement": arr}
            try:
                b = L.Basis(*[build(ents[i]) for i in order])
                got = [tuple(e) for e in b]
                if got != wantn:
                    part.violation("scale:basis", case,
                                   {"elements": len(got), "expected_elements": len(wantn),
                                    "in_reference_order": got == sorted(got)})
                    break
                if first is None:
                    first = b
                elif not (b == first and first == b and hash(b) == hash(first)):
                    part.violation("scale:basis", case, {"equal_to_first_arrangement": False})
                    break
            except Exception as exc:  # noqa
                part.violation("scale:basis", case, {"exception": repr(exc)})
                break
            part.add(1, 1)


def shard_scale_sorted(shard):
    part = Partial()
    check_scale_sorted(part, shard[0])
    return part


# --------------------------------------------------------------------------------------------
# FRESH: containers handed in or out are damaged in place, then everything is asked again
# --------------------------------------------------------------------------------------------

def _damage(c):
    """Edit a mutable container in place (every way that applies)."""
    if isinstance(c, list):
        c.reverse()
        c.append((0, 0) if (c and isinstance(c[0], tuple)) else 0)
        del c[:1]
    elif isinstance(c, set):
        c.add((0, 0))
        c.add(0)
        if len(c) > 2:
            c.pop()
    elif isinstance(c, dict):
        c.clear()
    elif isinstance(c, bytearray):
        c.reverse()


def _stable(part, what, desc, x, twin_mk, h0, extra=None):
    """After a damage step: x still equals a freshly built equal object, hashes as before and
    as the fresh object, is found through it, and is not ordered before/after it."""
    L = lib()
    case = {"what": what, "value": desc}
    if extra:
        case.update(extra)
    try:
        y = twin_mk()
        ok = (x == y) and (y == x) and hash(x) == h0 and hash(y) == h0 and (x in {y}) and \
            ({y: 1}.get(x) == 1)
        if ok and isinstance(x, (L.Perm, L.MeshPatt)):
            ok = (not x < y) and (x <= y) and (not x > y) and (x >= y)
        if not ok:
            part.violation("fresh", case, {"x": repr(x), "fresh_equal_object": repr(y),
                                           "x==y": x == y, "hash_before": h0,
                                           "hash_now": hash(x), "hash_fresh": hash(y)})
            return False
    except Exception as exc:  # noqa
        part.violation("fresh", case, {"exception": repr(exc)})
        return False
    return True


def check_fresh_value(part, v):
    """One mesh value: objects built FROM mutable containers (which are then damaged) and the
    mutable containers handed OUT by the objects (damaged, then asked for again)."""
    L = lib()
    p, sh = v
    n = len(p)
    cells = sorted(sh)
    desc = mesh_value_desc(v)
    twin = lambda: L.MeshPatt(L.Perm(p), list(cells))     # noqa
    evals = 0
    # --- handed in
    for cname, mk in (("list", lambda: list(cells)), ("set", lambda: set(cells)),
                      ("dict keys", lambda: dict.fromkeys(cells)),
                      ("list for Perm", None)):
        try:
            if mk is None:
                plist = list(p)
                x = L.MeshPatt(L.Perm(plist), cells)
                h0 = hash(x)
                _damage(plist)
            else:
                c = mk()
                x = L.MeshPatt(L.Perm(p), c if cname != "dict keys" else c.keys())
                h0 = hash(x)
                _damage(c)
        except Exception as exc:  # noqa
            part.violation("fresh", {"what": "built from " + cname, "value": desc},
                           {"exception": repr(exc)})
            continue
        _stable(part, "built from a %s that is edited afterwards" % cname, desc, x, twin, h0)
        evals += 1
    # bivincular-type spellings: adjacency lists/sets handed in, requirement lists handed out
    subsets = [list(a) for r in range(n + 2) for a in itertools.combinations(range(n + 1), r)]
    for a in subsets:
        for b in subsets:
            if F.sem(["biv", list(p), a, b])[1] != sh:
                continue
            spellings = [("biv", L.Biv, [a, b])]
            if not b:
                spellings.append(("vinc", L.Vinc, [a]))
            if not a:
                spellings.append(("covinc", L.Covinc, [b]))
            for sname, ctor, args in spellings:
                for cname, conv in (("list", list), ("set", set)):
                    try:
                        given = [conv(t) for t in args]
                        x = ctor(L.Perm(p), *given)
                        h0 = hash(x)
                        for g in given:
                            _damage(g)
                        tw = lambda: ctor(L.Perm(p), *[list(t) for t in args])    # noqa
                        _stable(part, "%s built from %ss that are edited afterwards"
                                % (sname, cname), desc, x, tw, h0,
                                {"adjacent": [a, b]})
                        evals += 1
                        # handed out: the requirement lists
                        want = (sorted(set(i for i in range(n + 1)
                                           if all((i, r) in sh for r in range(n + 1)))),
                                sorted(set(r for r in range(n + 1)
                                           if all((i, r) in sh for i in range(n + 1)))))
                        for rnd in range(2):
                            got = x.get_adjacent_requirements()
                            if (list(got[0]), list(got[1])) != want:
                                part.violation("fresh", {"what": "get_adjacent_requirements, "
                                                         "call %d (results of earlier calls were "
                                                         "edited)" % (rnd + 1), "value": desc,
                                                         "adjacent": [a, b]},
                                               {"expected": want, "got": repr(got)})
                                break
                            for g in got:
                                if isinstance(g, (list, set, dict)):
                                    _damage(g)
                            y = tw()
                            got2 = y.get_adjacent_requirements()
                            if (list(got2[0]), list(got2[1])) != want:
                                part.violation("fresh", {"what": "get_adjacent_requirements of "
                                                         "a new equal object after the result "
                                                         "was edited", "value": desc,
                                                         "adjacent": [a, b]},
                                               {"expected": want, "got": repr(got2)})
                                break
                        _stable(part, "%s after its requirement lists were edited" % sname,
                                desc, x, tw, h0, {"adjacent": [a, b]})
                        evals += 2
                    except Exception as exc:  # noqa
                        part.violation("fresh", {"what": sname, "value": desc,
                                                 "adjacent": [a, b]}, {"exception": repr(exc)})
    # --- exposed attributes: if one of them is a mutable container, edit it
    try:
        x = L.MeshPatt(L.Perm(p), cells)
        h0 = hash(x)
        for attr in ("shading", "pattern"):
            c = getattr(x, attr, None)
            if isinstance(c, (list, set, dict)):
                part.bump("mutable_attribute_exposed_" + attr)
                _damage(c)
        srt = sorted(x.shading)
        _damage(srt)
        b = L.MeshBasis(x)
        hb = hash(b)
        lst = list(b)
        _damage(lst)
        _stable(part, "after editing whatever mutable containers the object exposes", desc, x,
                twin, h0)
        _stable(part, "one-element MeshBasis after list(basis) was edited", desc, b,
                lambda: L.MeshBasis(twin()), hb)
        evals += 2
    except Exception as exc:  # noqa
        part.violation("fresh", {"what": "exposed attributes", "value": desc},
                       {"exception": repr(exc)})
    return evals


def shard_fresh(shard):
    quick, lo, hi = shard
    part = Partial()
    for v in route_values(quick)[lo:hi]:
        n = check_fresh_value(part, v)
        part.add(n, n)
    return part


# --------------------------------------------------------------------------------------------
# ABORT: an exception out of nowhere inside hash / == / < / sorted / set / basis construction
# --------------------------------------------------------------------------------------------

class _Abort(BaseException):
    pass


def _run_with_abort(fn, k, root):
    import sys
    seen = [0]

    def tracer(frame, event, arg):
        if event == "call" and frame.f_code.co_filename.startswith(root):
            seen[0] += 1
            if seen[0] == k:
                sys.settrace(None)
                raise _Abort()
        return None

    sys.settrace(tracer)
    try:
        fn()
        return True, seen[0]
    except _Abort:
        return False, seen[0]
    finally:
        sys.settrace(None)


def _in_child(fn):
    """fn() in a forked child of its own (so that no memo filled by an earlier injection's
    read-back - known to this harness or not - can shield a later injection)."""
    import json
    import os
    r, w = os.pipe()
    pid = os.fork()
    if pid == 0:
        code = 0
        try:
            os.close(r)
            try:
                out = fn()
            except BaseException as exc:  # noqa
                out = {"child_exception": repr(exc)}
            with os.fdopen(w, "w") as fh:
                fh.write(json.dumps(out))
        except BaseException:  # noqa
            code = 1
        finally:
            os._exit(code)
    os.close(w)
    with os.fdopen(r) as fh:
        data = fh.read()
    os.waitpid(pid, 0)
    try:
        return json.loads(data)
    except ValueError:
        return {"child_exception": "no result from the child process (it died)"}


ABORT_FAMILY = [
    [["biv", [0, 1], [1], [1]], "plain"],
    [["vinc", [1, 0], [1]], "plain"],
    [["covinc", [0, 1], [0, 2]], "rev"],
    [["mesh", [0, 1], [[1, 1]]], "plain"],
    [["mesh", [0, 1], [[1, 0], [1, 1], [1, 2]]], "fset"],     # == the next one
    [["vinc", [0, 1], [1]], "plain"],
    [["mesh", [0], [[0, 1], [1, 0]]], "rev"],
    [["biv", [], [0], [0]], "plain"],
    [["perm", [1, 0, 2]], "plain"],
    [["perm", [0, 2, 1]], "list"],
    [["perm", []], "plain"],
    [["perm", [0, 1, 2, 3]], "gen"],
    [["basis", [["perm", [0, 1, 2]], ["perm", [1, 0]]]], "plain"],
    [["meshbasis", [["vinc", [0, 1], [1]], ["mesh", [1, 0], [[1, 1]]]]], "rev"],
]


def abort_ops():
    """Every hash, every ==, <, <=, >, >= within the mesh-type and within the permutation
    entries, sorted()/min()/set()/dict of each family, construction of a Basis / MeshBasis from
    the family's patterns."""
    fam = [family(key(e)) for e in ABORT_FAMILY]
    ops = [["hash", i] for i in range(len(ABORT_FAMILY))]
    for i in range(len(ABORT_FAMILY)):
        for j in range(len(ABORT_FAMILY)):
            if fam[i] == fam[j]:
                ops.append(["eq", i, j])
                if fam[i] in ("P", "M"):
                    for o in OPS:
                        ops.append([o, i, j])
    for f in ("M", "P"):
        ops += [["sorted", f], ["sorted-reversed-input", f], ["min-max", f], ["set", f],
                ["dict", f], ["list.sort", f]]
    ops += [["Basis"], ["MeshBasis"], ["MeshBasis-of-perms"]]
    return ops


def abort_attempt(op, k):
    import os
    import signal
    import sys
    from ..core import REPO
    L = lib()
    root = os.path.join(os.path.abspath(REPO), "permuta") + os.sep
    objs = [build(e) for e in ABORT_FAMILY]
    keys = [key(e) for e in ABORT_FAMILY]
    fam = [family(kk) for kk in keys]
    idx = {f: [i for i in range(len(objs)) if fam[i] == f] for f in ("M", "P", "BB")}
    kind = op[0]
    if kind == "hash":
        fn = lambda: hash(objs[op[1]])                                          # noqa
    elif kind == "eq":
        fn = lambda: objs[op[1]] == objs[op[2]]                                 # noqa
    elif kind in OPS:
        x, y = objs[op[1]], objs[op[2]]
        fn = {"lt": lambda: x < y, "le": lambda: x <= y, "gt": lambda: x > y,
              "ge": lambda: x >= y}[kind]
    elif kind == "sorted":
        fn = lambda: sorted(objs[i] for i in idx[op[1]])                        # noqa
    elif kind == "sorted-reversed-input":
        fn = lambda: sorted([objs[i] for i in idx[op[1]]][::-1], reverse=True)  # noqa
    elif kind == "list.sort":
        fn = lambda: [objs[i] for i in idx[op[1]]].sort()                       # noqa
    elif kind == "min-max":
        fn = lambda: (min(objs[i] for i in idx[op[1]]), max(objs[i] for i in idx[op[1]]))  # noqa
    elif kind == "set":
        fn = lambda: set(objs[i] for i in idx[op[1]])                           # noqa
    elif kind == "dict":
        fn = lambda: {objs[i]: i for i in idx[op[1]]}[objs[idx[op[1]][0]]]      # noqa
    elif kind == "Basis":
        fn = lambda: L.Basis(*[objs[i] for i in idx["P"] if len(objs[i])])      # noqa
    elif kind == "MeshBasis":
        fn = lambda: L.MeshBasis(*[objs[i] for i in idx["M"]])                  # noqa
    else:
        fn = lambda: L.MeshBasis(*[objs[i] for i in idx["P"] if len(objs[i])])  # noqa

    def on_alarm(signum, frame):
        raise TimeoutError("read-back did not finish within 20 s")

    signal.signal(signal.SIGALRM, on_alarm)
    sys.unraisablehook = lambda unraisable: None
    finished, total = _run_with_abort(fn, k, root)
    part = Partial()
    signal.alarm(20)
    try:
        fresh = [build(e) for e in ABORT_FAMILY]
        n = len(objs)
        for i in range(n):
            for j in range(n):
                if fam[i] == fam[j]:
                    check_pair(part, ABORT_FAMILY[i], ABORT_FAMILY[j], objs[i], objs[j])
                    check_pair(part, ABORT_FAMILY[i], ABORT_FAMILY[j], objs[i], fresh[j])
        for f in ("M", "P"):
            a = sorted(objs[i] for i in idx[f])
            b = sorted([fresh[i] for i in idx[f]][::-1])
            pos = {id(o): i for i, o in enumerate(objs)}
            posf = {id(o): i for i, o in enumerate(fresh)}
            ka = [keys[pos[id(o)]] for o in a]
            kb = [keys[posf[id(o)]] for o in b]
            nondecr = all(not (a[t + 1] < a[t]) for t in range(len(a) - 1))
            if ka != kb or not nondecr or len(set(objs[i] for i in idx[f])) != len(set(ka)):
                part.violation("sorted-after-abort", {"family": f},
                               {"same_objects": [repr(x) for x in ka],
                                "fresh_objects": [repr(x) for x in kb], "nondecreasing": nondecr})
            if f == "P" and [t[1] for t in ka] != sorted((t[1] for t in ka),
                                                         key=lambda t: (len(t), t)):
                part.violation("sorted-after-abort", {"family": f}, {"order": [repr(x) for x in ka]})
        b1 = L.Basis(*[objs[i] for i in idx["P"] if len(objs[i])])
        b2 = L.Basis(*[fresh[i] for i in idx["P"] if len(fresh[i])][::-1])
        m1 = L.MeshBasis(*[objs[i] for i in idx["M"]])
        m2 = L.MeshBasis(*[fresh[i] for i in idx["M"]][::-1])
        if not (b1 == b2 and hash(b1) == hash(b2) and m1 == m2 and hash(m1) == hash(m2)):
            part.violation("basis-after-abort", {}, {"Basis": [repr(b1), repr(b2)],
                                                     "MeshBasis": [repr(m1), repr(m2)]})
    except TimeoutError as exc:
        part.violation("hang", {}, {"hang": str(exc)})
    except Exception as exc:  # noqa
        part.violation("read-back", {}, {"exception_in_read_back": repr(exc)})
    signal.alarm(0)
    return {"total": total, "finished": finished,
            "problems": [{"law": v["sub"], "case": v["case"], "detail": v["detail"]}
                         for v in part.viols[:3]]}


def shard_abort(shard):
    ops = shard[0]
    only_k = shard[1] if len(shard) > 1 else None
    part = Partial()
    for op in ops:
        res = _in_child(lambda: abort_attempt(op, None))
        if "total" not in res or res["problems"]:
            part.violation("abort", {"op": op, "abort_at_call": None}, res)
            continue
        total = res["total"]
        for k in ([only_k] if only_k else range(1, total + 1)):
            res = _in_child(lambda: abort_attempt(op, k))
            case = {"op": op, "abort_at_call": k}
            if "child_exception" in res:
                part.violation("abort", case, res)
            elif res["problems"]:
                part.violation("abort", case, {"aborted_before_completion": not res["finished"],
                                               "problems": res["problems"]})
            part.add(1, 0 if res.get("finished") else 1)
        part.bump("abort_points", total)
        part.bump("abort_operations")
    return part


# --------------------------------------------------------------------------------------------
# E2: derived objects - an object obtained from another one must behave like a fresh one
# --------------------------------------------------------------------------------------------

DERIVED_STARTS = [
    [["mesh", [0, 1], [[1, 1]]], "plain"],
    [["biv", [0, 1], [1], [1]], "plain"],
    [["vinc", [1, 0], [1]], "plain"],
    [["mesh", [0], [[0, 1], [1, 0]]], "plain"],
    [["mesh", [], [[0, 0]]], "plain"],
    [["mesh", [0, 2, 1], []], "plain"],
    [["covinc", [0], [0]], "plain"],
    [["perm", [1, 0, 2]], "plain"],
    [["perm", []], "plain"],
]
DERIVED_MAXLIVE = 3
USE_OPS = ("hash", "eq", "order", "sorted", "set", "syms", "contains", "repr")
MESH_DERIVE = ("shade-first", "shade-last", "shade-two", "add_point-first", "add_point-last",
               "add_increase", "add_decrease", "submesh-all", "submesh-drop-first",
               "submesh-empty", "rotate1", "rotate2", "rotate3", "rotate-1", "reverse",
               "complement", "inverse", "flip_horizontal", "flip_vertical", "flip_diagonal",
               "get_perm")
PERM_DERIVE = ("reverse", "complement", "inverse", "rotate1", "rotate2", "flip_antidiagonal",
               "remove-first", "insert-first", "direct_sum-0", "skew_sum-0", "get_perm")


def _value_of(o):
    L = lib()
    if isinstance(o, L.Perm):
        return ("P", tuple(o))
    return ("M", tuple(o.pattern), frozenset(tuple(c) for c in o.shading))


def _fresh_of(o):
    """The same value rebuilt through the public constructor."""
    L = lib()
    if isinstance(o, L.Perm):
        return L.Perm(tuple(int(v) for v in o))
    return L.MeshPatt(L.Perm(tuple(int(v) for v in o.pattern)),
                      sorted(tuple(c) for c in o.shading))


def _hidden(o):
    """Instance state beyond the constructor's fields that can be seen from outside."""
    d = getattr(o, "__dict__", None) or {}
    out = []
    for k in sorted(d):
        if k in ("pattern", "shading"):
            continue
        v = d[k]
        try:
            out.append((k, repr(v)[:200]))
        except Exception:  # noqa
            out.append((k, "?"))
    return tuple(out)


class DerivedModel:
    """State: a list of live objects (the start object and objects derived from live ones).
    ("use", kind, i)      exercise live object i (may create hidden state)
    ("derive", kind, i)   call a method of live object i that returns a new pattern; it joins
                          the live objects (at most DERIVED_MAXLIVE)
    After every operation every live object is compared with the same value rebuilt through the
    constructor: ==, hash, set/dict lookup both ways, order against itself and against every
    other live object.  Canonical state: the values of the live objects + their visible hidden
    state."""

    def __init__(self, start, maxlive=DERIVED_MAXLIVE):
        self.start = start
        self.maxlive = maxlive
        self.is_perm = start[0][0] == "perm"
        self.derive_ops = PERM_DERIVE if self.is_perm else MESH_DERIVE
        self.menu = [("use", u, i) for i in range(maxlive) for u in USE_OPS] + \
            [("derive", d, i) for i in range(maxlive)
             for d in sorted(set(MESH_DERIVE) | set(PERM_DERIVE))]

    def enabled(self, canon, hist):
        nlive = len(canon[0])
        kinds = canon[2]
        for op in self.menu:
            if op[2] >= nlive:
                continue
            if op[0] == "derive":
                if nlive >= self.maxlive:
                    continue
                ops = PERM_DERIVE if kinds[op[2]] == "P" else MESH_DERIVE
                if op[1] not in ops:
                    continue
            yield op

    def derive(self, o, kind):
        """Returns the new object, or None when the operation is not defined for o."""
        L = lib()
        if isinstance(o, L.Perm):
            n = len(o)
            if kind == "reverse":
                return o.reverse()
            if kind == "complement":
                return o.complement()
            if kind == "inverse":
                return o.inverse()
            if kind == "rotate1":
                return o.rotate()
            if kind == "rotate2":
                return o.rotate(2)
            if kind == "flip_antidiagonal":
                return o.flip_antidiagonal()
            if kind == "remove-first":
                return o.remove(0) if n else None
            if kind == "insert-first":
                return o.insert(0, 0)
            if kind == "direct_sum-0":
                return o.direct_sum(L.Perm((0,)))
            if kind == "skew_sum-0":
                return o.skew_sum(L.Perm((0,)))
            if kind == "get_perm":
                return o.get_perm()
            return None
        n = len(o)
        if n > 3 and kind.startswith("add_"):
            return None                     # keep the values small
        free = [c for c in R.all_cells(n) if c not in o.shading]
        if kind == "shade-first":
            return o.shade(free[0]) if free else None
        if kind == "shade-last":
            return o.shade(free[-1]) if free else None
        if kind == "shade-two":
            return o.shade(free[0], free[-1]) if len(free) > 1 else None
        if kind == "add_point-first":
            return o.add_point(free[0]) if free else None
        if kind == "add_point-last":
            return o.add_point(free[-1]) if free else None
        if kind == "add_increase":
            return o.add_increase(free[0]) if (free and not o.shading) else None
        if kind == "add_decrease":
            return o.add_decrease(free[0]) if (free and not o.shading) else None
        if kind == "submesh-all":
            return o.sub_mesh_pattern(range(n))
        if kind == "submesh-drop-first":
            return o.sub_mesh_pattern(range(1, n)) if n else None
        if kind == "submesh-empty":
            return o.sub_mesh_pattern(())
        if kind == "rotate1":
            return o.rotate()
        if kind == "rotate2":
            return o.rotate(2)
        if kind == "rotate3":
            return o.rotate(3)
        if kind == "rotate-1":
            return o.rotate(-1)
        if kind in ("reverse", "complement", "inverse", "flip_horizontal", "flip_vertical",
                    "flip_diagonal", "get_perm"):
            return getattr(o, kind)()
        return None

    def use(self, o, kind, live):
        L = lib()
        if kind == "hash":
            hash(o)
        elif kind == "eq":
            o == _fresh_of(o)                       # noqa
        elif kind == "order":
            for q in live:
                if isinstance(q, L.Perm) == isinstance(o, L.Perm):
                    o < q                           # noqa
                    o <= q                          # noqa
        elif kind == "sorted":
            sorted([_fresh_of(o), o, _fresh_of(o)])
        elif kind == "set":
            s = {o}
            o in s                                  # noqa
            {o: 1}[o]                               # noqa
        elif kind == "syms":
            o.all_syms()
        elif kind == "contains":
            if isinstance(o, L.Perm):
                list(o.occurrences_in(L.Perm((2, 0, 3, 1, 4))))
            else:
                L.Perm((2, 0, 3, 1, 4)).contains(o)
                o.contains(L.Perm((0,)))
        elif kind == "repr":
            repr(o)
            str(o)

    def compare_all(self, live, op):
        """The differential oracle; returns a list of violations."""
        L = lib()
        out = []
        fresh = [_fresh_of(o) for o in live]
        for i, (o, f) in enumerate(zip(live, fresh)):
            try:
                d = {f: 1}
                d2 = {o: 1}
                facts = {"o==fresh": o == f, "fresh==o": f == o, "not o!=fresh": not (o != f),
                         "hash equal": hash(o) == hash(f), "o in {fresh}": o in {f},
                         "fresh in {o}": f in {o}, "{fresh:1}.get(o)": d.get(o) == 1,
                         "{o:1}.get(fresh)": d2.get(f) == 1,
                         "not o<fresh": not (o < f), "o<=fresh": o <= f,
                         "not o>fresh": not (o > f), "o>=fresh": o >= f}
                bad = sorted(k for k, v in facts.items() if v is not True)
                if bad:
                    out.append({"op": list(op), "live_object": i, "value": repr(f),
                                "differs_from_a_fresh_equal_object_in": bad})
                    continue
                for j, (q, fq) in enumerate(zip(live, fresh)):
                    if isinstance(q, L.Perm) != isinstance(o, L.Perm):
                        continue
                    a = (o < q, o <= q, o > q, o >= q, o == q)
                    b = (f < fq, f <= fq, f > fq, f >= fq, f == fq)
                    c = (o < fq, o <= fq, o > fq, o >= fq, o == fq)
                    if a != b or c != b:
                        out.append({"op": list(op), "live_objects": [i, j],
                                    "values": [repr(f), repr(fq)],
                                    "[<,<=,>,>=,==] live/live": a, "fresh/fresh": b,
                                    "live/fresh": c})
                        break
            except Exception as exc:  # noqa
                out.append({"op": list(op), "live_object": i, "exception": repr(exc)})
        return out

    def build(self, hist):
        live = [build(self.start)]
        viols = []
        last = len(hist) - 1
        for hi, op in enumerate(hist):
            v = []
            try:
                o = live[op[2]]
                if op[0] == "use":
                    self.use(o, op[1], live)
                else:
                    new = self.derive(o, op[1])
                    if new is not None:
                        live.append(new)
                if hi == last:
                    v = self.compare_all(live, op)
            except AssertionError:
                pass                    # a documented precondition of the method: no new object
            except Exception as exc:  # noqa
                if hi == last:
                    v = [{"op": list(op), "exception": repr(exc)}]
            if hi == last:
                viols = v
        L = lib()
        canon = (tuple(_value_of(o) for o in live), tuple(_hidden(o) for o in live),
                 tuple("P" if isinstance(o, L.Perm) else "M" for o in live))
        return canon, viols


def shard_derived(shard):
    si, depth, maxlive = shard
    start = DERIVED_STARTS[si]
    model = DerivedModel(start, maxlive)
    part = Partial()

    def on_violation(hist, v):
        part.violation("derived", {"start": start, "maxlive": maxlive,
                                   "history": [list(op) for op in hist]}, v)

    st = bfs([()], model.menu, model.build, depth, on_violation, enabled=model.enabled)
    part.add(st.transitions, st.transitions)
    part.bump("derived_states", st.states)
    part.bump("derived_transitions", st.transitions)
    if st.sample_histories:
        part.sample({"start": start, "history": st.sample_histories[-1]}, cap=1)
    return part, (st.states, st.transitions)


# --------------------------------------------------------------------------------------------
# E2: allocation histories between hash computations
# --------------------------------------------------------------------------------------------

RETAIN_KINDS = ("super", "tuple2", "list", "fset", "same", "perm")

CONFIGS = [
    # three live objects; the third element names the helper used by retain("same")
    {"name": "biv/mesh/perm",
     "objects": [[["biv", [0, 1], [1], [1]], "plain"],
                 [["mesh", [0, 1], [[1, 1]]], "plain"],
                 [["perm", [1, 0, 2]], "plain"]],
     "other": [["biv", [1, 0], [0], [2]], "plain"]},
    {"name": "vinc/covinc/meshbasis",
     "objects": [[["vinc", [1, 0], [1]], "plain"],
                 [["covinc", [0, 1], [0, 2]], "plain"],
                 [["meshbasis", [["vinc", [0, 1], [1]], ["mesh", [1, 0], [[1, 1]]]]], "plain"]],
     "other": [["vinc", [0, 1], [2]], "plain"]},
    {"name": "basis/biv-empty/mesh-full",
     "objects": [[["basis", [["perm", [0, 1, 2]], ["perm", [1, 0]]]], "plain"],
                 [["biv", [], [0], [0]], "plain"],
                 [["mesh", [0], [[0, 0], [0, 1], [1, 0], [1, 1]]], "plain"]],
     "other": [["biv", [0], [0], [1]], "plain"]},
    {"name": "covinc/perm-empty/meshbasis-of-biv",
     "objects": [[["covinc", [1, 0], [1]], "plain"],
                 [["perm", []], "plain"],
                 [["meshbasis", [["biv", [0, 1], [0], [2]]]], "plain"]],
     "other": [["covinc", [0, 1], [1]], "plain"]},
]


class HashHistory:
    """Operations
        ("h", i)        hash live object i (created on first touch): must equal the hash recorded
                        at creation, the hashes of freshly built equal objects (same class, and
                        other ways of writing the same value), and lookups in the dict/set filled
                        at creation must find it and the fresh equal objects
        ("use", i)      call value-preserving methods on object i (repr, str, sort with an equal
                        object, a containment query that fills the per-pattern memo)
        ("retain", T)   allocate an object of kind T and keep it alive
        ("release",)    drop the most recently retained object
        ("gc",)         gc.collect()
    The allocator is the environment: its state is not observable, so no two histories are
    merged (canonical state = the history)."""

    def __init__(self, config):
        self.config = config
        self.entries = config["objects"]
        self.menu = ([("h", i) for i in range(3)] + [("use", i) for i in range(3)]
                     + [("retain", t) for t in RETAIN_KINDS] + [("release",), ("gc",)])

    def enabled(self, canon, hist):
        nret = 0
        for op in hist:
            if op[0] == "retain":
                nret += 1
            elif op[0] == "release":
                nret -= 1
        for op in self.menu:
            if op[0] == "release" and nret <= 0:
                continue
            yield op

    def build(self, hist):
        L = lib()
        live = {}          # i -> object
        first = {}         # i -> hash at creation
        table = {}         # dict filled at creation time
        pool = set()
        retained = []
        viols = []
        last = len(hist) - 1
        helper = None

        def touch(i):
            if i not in live:
                o = build(self.entries[i])
                live[i] = o
                first[i] = hash(o)
                table[o] = i
                pool.add(o)
            return live[i]

        for hi, op in enumerate(hist):
            v = []
            try:
                if op[0] == "h":
                    i = op[1]
                    x = touch(i)
                    hv = hash(x)
                    if hv != first[i]:
                        v.append(("history:changed", {"op": list(op), "hash_at_creation": first[i],
                                                      "hash_now": hv}))
                    if table.get(x) != i or x not in pool:
                        v.append(("history:lookup", {"op": list(op), "what": "the object itself",
                                                     "dict_get": repr(table.get(x)),
                                                     "in_set": x in pool}))
                    for t in twin_entries(self.entries[i]):
                        y = build(t)
                        hy = hash(y)
                        if not (y == x and x == y):
                            v.append(("history:twin-eq", {"op": list(op), "written_as": t}))
                        elif hy != hv:
                            v.append(("history:twin-hash", {"op": list(op), "written_as": t,
                                                            "hash_object": hv, "hash_equal_object": hy}))
                        elif table.get(y) != i or y not in pool:
                            v.append(("history:lookup", {"op": list(op), "written_as": t,
                                                         "dict_get": repr(table.get(y)),
                                                         "in_set": y in pool}))
                elif op[0] == "use":
                    i = op[1]
                    x = touch(i)
                    repr(x)
                    str(x)
                    y = build(self.entries[i])
                    sorted([x, y])
                    if isinstance(x, L.Perm):
                        list(x.occurrences_in(L.Perm((2, 0, 3, 1, 4))))
                        x.contains(L.Perm((0,)))
                    elif isinstance(x, L.MeshPatt):
                        x.contains(L.Perm((0,)))
                        L.Perm((2, 0, 3, 1, 4)).contains(x)
                        if isinstance(x, L.Biv):
                            x.get_adjacent_requirements()
                    else:
                        list(x)
                        len(x)
                elif op[0] == "retain":
                    t = op[1]
                    if helper is None:
                        helper = build(self.config["other"])
                    if t == "super":
                        retained.append(super(L.MeshPatt, helper))
                    elif t == "tuple2":
                        retained.append((helper.pattern, helper.shading))
                    elif t == "tuple3":
                        retained.append((helper.pattern, helper.shading, None))
                    elif t == "list":
                        retained.append([None, None, None, None])
                    elif t == "fset":
                        retained.append(frozenset([(0, 0), (1, 1), (2, 2)]))
                    elif t == "obj":
                        retained.append(object())
                    elif t == "same":
                        o = build(self.config["other"])     # another pattern, hashed, kept
                        hash(o)
                        retained.append(o)
                    elif t == "perm":
                        o = L.Perm((3, 1, 4, 0, 2))
                        hash(o)
                        retained.append(o)
                elif op[0] == "release":
                    retained.pop()
                elif op[0] == "gc":
                    gc.collect()
            except Exception as exc:  # noqa
                v.append(("history:exception", {"op": list(op), "exception": repr(exc)}))
            if hi == last:
                viols.extend(v)
        return tuple(hist), viols


def shard_history(shard):
    ci, prefix, depth = shard
    config = CONFIGS[ci]
    model = HashHistory(config)
    part = Partial()

    def on_violation(hist, v):
        sub, detail = v
        part.violation(sub, {"config": ci, "config_name": config["name"],
                             "history": [list(op) for op in hist]}, detail)

    # everything allocated so far (universe tables, modules) is moved out of the collector's
    # sight, so that the ("gc",) step only has to look at what the history itself allocated
    gc.collect()
    gc.freeze()
    try:
        st = bfs([tuple(prefix)], model.menu, model.build, depth, on_violation,
                 enabled=model.enabled)
    finally:
        gc.unfreeze()
    part.add(st.transitions + 1, 0)
    part.bump("history_states", st.states)
    part.bump("history_transitions", st.transitions)
    if st.sample_histories:
        part.sample({"config": config["name"], "history": st.sample_histories[-1]}, cap=1)
    return part, (st.states, st.transitions, st.depth_completed)


# --------------------------------------------------------------------------------------------

def run(ctx, only=None):
    def want(name):
        return only is None or name in only

    quick = ctx.quick
    U = universe(quick)
    fams = {}
    for e in U:
        f = family(key(e))
        fams[f] = fams.get(f, 0) + 1
    ctx.rule = ("one evaluation = one ordered pair (all laws at once), one sorted() arrangement, "
                "one lookup of a rewritten value, or one history step; non-trivial = ordered "
                "pairs of DIFFERENT universe entries denoting the SAME value (other class or "
                "other construction route: == / hash / lookup must bridge them), 3-subsets of "
                "three different values, lookups through a rewritten value, pairs of different "
                "permutations of equal length")
    ctx.assumptions = [
        "reference identity: permutations by entries, mesh-type patterns by (permutation, shaded "
        "cells) regardless of class, bases by kind and element set (mc/ref_c05.py sem())",
        "== between objects of different families (permutation / mesh-type / basis) is only "
        "required to imply equal hashes; Basis vs MeshBasis with the same elements: no demand",
        "hash values are only compared within one process",
        "the allocator is explored through explicit retain/release/gc steps only; other "
        "interpreter activity between two hash() calls is not modelled",
    ]
    ctx.bounds["universe"] = {"entries": len(U), "by_family": fams,
                              "perms": "S<=%d (+ S<=3 built four ways)" % (4 if quick else 5),
                              "mesh": "see mesh_universe(quick=%s)" % quick}
    rows = None
    if want("pairs") or want("triples"):
        e0 = ctx.evals
        n = len(U)
        per = max(1, n // 64)
        shards = [(quick, lo, min(n, lo + per)) for lo in range(0, n, per)]
        res = ctx.pmap(shard_pairs, shards)
        rows = [r for rs in res for r in rs]
        ctx.section("pairs", universe=n, evaluations=ctx.evals - e0)
        ntr = check_triples(ctx, quick, rows)
        ctx.section("triples", triples=ntr)
        ctx.bounds["pairs"] = "all ordered pairs of the universe (+ every object with itself)"
        ctx.bounds["triples"] = "all ordered triples within each family, on the observed relations"
    if want("sorted"):
        e0 = ctx.evals
        midx = [i for i, e in enumerate(U) if family(key(e)) == "M"]
        if quick:
            # sub-universe: every entry of length <= 1, and of length 2 those over 01 with the
            # adjacency/cell set containing 1 (stated family; whole universe in the thorough tier
            # is too large for 3-subsets: the thorough tier takes every second entry more)
            sub = [i for i in midx if len(U[i][0][1]) <= 1 or
                   (U[i][0][1] == [0, 1] and U[i][0][0] != "mesh"
                    and len(U[i][0][2]) == 1)]
        else:
            # every plainly built entry of length <= 1; of length 2 the (co)vincular patterns,
            # the mesh patterns with <= 2 cells and the bivincular patterns with exactly one
            # adjacent index and one adjacent value
            def in_sub(e):
                spec, variant = e
                if variant != "plain":
                    return False
                if len(spec[1]) <= 1:
                    return True
                if len(spec[1]) != 2:
                    return False
                if spec[0] in ("vinc", "covinc"):
                    return True
                if spec[0] == "mesh":
                    return len(spec[2]) <= 2
                return len(spec[2]) == 1 and len(spec[3]) == 1
            sub = [i for i in midx if in_sub(U[i])]
        per = max(1, len(sub) // 64)
        shards = [(quick, sub, lo, min(len(sub), lo + per)) for lo in range(0, len(sub), per)]
        ctx.pmap(shard_sorted3, shards)
        ctx.pmap(shard_misc, [("sorted_all", quick, f) for f in ("P", "M")])
        ctx.bounds["sorted"] = {"3-subsets_of": len(sub), "orders": 6,
                                "whole_family_arrangements": len(rotations(range(10), 8))}
        ctx.section("sorted", sub_universe=len(sub), evaluations=ctx.evals - e0)
    if want("sets"):
        e0 = ctx.evals
        ctx.pmap(shard_misc, [("sets", quick, f) for f in ("P", "M", "B", "MB")])
        ctx.bounds["sets"] = "whole family, %d insertion orders, every entry looked up through " \
                             "every rewritten form" % len(rotations(range(10), 4))
        ctx.section("sets", evaluations=ctx.evals - e0)
    if want("perm_order"):
        e0 = ctx.evals
        n = 5 if quick else 6
        total = len(R.perms_upto(n))
        per = max(1, total // 64)
        ctx.pmap(shard_perm_order, [(n, lo, min(total, lo + per)) for lo in range(0, total, per)])
        ctx.bounds["perm_order"] = "all ordered pairs of S<=%d; sorted(S<=%d) from %d arrangements" \
                                   % (n, n, len(rotations(range(10), 6)))
        ctx.section("perm_order", evaluations=ctx.evals - e0)
    if want("routes"):
        e0 = ctx.evals
        vals = route_values(quick)
        per = max(1, len(vals) // 96)
        ctx.pmap(shard_routes_mesh, [(quick, lo, min(len(vals), lo + per))
                                     for lo in range(0, len(vals), per)])
        prs = pair_values(quick)
        per = max(1, len(prs) // 48)
        ctx.pmap(shard_routes_pairs, [(quick, lo, min(len(prs), lo + per))
                                      for lo in range(0, len(prs), per)])
        ctx.pmap(shard_routes_classical, [(quick,)])
        ctx.bounds["routes"] = {
            "mesh_values": len(vals),
            "mesh_value_family": route_values.__doc__.strip(),
            "routes_per_value": "cells in every order (<=3 cells; sorted/reversed/rotations/"
                                "riffle beyond), 6 container types, %d symmetry round trips, "
                                "unrank, sub_mesh_pattern(all), shade (2 ways), every "
                                "Bivincular/Vincular/Covincular spelling; one-element MeshBasis "
                                "of every route object" % len(ROUND_TRIPS),
            "two_element_bases": {"value_pairs": len(prs), "family": pair_values.__doc__.strip()},
            "classical": check_classical_routes.__doc__.strip(),
            "order_probes": len(route_probes())}
        ctx.section("routes", mesh_values=len(vals), value_pairs=len(prs),
                    evaluations=ctx.evals - e0)
    if want("scale"):
        e0 = ctx.evals
        SU = scale_universe(quick)
        # sorted()/Basis first: few records, so that they are not crowded out by pair records
        ctx.pmap(shard_scale_sorted, [(quick,)])
        per = max(1, len(SU) // 96)
        ctx.pmap(shard_scale_pairs, [(quick, lo, min(len(SU), lo + per))
                                     for lo in range(0, len(SU), per)])
        sizes = SCALE_SIZES_QUICK if quick else SCALE_SIZES_THOROUGH
        ctx.bounds["scale"] = {
            "sizes": list(sizes),
            "shapes_per_size": sorted(set(sh for sh, _ in scale_shapes(300))),
            "entries": len(SU),
            "pairs": "all ordered pairs within the permutation family and within the mesh "
                     "family (all laws of the pairs sub-check, (length, entries) reference)",
            "sorted": "all scale permutations from 13 arrangements; Basis of all shapes of one "
                      "length (<= 300: containment search recurses once per pattern entry) "
                      "from 7 arrangements"}
        ctx.section("scale", entries=len(SU), sizes=list(sizes), evaluations=ctx.evals - e0)
    if want("fresh"):
        e0 = ctx.evals
        vals = route_values(quick)
        per = max(1, len(vals) // 64)
        ctx.pmap(shard_fresh, [(quick, lo, min(len(vals), lo + per))
                               for lo in range(0, len(vals), per)])
        ctx.bounds["fresh"] = {"mesh_values": len(vals),
                               "handed_in": "shading as list / set / dict, entries as list, "
                                            "adjacency lists / sets of every bivincular-type "
                                            "spelling: edited after construction",
                               "handed_out": "get_adjacent_requirements() lists edited and asked "
                                             "again (same object, new equal object); sorted"
                                             "(shading), list(basis); any exposed attribute "
                                             "that is a mutable container"}
        ctx.section("fresh", mesh_values=len(vals), evaluations=ctx.evals - e0)
    if want("abort"):
        e0 = ctx.evals
        ops = abort_ops()
        nsh = 64
        ctx.pmap(shard_abort, [(ops[i::nsh],) for i in range(nsh) if ops[i::nsh]])
        ctx.bounds["abort"] = {"objects": ABORT_FAMILY, "operations": len(ops),
                               "injection_points": ctx.counters.get("abort_points", 0),
                               "bound": "one injection per run, every k; every injection in a "
                                        "forked process of its own; read-back = all pair laws on "
                                        "the same and on fresh objects, sorted(), bases"}
        ctx.section("abort", operations=len(ops),
                    injection_points=ctx.counters.get("abort_points", 0),
                    evaluations=ctx.evals - e0)
    derived_counts = (0, 0)
    if want("derived"):
        e0 = ctx.evals
        depth, maxlive = (3, 3) if quick else (4, 4)
        res = ctx.pmap(shard_derived, [(si, depth, maxlive)
                                       for si in range(len(DERIVED_STARTS))])
        derived_counts = (sum(r[0] for r in res), sum(r[1] for r in res))
        ctx.bounds["derived"] = {"starts": DERIVED_STARTS, "depth": depth,
                                 "live_objects": maxlive, "use_ops": list(USE_OPS),
                                 "derive_ops_mesh": list(MESH_DERIVE),
                                 "derive_ops_perm": list(PERM_DERIVE),
                                 "canonical_state": "values of the live objects + their "
                                                    "instance __dict__ beyond pattern/shading"}
        ctx.states += derived_counts[0]
        ctx.transitions += derived_counts[1]
        ctx.traces += derived_counts[1]
        ctx.section("derived", states=derived_counts[0], transitions=derived_counts[1],
                    evaluations=ctx.evals - e0)
    if want("history"):
        # depth (operations) from the fresh state / after all three objects were hashed once
        depths = [(4, 3) if quick else (5, 4)] * len(CONFIGS)
        warm_prefix = (("h", 0), ("h", 1), ("h", 2))
        shards = []
        for ci in range(len(CONFIGS)):
            cold, warm = depths[ci]
            model = HashHistory(CONFIGS[ci])
            for op in model.enabled(None, ()):
                if cold >= 5:
                    shards.append((ci, (op,), 0))
                    for op2 in model.enabled(None, (op,)):
                        shards.append((ci, (op, op2), cold - 2))
                else:
                    shards.append((ci, (op,), cold - 1))
            for op in model.enabled(None, warm_prefix):
                shards.append((ci, warm_prefix + (op,), warm - 1))
        res = ctx.pmap(shard_history, shards)
        hs = sum(r[0] for r in res)
        ht = sum(r[1] for r in res) + len(shards)
        ctx.states += hs
        ctx.transitions += ht
        ctx.traces += ht
        ctx.bounds["history"] = {"configs": [c["name"] for c in CONFIGS],
                                 "menu": len(HashHistory(CONFIGS[0]).menu),
                                 "depth_from_fresh_per_config": [d[0] for d in depths],
                                 "depth_after_all_three_hashed_per_config": [d[1] for d in depths],
                                 "merging": "none (allocator state is not observable)"}
        ctx.section("history", states=hs, transitions=ht)


    import json
    ctx.viols.sort(key=lambda v: (v["sig"] is not None, len(json.dumps(v["case"]))))


# --------------------------------------------------------------------------------------------

def replay(ctx, rec):
    sub, case = rec["sub"], rec["case"]
    if sub.startswith("pairs:"):
        ex, ey = case["x"], case["y"]
        check_pair(ctx, ex, ey, build(ex), build(ey))
    elif sub == "triples":
        check_triple(ctx, case["law"], case["x"], case["y"], case["z"])
    elif sub == "sorted:3":
        ents = case["entries"]
        first = None
        for order in itertools.permutations(range(3)):
            objs = [build(ents[i]) for i in order]
            pos = {id(o): i for o, i in zip(objs, order)}
            try:
                res = sorted(objs)
                ks = [key(ents[pos[id(o)]]) for o in res]
                ok = not (res[1] < res[0]) and not (res[2] < res[1])
            except Exception as exc:  # noqa
                ctx.violation("sorted:3", case, {"exception": repr(exc)})
                return
            if first is None:
                first = ks
            if ks != first or not ok:
                ctx.violation("sorted:3", case, {"nondecreasing": ok})
                return
    elif sub == "sorted:all":
        check_sorted_all(ctx, rec.get("tier", "quick") == "quick", case["family"])
    elif sub == "sets":
        check_sets(ctx, rec.get("tier", "quick") == "quick", case["family"])
    elif sub == "perm_order":
        L = lib()
        if "x" in case:
            a, b = tuple(case["x"]), tuple(case["y"])
            ra, rb = (len(a), a), (len(b), b)
            want = {"lt": ra < rb, "le": ra <= rb, "gt": ra > rb, "ge": ra >= rb}
            got = observe_order(L.Perm(a), L.Perm(b))
            try:
                eq = L.Perm(a) == L.Perm(b)
                hh = hash(L.Perm(a)) == hash(L.Perm(b))
            except Exception as exc:  # noqa
                eq, hh = repr(exc), None
            if got != want or eq != (a == b) or (eq is True and not hh):
                ctx.violation("perm_order", case, {"expected": want, "got": got, "x==y": eq})
        else:
            n = case["n"]
            ps = R.perms_upto(n)
            order = rotations(range(len(ps)), 6)[case["sorted_arrangement"]]
            try:
                res = [tuple(p) for p in sorted(L.Perm(ps[i]) for i in order)]
            except Exception as exc:  # noqa
                res = repr(exc)
            if res != ps:
                ctx.violation("perm_order", case, {"got": "differs"})
    elif sub == "build":
        try_build(ctx, case["entry"])
    elif sub == "derived":
        model = DerivedModel(case["start"], case.get("maxlive", DERIVED_MAXLIVE))
        hist = tuple(tuple(op) for op in case["history"])
        for i in range(1, len(hist) + 1):
            _, viols = model.build(hist[:i])
            if viols:
                ctx.violation("derived", case, viols[0])
                break
    elif sub == "fresh":
        v = (tuple(case["value"][0]), frozenset(tuple(c) for c in case["value"][1]))
        check_fresh_value(ctx, v)
    elif sub == "abort":
        ctx.merge(shard_abort(([case["op"]], case["abort_at_call"])))
    elif sub.startswith("scale:"):
        check_scale_sorted(ctx, case["quick"])
    elif sub.startswith("routes:"):
        replay_routes(ctx, case)
    elif sub.startswith("history:"):
        model = HashHistory(CONFIGS[case["config"]])
        hist = tuple(tuple(op) for op in case["history"])
        for i in range(1, len(hist) + 1):
            _, viols = model.build(hist[:i])
            if viols:
                ctx.violation(viols[0][0], case, viols[0][1])
                break
    else:
        raise ValueError("unknown sub-check %r" % sub)
