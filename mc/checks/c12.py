"""C12 - sorting operators, the Simion-Schmidt map and the named families match their definitions.

E1 (exploration): every permutation of a length range, every operator / predicate on it, against
device simulations and textbook definitions in mc/ref_c12.py.

sub-checks
  ops       stack/pop-stack/bubble/quick sort outputs, *_sortable, west_2/3, pass counters
  ss        Simion-Schmidt on EVERY permutation (inside the domain: image avoids 132 and has the
            same left-to-right minima, inverse undoes it; outside: ValueError), both directions;
            per length: image set = all 132-avoiders (bijection)
  ss_long   the same map beyond the exhaustive lengths on the complete structured family "at most k
            left-to-right minima": forward image = reference image, class, minima, inverse undoes
  ss_scale  the same map at lengths that straddle runtime thresholds (9..14, 31..36, 256..258;
            thorough also 63..66, 127..132, 255..260, 511..514) on decreasing sequences with a block
            of j non-minima, j around the set-resize points 4/5, 18/19, 76/77
  ops_scale the operators, predicates and counters at lengths around the interpreter's recursion
            limit (L/2, L, 3L/2) and the small-table thresholds, on structured shapes, against the
            iterative device simulations; RecursionError = no answer
  gens      E2: breadth-first search over histories of LIVE dihedral_group generators, dihedral()
            calls, abandoned and complete enumerations (mc/explore.py), with read-back
  fresh     list results of the helpers damaged in place, public answers asked again
  families  smooth, forest_like, baxter, simsun, dihedral, in_alternating_group,
            yt_perm_avoids_22/32, av_231_and_mesh, hard_mesh against definitions
  deep      independent second definitions that are too slow for the long lengths: Greene's theorem
            for the tableau shape, Bruhat-interval rank symmetry for smooth
The reference's own family sizes per length are asserted against the published sequences
(Catalan, 2^(n-1), West-2, Baxter, simsun, smooth, 2n, n!/2, C(2n-2,n-1)); a mismatch there is a
harness error (wrong reference), never a verdict.
"""
from __future__ import annotations

import math

from .. import ref_c12 as D
from .. import refmodel as R
from ..core import Partial

PROPERTY = "C12"
LEVEL = "exploration"


def _P():
    from permuta import Perm
    return Perm


def _prefixes(n, per):
    """Split S_n into shards 'all permutations starting with this prefix', each of size <= per
    (as far as a prefix of length <= n allows)."""
    import itertools
    k = 0
    while k < n and math.factorial(n - k) > per:
        k += 1
    return [(n, pre) for pre in itertools.permutations(range(n), k)]


def _perms_slice(n, pre):
    """All permutations of 0..n-1 that start with pre, in lexicographic order."""
    import itertools
    rest = [v for v in range(n) if v not in pre]
    pre = tuple(pre)
    return [pre + t for t in itertools.permutations(rest)]


class _Timeout(BaseException):
    """Raised by the watchdog inside a library call (BaseException: not swallowed by the
    library's own `except Exception`)."""


CALL_CPU_LIMIT = 2.0     # seconds of CPU time of this process for ONE library call (normal: < 1 ms)


_HUNG = set()


def _on_alarm(signum, frame):
    raise _Timeout()


LONG_CPU_LIMIT = 120.0   # for inputs longer than 200 (the quadratic maps need ~1.5 s at n = 1000)


def _guarded_call(fn, *args, **kw):
    """Run one library call under a CPU-time watchdog (ITIMER_VIRTUAL counts only the CPU time
    this process gets, so a loaded machine cannot trigger it).  A call that does not return is an
    observation about the code (e.g. a pass counter whose loop never reaches the identity)."""
    import signal
    old = signal.signal(signal.SIGVTALRM, _on_alarm)
    big = any(hasattr(a, "__len__") and len(a) > 200 for a in args)
    signal.setitimer(signal.ITIMER_VIRTUAL, LONG_CPU_LIMIT if big else CALL_CPU_LIMIT)
    try:
        return fn(*args, **kw)
    finally:
        signal.setitimer(signal.ITIMER_VIRTUAL, 0)
        signal.signal(signal.SIGVTALRM, old)


def _call(part, sub, case, fn, *args, **kw):
    """Call into the library; an exception is an observation (README rule 6), so is a hang."""
    key = (sub, case.get("op") or case.get("family"))
    if key in _HUNG:
        # this entry point already failed to return once in this process: it has been reported;
        # do not burn the time budget on it again (the run is failing anyway)
        part.bump("calls skipped after a timeout of the same entry point")
        return False, None
    try:
        return True, _guarded_call(fn, *args, **kw)
    except _Timeout:
        _HUNG.add(key)
        part.violation(sub, case, {"no answer within %g s of CPU time" % CALL_CPU_LIMIT: True})
        return False, None
    except Exception as exc:  # noqa
        part.violation(sub, case, {"exception": repr(exc)})
        return False, None


def _perm_result(part, sub, case, got, exp, Perm):
    """`got` must be a Perm equal to the tuple exp."""
    if not isinstance(got, Perm) or tuple(got) != tuple(exp):
        part.violation(sub, case, {"expected": list(exp), "got": repr(got)})
        return False
    return True


# --------------------------------------------------------------------------------------------
# ops
# --------------------------------------------------------------------------------------------

OPS_PRED = ["stack_sortable", "pop_stack_sortable", "bubble_sortable", "quick_sortable",
            "west_2_stack_sortable", "west_3_stack_sortable"]


def ref_ops(p):
    """Everything the reference says about p: dict name -> expected value."""
    n = len(p)
    ident = D.identity(n)
    s1 = D.stack_pass(p)
    s2 = D.stack_pass(s1)
    s3 = D.stack_pass(s2)
    pp = D.pop_stack_pass(p)
    bb = D.bubble_pass(p)
    qq = D.quick_pass(p)
    exp = {
        "stack_sort": s1, "pop_stack_sort": pp, "bubble_sort": bb, "quick_sort": qq,
        "stack_sortable": s1 == ident, "pop_stack_sortable": pp == ident,
        "bubble_sortable": bb == ident, "quick_sortable": qq == ident,
        "west_2_stack_sortable": s2 == ident, "west_3_stack_sortable": s3 == ident,
        "count_stack_sorts": D.passes_needed(p, D.stack_pass),
        "count_pop_stack_sorts": D.passes_needed(p, D.pop_stack_pass),
    }
    # the oracle's own consistency (theorems): device output sorted <=> pattern characterisation.
    # A failure here is a bug in the reference, never a verdict about the library.
    p3 = D.patterns(p, 3)
    assert exp["stack_sortable"] == ((1, 2, 0) not in p3), p
    assert exp["pop_stack_sortable"] == ((1, 2, 0) not in p3 and (2, 0, 1) not in p3), p
    assert exp["bubble_sortable"] == ((1, 2, 0) not in p3 and (2, 1, 0) not in p3), p
    assert exp["west_2_stack_sortable"] == D.west2_by_patterns(p), p
    assert pp == D.pop_stack_pass_runs(p), p
    assert sorted(qq) == list(ident) and sorted(bb) == list(ident), p
    return exp


def _case(p, after, **kw):
    """The replayable case: the permutation, what was called, and the permutation the same worker
    evaluated immediately before (replay evaluates that one first: one step of history, so that
    a defect that depends on what was computed before is reproducible)."""
    case = {"perm": p}
    case.update(kw)
    if after is not None:
        case["after"] = after
    return case


def check_ops(part, Perm, p, after=None):
    p = tuple(p)
    exp = ref_ops(p)
    ok_all = True
    for name in ("stack_sort", "pop_stack_sort", "bubble_sort", "quick_sort"):
        case = _case(p, after, op=name)
        P = Perm(p)
        ok, got = _call(part, "ops", case, getattr(P, name))
        ok_all &= ok and _perm_result(part, "ops", case, got, exp[name], Perm)
        if tuple(P) != p:
            part.violation("ops", case, {"input mutated": repr(P)})
    P = Perm(p)
    for name in OPS_PRED + ["count_stack_sorts", "count_pop_stack_sorts"]:
        case = _case(p, after, op=name)
        ok, got = _call(part, "ops", case, getattr(P, name))
        if ok and (got != exp[name] or not isinstance(got, type(exp[name]))):
            part.violation("ops", case, {"expected": exp[name], "got": repr(got)})
            ok_all = False
    # second call on the same object, after everything else ran: same answers
    for name in ("stack_sort", "pop_stack_sort", "quick_sort", "bubble_sort"):
        case = _case(p, after, op=name, second_call=True)
        ok, got = _call(part, "ops", case, getattr(P, name))
        if ok:
            _perm_result(part, "ops", case, got, exp[name], Perm)
    return exp


def shard_ops(shard):
    n, pre = shard
    Perm = _P()
    part = Partial()
    cnt = {}
    prev = None
    for p in _perms_slice(n, pre):
        exp = check_ops(part, Perm, p, prev)
        prev = p
        for name in OPS_PRED:
            if exp[name]:
                cnt[name] = cnt.get(name, 0) + 1
        part.add(1, 1 if (n >= 3 and not exp["stack_sortable"]) else 0)
        part.outcomes.add(("passes", exp["count_stack_sorts"], exp["count_pop_stack_sorts"]))
        if n >= 5 and not pre and exp["count_stack_sorts"] >= 3:
            part.sample({"sub": "ops", "perm": p, "stack_sort": exp["stack_sort"],
                         "pop_stack_sort": exp["pop_stack_sort"], "quick_sort": exp["quick_sort"],
                         "count_stack_sorts": exp["count_stack_sorts"],
                         "count_pop_stack_sorts": exp["count_pop_stack_sorts"]}, cap=1)
    return part, (n, cnt)


# --------------------------------------------------------------------------------------------
# Simion-Schmidt
# --------------------------------------------------------------------------------------------

def check_ss(part, Perm, SS, p, after=None):
    """Both directions on one permutation.  Returns (image or None, preimage or None)."""
    p = tuple(p)
    n = len(p)
    res = []
    for inverse, in_domain, target_bad in ((False, not D.has_123(p), D.has_132),
                                           (True, not D.has_132(p), D.has_123)):
        case = _case(p, after, inverse=inverse)
        P = Perm(p)
        try:
            got = _guarded_call(SS, P, inverse=inverse) if inverse else _guarded_call(SS, P)
        except _Timeout:
            part.violation("ss", case, {"no answer within %g s of CPU time" % CALL_CPU_LIMIT: True})
            res.append(None)
            continue
        except ValueError as exc:
            if in_domain:
                part.violation("ss", case, {"in the domain, but raised": repr(exc)})
            res.append(None)
            continue
        except Exception as exc:  # noqa
            part.violation("ss", case, {"exception": repr(exc), "in_domain": in_domain})
            res.append(None)
            continue
        if not in_domain:
            part.violation("ss", case, {"outside the domain, expected ValueError": repr(got)})
            res.append(None)
            continue
        g = tuple(got)
        if not isinstance(got, Perm) or sorted(g) != list(range(n)):
            part.violation("ss", case, {"not a permutation of the same length": repr(got)})
            res.append(None)
            continue
        again = None
        try:
            again = _guarded_call(SS, Perm(p), inverse=inverse)
        except (Exception, _Timeout) as exc:  # noqa
            again = repr(exc)
        if again != got:
            part.violation("ss", case, {"first call": list(g), "second call": repr(again)})
        if target_bad(g):
            part.violation("ss", case, {"image is not in the target class": list(g)})
        elif D.ltr_minima(g) != D.ltr_minima(p):
            part.violation("ss", case, {"left-to-right minima moved": list(g),
                                        "expected (pos, val)": D.ltr_minima(p)})
        else:
            # round trip through the other direction
            try:
                back = _guarded_call(SS, Perm(g), inverse=not inverse)
                if tuple(back) != p:
                    part.violation("ss", case, {"image": list(g), "other direction gives": repr(back)})
            except (Exception, _Timeout) as exc:  # noqa
                part.violation("ss", case, {"image": list(g), "other direction raises": repr(exc)})
        res.append(g)
    return res


def shard_ss(shard):
    n, pre = shard
    Perm = _P()
    from permuta.permutils.bijections import Bijections
    SS = Bijections.simion_and_schmidt
    part = Partial()
    fwd, inv = [], []
    prev = None
    for p in _perms_slice(n, pre):
        f, b = check_ss(part, Perm, SS, p, prev)
        prev = p
        if f is not None:
            fwd.append(f)
        if b is not None:
            inv.append(b)
        nontriv = 1 if ((f is not None and f != p) or (b is not None and b != p)) else 0
        part.add(1, nontriv)
        part.outcomes.add(("ss", f is not None, b is not None))
        if nontriv and n >= 5 and not pre and f is not None:
            part.sample({"sub": "ss", "perm": p, "image": f, "ltr_minima": D.ltr_minima(p)}, cap=1)
    return part, (n, fwd, inv)


def ss_levels(ctx, n, fwd, inv):
    """Per length: the forward images are pairwise distinct and are exactly the 132-avoiders,
    i.e. the map is a bijection Av_n(123) -> Av_n(132) (sizes: Catalan)."""
    cat = D.catalan(n)
    for name, imgs in (("forward", fwd), ("inverse", inv)):
        case = {"n": n, "direction": name}
        if len(imgs) != cat:
            ctx.violation("ss_bijection", case, {"accepted inputs": len(imgs), "expected": cat})
        elif len(set(imgs)) != cat:
            ctx.violation("ss_bijection", case, {"distinct images": len(set(imgs)), "expected": cat})
    ctx.add(1, 1 if n >= 3 else 0)


# --------------------------------------------------------------------------------------------
# Simion-Schmidt on long inputs: the structured family "few left-to-right minima"
# --------------------------------------------------------------------------------------------
# The map is driven by the left-to-right minima only, so beyond the exhaustive lengths the family
# "ALL 123-avoiders of length n with at most k left-to-right minima" (Narayana many) together with
# "ALL 132-avoiders with at most k minima" (their reference images) is enumerated completely.

def check_ss_long(part, Perm, SS, p, after=None, sub="ss_long"):
    """p: a 123-avoider.  Forward image = reference image (a 132-avoider with the same minima),
    inverse of the image = p; both directions also judged without the reference map."""
    p = tuple(p)
    q = D.ss_forward_ref(p)
    ok = True
    h132 = D.has_132 if len(p) <= 40 else D.has_132_fast     # cubic brute force / quadratic
    for inverse, x, want, bad in ((False, p, q, h132), (True, q, p, D.has_123)):
        case = _case(x, after, inverse=inverse)
        try:
            got = _guarded_call(SS, Perm(x), inverse=inverse)
        except _Timeout:
            part.violation(sub, case, {"no answer within %g s of CPU time" % CALL_CPU_LIMIT: True})
            ok = False
            continue
        except Exception as exc:  # noqa
            part.violation(sub, case, {"in the domain, but raised": repr(exc)})
            ok = False
            continue
        g = tuple(got)
        if not isinstance(got, Perm) or sorted(g) != list(range(len(x))):
            part.violation(sub, case, {"not a permutation of the same length": repr(got)})
            ok = False
        elif D.ltr_minima(g) != D.ltr_minima(x):
            part.violation(sub, case, {"left-to-right minima moved": list(g)})
            ok = False
        elif bad(g):
            part.violation(sub, case, {"image is not in the target class": list(g)})
            ok = False
        elif g != want:
            part.violation(sub, case, {"expected": list(want), "got": list(g)})
            ok = False
    return q, ok


def shard_ss_long(shard):
    n, k, first = shard
    Perm = _P()
    from permuta.permutils.bijections import Bijections
    SS = Bijections.simion_and_schmidt
    part = Partial()
    fam = D.avoiders_123_with_minima(n, k, first)
    images = set()
    prev = None
    for p in fam:
        assert not D.has_123(p), p                    # the family generator (reference) is right
        q, _ = check_ss_long(part, Perm, SS, p, prev)
        assert not D.has_132(q) and D.ltr_minima(q) == D.ltr_minima(p) and D.ss_inverse_ref(q) == p, p
        images.add(q)
        prev = p
        part.add(1, 1 if q != p else 0)
        if n == 16 and k == 3 and first == 4 and q != p:
            part.sample({"sub": "ss_long", "perm": p, "image": q, "ltr_minima": D.ltr_minima(p)}, cap=1)
    assert len(images) == len(fam)                    # reference map injective on the family
    return part, (n, k, len(fam))


# --------------------------------------------------------------------------------------------
# Simion-Schmidt at sizes that straddle runtime thresholds: the "scale" family
# --------------------------------------------------------------------------------------------
# Sizes around 8/9, 32/33, 128/129, 256/257, 512/513 (hash-table sizes of small sets, small-int
# cache, byte buffers).  Shape: D.block_avoider(n, j, a, b) - the decreasing sequence with a block
# of j non-minima (values b..b+j-1 at positions a..a+j-1); j straddles the set-resize points
# 4/5, 18/19, 76/77.  mode "all": every (a, b); mode "ext": a and b among the 3 smallest, the
# middle and the 3 largest offsets (mode "ext5": 2 smallest, middle, 2 largest).

SCALE_J = [1, 2, 3, 4, 5, 6, 18, 19, 20, 76, 77, 78]


def _offsets(lo, hi, mode):
    if hi < lo:
        return []
    if mode == "all":
        return list(range(lo, hi + 1))
    w = 3 if mode == "ext" else 2
    return sorted({v for v in list(range(lo, lo + w)) + [(lo + hi) // 2] + list(range(hi - w + 1, hi + 1))
                   if lo <= v <= hi})


def shard_ss_scale(shard):
    n, j, mode = shard
    Perm = _P()
    from permuta.permutils.bijections import Bijections
    SS = Bijections.simion_and_schmidt
    part = Partial()
    images, members = set(), 0
    prev = None
    for a in _offsets(1, n - j, mode):
        for b in _offsets(0, n - j, mode):
            p = D.block_avoider(n, j, a, b)
            if p is None:
                continue
            members += 1
            assert not D.has_123(p), p
            q, _ = check_ss_long(part, Perm, SS, p, prev, sub="ss_scale")
            assert not D.has_132_fast(q) and D.ltr_minima(q) == D.ltr_minima(p) \
                and D.ss_inverse_ref(q) == p, p
            if n <= 14:
                assert not D.has_132(q), p
            images.add(q)
            prev = p
            part.add(1, 1 if q != p else 0)
            if n == 33 and j == 5 and q != p:
                part.sample({"sub": "ss_scale", "n": n, "j": j, "a": a, "b": b, "perm": p, "image": q},
                            cap=1)
    assert len(images) == members
    return part, (n, members)


# --------------------------------------------------------------------------------------------
# families
# --------------------------------------------------------------------------------------------

FAMILIES = ["smooth", "forest_like", "baxter", "simsun", "dihedral", "in_alternating_group",
            "yt_perm_avoids_22", "yt_perm_avoids_32", "av_231_and_mesh", "hard_mesh"]

_AV231_MESH = ((0, 1, 5, 2, 3, 4), frozenset([(1, 6), (4, 5), (4, 6)]))
_HARD = [((0, 1, 2), frozenset([(0, 0), (1, 1), (2, 2), (3, 3)])),
         ((0, 1, 2), frozenset([(0, 3), (1, 2), (2, 1), (3, 0)]))]


TWICE = 6      # lengths up to which every family predicate is evaluated a second time


def ref_families(p):
    shape = D.rsk_shape(p)
    fl = D.forest_like_by_patterns(p)
    # two published definitions of forest-like must agree (reference consistency, not a verdict)
    assert fl == D.forest_like_by_graph(p), p
    exp = {
        "smooth": D.smooth_by_patterns(p),
        "forest_like": fl,
        "baxter": D.baxter_by_vincular(p),
        "simsun": D.simsun_by_definition(p),
        "dihedral": D.dihedral_by_polygon(p),
        "in_alternating_group": D.even_by_cycles(p),
        "yt_perm_avoids_22": not D.shape_contains(shape, [2, 2]),
        "yt_perm_avoids_32": not D.shape_contains(shape, [3, 2]),
        # docstrings: avoids 231 and the mesh pattern / avoids the two mesh patterns
        "av_231_and_mesh": ((1, 2, 0) not in D.patterns(p, 3)
                            and not R.mesh_contains(p, *_AV231_MESH)),
        "hard_mesh": not any(R.mesh_contains(p, *m) for m in _HARD),
    }
    return exp


def check_families(part, props, p, Perm, after=None):
    p = tuple(p)
    exp = ref_families(p)
    P = Perm(p)
    for name in FAMILIES:
        case = _case(p, after, family=name)
        ok, got = _call(part, "families", case, getattr(props, name), P)
        if ok and (got is not exp[name]):
            part.violation("families", case, {"expected": exp[name], "got": repr(got)})
    if len(p) <= TWICE:
        # second round on a fresh, equal object after all ten predicates ran: same answers
        P2 = Perm(p)
        for name in FAMILIES:
            case = _case(p, after, family=name, second_call=True)
            ok, got = _call(part, "families", case, getattr(props, name), P2)
            if ok and (got is not exp[name]):
                part.violation("families", case, {"expected": exp[name], "got": repr(got)})
    return exp


def shard_families(shard):
    n, pre = shard
    Perm = _P()
    from permuta.bisc import perm_properties as props
    part = Partial()
    cnt = {}
    prev = None
    for p in _perms_slice(n, pre):
        exp = check_families(part, props, p, Perm, prev)
        prev = p
        vals = [exp[f] for f in FAMILIES]
        for f in FAMILIES:
            if exp[f]:
                cnt[f] = cnt.get(f, 0) + 1
        part.add(1, 1 if (any(vals) and not all(vals) and n >= 3) else 0)
        part.outcomes.add(tuple(vals))
        if n >= 5 and not pre and exp["baxter"] and not exp["smooth"]:
            part.sample({"sub": "families", "perm": p, "members": [f for f in FAMILIES if exp[f]]},
                        cap=1)
    return part, (n, cnt)


# --------------------------------------------------------------------------------------------
# deep: second, independent definitions
# --------------------------------------------------------------------------------------------

_BRUHAT = {}


def _bruhat_tables(n):
    t = _BRUHAT.get(n)
    if t is None:
        allp = R.perms(n)
        t = _BRUHAT[n] = (allp, {q: D.rank_matrix(q) for q in allp},
                          {q: D.inversions(q) for q in allp})
    return t


def check_deep(part, props, Perm, p, bruhat, after=None):
    p = tuple(p)
    P = Perm(p)
    l1, l12 = D.greene_l1_l12(p)
    l2 = l12 - l1
    for name, exp in (("yt_perm_avoids_22", not l2 >= 2),
                      ("yt_perm_avoids_32", not (l1 >= 3 and l2 >= 2))):
        case = _case(p, after, family=name, by="greene")
        ok, got = _call(part, "deep", case, getattr(props, name), P)
        if ok and got is not exp:
            part.violation("deep", case, {"expected": exp, "got": repr(got), "lambda1": l1,
                                          "lambda2": l2})
    if bruhat:
        allp, rm, ln = _bruhat_tables(len(p))
        exp = D.smooth_by_bruhat(p, allp, rm, ln)
        case = _case(p, after, family="smooth", by="bruhat")
        ok, got = _call(part, "deep", case, props.smooth, P)
        if ok and got is not exp:
            part.violation("deep", case, {"expected": exp, "got": repr(got)})
    return l1, l2


def shard_deep(shard):
    n, pre, bruhat = shard
    Perm = _P()
    from permuta.bisc import perm_properties as props
    part = Partial()
    prev = None
    for p in _perms_slice(n, pre):
        l1, l2 = check_deep(part, props, Perm, p, bruhat, prev)
        prev = p
        part.add(1, 1 if l2 >= 2 else 0)
        part.outcomes.add(("shape", l1, l2))
        if n == 5 and l2 >= 2 and l1 >= 3:
            part.sample({"sub": "deep", "perm": p, "lambda1": l1, "lambda2": l2}, cap=1)
    return part


# --------------------------------------------------------------------------------------------
# ops_scale: the sorting operators at sizes derived from the interpreter's limits
# --------------------------------------------------------------------------------------------
# Sizes: around the hash-table / small-int thresholds (9, 10, 33, 34, 257, 258) and around the
# recursion limit L = sys.getrecursionlimit(): L/2-1 .. L/2+2, L-1 .. L+2, 3L/2.  Shapes that make
# the devices work (SHAPES below), reference = the iterative device simulations of ref_c12 (explicit
# stack, no recursion).  The recursive library functions may run out of stack on long inputs: a
# RecursionError is counted as "no answer" and is not a violation; a wrong answer is.
# The pass counters are only called when the reference needs at most COUNT_CAP passes (a counter
# costs passes x one operator call; the operator itself is checked on every shape anyway).

COUNT_CAP = 12
SCALE_CPU_LIMIT = 60.0


def _coprime_ks(n):
    return [k for k in (2, 3, 5, 7, 11, 13, 17) if math.gcd(k, n) == 1][:3]


def _sum_of(block, n):
    m = len(block)
    out = [b + v for b in range(0, n - m + 1, m) for v in block]
    return tuple(out + list(range(len(out), n)))


def scale_shapes(n):
    """name -> permutation of length n (all deterministic, all distinct by name)."""
    ident = tuple(range(n))
    sh = {"identity": ident, "reverse": ident[::-1]}
    for k in _coprime_ks(n):
        sh["%d*i mod n" % k] = tuple((k * i) % n for i in range(n))
    for r in (1, n // 2, n - 1):
        sh["identity rotated by %s" % {1: "1", n // 2: "n/2", n - 1: "n-1"}[r]] = ident[r:] + ident[:r]
    sh["reverse rotated by n/2"] = ident[::-1][n // 2:] + ident[::-1][:n // 2]
    for b in (2, 3):
        lay = tuple(v for lo in range(0, n, b) for v in range(min(lo + b, n) - 1, lo - 1, -1))
        sh["layered, blocks of %d" % b] = lay
        sh["reverse of layered, blocks of %d" % b] = lay[::-1]
    for name, q in (("0", 0), ("n/2", n // 2), ("n-2", n - 2)):
        sh["%s then decreasing" % name] = (q,) + tuple(v for v in range(n - 1, -1, -1) if v != q)
    for name, q in (("n/2", n // 2), ("n-1", n - 1)):
        sh["%s then increasing" % name] = (q,) + tuple(v for v in range(n) if v != q)
    for d in (3, 7):
        a = list(ident)
        for i in range(0, n - 1, d):
            a[i], a[i + 1] = a[i + 1], a[i]
        sh["identity, every %d-th adjacent pair transposed" % d] = tuple(a)
    sh["direct sum of copies of 231"] = _sum_of((1, 2, 0), n)
    sh["direct sum of copies of 2413"] = _sum_of((1, 3, 0, 2), n)
    sh["direct sum of copies of 3241"] = _sum_of((2, 1, 3, 0), n)
    sk = _sum_of((1, 2, 0), n)
    sh["direct sum of copies of 231, turned by 180 degrees"] = tuple(n - 1 - v for v in sk)[::-1]
    return sh


def scale_sizes(quick):
    """Runtime thresholds (small hash tables, small-int cache) and every threshold the code under
    test names itself: integer literals >= 8 of the package, the recursion limit L and L/2
    (mc/thresholds.py reads them from the tree under test), each straddled by c-1, c, c+1, c+2
    (quick: only c, c+1 above 300); thorough adds 3L/2.  Returns (L, constants, sizes)."""
    import sys
    from ..core import REPO
    from ..thresholds import code_constants, sizes_around
    lim = sys.getrecursionlimit()
    named = code_constants(REPO)
    hi = lim + 100 if quick else 2 * lim + 100
    sizes = set([9, 10, 33, 34, 257, 258]) | set(sizes_around(named, 8, hi))
    if quick:
        sizes = {n for n in sizes if n <= 300 or n in named or n - 1 in named}
        sizes.add(lim // 2 + 2)
    else:
        sizes.add(3 * lim // 2)
    return lim, named, sorted(sizes)


def ref_ops_scale(p):
    n = len(p)
    ident = D.identity(n)
    s1 = D.stack_pass(p)
    s2 = D.stack_pass(s1)
    s3 = D.stack_pass(s2)
    pp, bb, qq = D.pop_stack_pass(p), D.bubble_pass(p), D.quick_pass(p)
    assert pp == D.pop_stack_pass_runs(p)
    exp = {"stack_sort": s1, "pop_stack_sort": pp, "bubble_sort": bb, "quick_sort": qq,
           "stack_sortable": s1 == ident, "pop_stack_sortable": pp == ident,
           "bubble_sortable": bb == ident, "quick_sortable": qq == ident,
           "west_2_stack_sortable": s2 == ident, "west_3_stack_sortable": s3 == ident}
    for name, one in (("count_stack_sorts", D.stack_pass), ("count_pop_stack_sorts", D.pop_stack_pass)):
        cur, k = tuple(p), 0
        while cur != ident and k <= COUNT_CAP:
            cur = one(cur)
            k += 1
        exp[name] = k if cur == ident else None        # None: more than COUNT_CAP passes, not asked
    return exp


def check_ops_scale(part, Perm, n, shape):
    import signal
    p = scale_shapes(n)[shape]
    assert sorted(p) == list(range(n)), (n, shape)
    exp = ref_ops_scale(p)
    P = Perm(p)
    for name, e in exp.items():
        if e is None:
            part.bump("ops_scale: counter not asked (reference needs more than %d passes)" % COUNT_CAP)
            continue
        case = {"n": n, "shape": shape, "op": name}
        if ("ops_scale", name) in _HUNG:
            part.bump("calls skipped after a timeout of the same entry point")
            continue
        old = signal.signal(signal.SIGVTALRM, _on_alarm)
        signal.setitimer(signal.ITIMER_VIRTUAL, SCALE_CPU_LIMIT)
        try:
            got = getattr(P, name)()
        except RecursionError:
            part.bump("ops_scale: RecursionError (no answer) %s n=%d" % (name, n))
            continue
        except _Timeout:
            _HUNG.add(("ops_scale", name))
            part.violation("ops_scale", case, {"no answer within %g s of CPU time" % SCALE_CPU_LIMIT: True})
            continue
        except Exception as exc:  # noqa
            part.violation("ops_scale", case, {"exception": repr(exc)})
            continue
        finally:
            signal.setitimer(signal.ITIMER_VIRTUAL, 0)
            signal.signal(signal.SIGVTALRM, old)
        part.bump("ops_scale: answers")
        if isinstance(e, tuple):
            g = tuple(got)
            if not isinstance(got, Perm) or g != e:
                i = next((i for i in range(min(len(g), n)) if g[i] != e[i]), min(len(g), n))
                part.violation("ops_scale", case, {"first difference at index": i,
                                                   "expected there": list(e[i:i + 8]),
                                                   "got there": list(g[i:i + 8]), "length got": len(g)})
        elif got != e or not isinstance(got, type(e)):
            part.violation("ops_scale", case, {"expected": e, "got": repr(got)})
    return exp


def shard_ops_scale(shard):
    n, shape = shard
    Perm = _P()
    part = Partial()
    exp = check_ops_scale(part, Perm, n, shape)
    part.add(1, 1 if not exp["stack_sortable"] else 0)
    if n == 33 and shape == "3*i mod n" or n == 34 and shape == "3*i mod n":
        part.sample({"sub": "ops_scale", "n": n, "shape": shape,
                     "stack passes (reference, capped)": exp["count_stack_sorts"],
                     "pop-stack passes (reference, capped)": exp["count_pop_stack_sorts"]}, cap=1)
    return part


# --------------------------------------------------------------------------------------------
# gens (E2): histories of LIVE generators of dihedral_group and of calls of dihedral()
# --------------------------------------------------------------------------------------------
# dihedral_group(n) is the one generator-returning function of the property; dihedral(p) opens
# such a generator internally and abandons it as soon as it has found p.  Operations:
#   ("open", n)     g = dihedral_group(n)              (<= MAXOPEN per history, <= MAXLIVE alive)
#   ("next", i)     next(g_i)
#   ("drop", i)     g_i.close()                        (an abandoned enumeration)
#   ("pred", n, k)  dihedral(Perm(pool[n][k]))         (members and a non-member of length n)
#   ("full", n)     list(dihedral_group(n))            (a complete enumeration in between)
# Oracle after every operation: every item a generator has yielded is a member of D_n (polygon
# definition) it has not yielded before, StopIteration comes exactly after 2n items, predicate
# answers equal the definition, a complete enumeration is D_n without repeats; read-back: every
# live generator, drained at the end of the history, yields exactly the members it had not
# yielded yet, and a fresh complete enumeration afterwards is again D_n.  (The ORDER of the
# enumeration is not documented and not demanded.)
# State = complete: per generator (length, alive/exhausted/dropped, items yielded so far), every
# mutable container at module/class level of the two modules, the size of every lru_cache in
# them, and the order of a fresh complete enumeration per length (this makes shared rotating
# buffers visible).  Every replay starts from restored module containers and cleared caches.

_GEN_MODULES = ["permuta.permutils.groups", "permuta.bisc.perm_properties"]
_SNAP = {}


def _containers():
    """(module name, attribute path, object) of every mutable container bound at module or
    class level in the modules of the generator functions."""
    import sys
    import collections
    out = []
    kinds = (list, dict, set, collections.deque)
    for name in _GEN_MODULES:
        mod = sys.modules.get(name)
        if mod is None:
            continue
        for k, v in sorted(vars(mod).items()):
            if k.startswith("__"):
                continue
            if isinstance(v, kinds):
                out.append((name, k, v))
            elif isinstance(v, type) and getattr(v, "__module__", None) == name:
                for ck, cv in sorted(vars(v).items()):
                    if isinstance(cv, kinds) and not ck.startswith("__"):
                        out.append((name, v.__name__ + "." + ck, cv))
    return out


def _caches():
    import sys
    out = []
    for name in _GEN_MODULES:
        mod = sys.modules.get(name)
        for k, v in sorted(vars(mod).items()) if mod else []:
            if callable(getattr(v, "cache_clear", None)) and callable(getattr(v, "cache_info", None)):
                out.append((name, k, v))
    return out


def _reset_hidden():
    """Bring everything the generator functions could keep between calls back to the state at
    import time: module/class level containers are restored in place, lru_caches are cleared."""
    import copy
    for name, k, v in _containers():
        key = (name, k)
        if key not in _SNAP:
            _SNAP[key] = copy.deepcopy(v)
            continue
        snap = copy.deepcopy(_SNAP[key])
        if isinstance(v, dict):
            v.clear()
            v.update(snap)
        elif isinstance(v, set):
            v.clear()
            v.update(snap)
        else:
            v.clear()
            v.extend(snap)
    for _, _, f in _caches():
        f.cache_clear()


def _freeze(x):
    import collections
    if isinstance(x, dict):
        return tuple(sorted((repr(k), _freeze(v)) for k, v in x.items()))
    if isinstance(x, (list, tuple, collections.deque)):
        return tuple(_freeze(v) for v in x)
    if isinstance(x, (set, frozenset)):
        return tuple(sorted(repr(_freeze(v)) for v in x))
    if isinstance(x, (int, str, float, bool)) or x is None:
        return x
    return repr(x)


class GenModel:
    MAXOPEN = 4
    MAXLIVE = 3

    def __init__(self, lengths):
        self.lengths = tuple(lengths)
        self.group = {n: frozenset(p for p in R.perms(n) if D.dihedral_by_polygon(p))
                      for n in self.lengths}
        for n in self.lengths:
            assert len(self.group[n]) == 2 * n
        self.pool = {}
        for n in self.lengths:
            ident = tuple(range(n))
            rot1 = tuple((i + 1) % n for i in range(n))
            rotl = tuple((i + n - 1) % n for i in range(n))
            refl = tuple((1 - i) % n for i in range(n))
            pool = [ident, rot1, rotl, refl]
            if n >= 4:
                pool.append(ident[:-2] + (n - 1, n - 2))       # not a symmetry of the n-gon
            self.pool[n] = pool
        self.menu = ([("open", n) for n in self.lengths]
                     + [("next", i) for i in range(self.MAXOPEN)]
                     + [("drop", i) for i in range(self.MAXOPEN)]
                     + [("pred", n, k) for n in self.lengths for k in range(len(self.pool[n]))]
                     + [("full", n) for n in self.lengths])

    def enabled(self, canon, hist):
        slots = canon[0]
        live = sum(1 for s in slots if s[1] == "live")
        for op in self.menu:
            if op[0] == "open" and (len(slots) >= self.MAXOPEN or live >= self.MAXLIVE):
                continue
            if op[0] in ("next", "drop") and (op[1] >= len(slots) or slots[op[1]][1] != "live"):
                continue
            yield op

    def _enum_ok(self, n, items):
        """items: a complete enumeration; None if it is D_n without repeats, else a description."""
        its = [tuple(x) for x in items]
        if len(its) != 2 * n or set(its) != self.group[n]:
            return {"complete enumeration of length": n, "got": its,
                    "missing": sorted(self.group[n] - set(its)),
                    "repeated or foreign": sorted({x for x in its if its.count(x) > 1
                                                   or x not in self.group[n]})}
        return None

    def build(self, hist):
        Perm = _P()
        from permuta.permutils.groups import dihedral_group
        from permuta.bisc.perm_properties import dihedral
        _reset_hidden()
        gens = []      # [generator, n, status, items]
        viols = []
        last = len(hist) - 1
        for hi, op in enumerate(hist):
            op = tuple(op)
            v = None
            try:
                if op[0] == "open":
                    gens.append([dihedral_group(op[1]), op[1], "live", []])
                elif op[0] == "next":
                    g = gens[op[1]]
                    n = g[1]
                    try:
                        item = _guarded_call(next, g[0])
                        t = tuple(item)
                        if not isinstance(item, Perm) or t not in self.group[n]:
                            v = {"op": op, "yielded a non-member": repr(item)}
                        elif t in g[3]:
                            v = {"op": op, "yielded twice": list(t), "so far": g[3]}
                        g[3].append(t)
                    except StopIteration:
                        if len(g[3]) != 2 * n:
                            v = {"op": op, "stopped after": g[3],
                                 "missing": sorted(self.group[n] - set(g[3]))}
                        g[2] = "exhausted"
                elif op[0] == "drop":
                    gens[op[1]][0].close()
                    gens[op[1]][2] = "dropped"
                elif op[0] == "pred":
                    p = self.pool[op[1]][op[2]]
                    got = _guarded_call(dihedral, Perm(p))
                    if got is not (p in self.group[op[1]]):
                        v = {"op": op, "perm": list(p), "expected": p in self.group[op[1]],
                             "got": repr(got)}
                elif op[0] == "full":
                    bad = self._enum_ok(op[1], _guarded_call(list, dihedral_group(op[1])))
                    if bad:
                        v = dict(bad, op=op)
            except _Timeout:
                v = {"op": op, "no answer within %g s of CPU time" % CALL_CPU_LIMIT: True}
            except Exception as exc:  # noqa
                v = {"op": op, "exception": repr(exc)}
            if v is not None and hi == last:
                viols.append(v)
        slots = tuple((g[1], g[2], tuple(g[3])) for g in gens)
        hidden = (tuple((nm, k, _freeze(c)) for nm, k, c in _containers()),
                  tuple((nm, k, f.cache_info().currsize) for nm, k, f in _caches()))
        # read-back (the objects of this replay are thrown away afterwards)
        try:
            for i, g in enumerate(gens):
                if g[2] != "live":
                    continue
                rest = []
                for item in g[0]:
                    rest.append(tuple(item))
                    if len(rest) > 2 * g[1] + 2:
                        break
                bad = self._enum_ok(g[1], g[3] + rest)
                if bad:
                    viols.append({"read-back": "generator %d drained at the end of the history" % i,
                                  "yielded before": g[3], "yielded when drained": rest,
                                  "missing": bad["missing"],
                                  "repeated or foreign": bad["repeated or foreign"]})
            probe = []
            for n in self.lengths:
                fresh = [tuple(x) for x in dihedral_group(n)]
                probe.append(tuple(fresh))
                bad = self._enum_ok(n, fresh)
                if bad:
                    viols.append(dict(bad, **{"read-back": "fresh complete enumeration at the end"}))
        except Exception as exc:  # noqa
            viols.append({"read-back": "exception", "exception": repr(exc)})
            probe = ["exception"]
        return (slots, hidden, tuple(probe)), viols


def shard_gens(shard):
    from ..explore import bfs
    lengths, depth = shard
    part = Partial()
    model = GenModel(lengths)
    n0 = lengths[0]
    warm = [(), (("open", n0), ("next", 0)), (("pred", n0, 1),),
            (("open", n0), ("next", 0), ("next", 0), ("next", 0))]

    def on_violation(hist, v):
        part.violation("gens", {"lengths": list(lengths), "history": [list(o) for o in hist]}, v)

    st = bfs(warm, model.menu, model.build, depth, on_violation, enabled=model.enabled)
    part.add(st.transitions, st.states)
    part.bump("gens_states", st.states)
    part.bump("gens_transitions", st.transitions)
    if st.sample_histories:
        part.sample({"sub": "gens", "lengths": list(lengths), "history": st.sample_histories[-1]}, cap=1)
    return part, (st.states, st.transitions, st.depth_completed)


# --------------------------------------------------------------------------------------------
# fresh: results that are mutable containers are damaged in place, then everybody asks again
# --------------------------------------------------------------------------------------------
# The public entry points of the property return Perm / bool / int (immutable).  The helpers that
# feed them return lists (Perm._stack_sort/_bubble_sort/_quick_sort: list; perm_properties.
# _perm_to_yt: list of lists).  Nothing is demanded of the helpers themselves (they are skipped
# if they do not exist); but after their result was damaged at every nesting level the PUBLIC
# answers - on the same object, on a new equal object - must still be the reference answers.

def _damage(x):
    try:
        for y in list(x):
            if isinstance(y, (list, dict, set)):
                _damage(y)
        if isinstance(x, list):
            x.reverse()
            x.append(-7)
            del x[:1]
        elif isinstance(x, (dict, set)):
            x.clear()
    except Exception:  # noqa  (immutable result: nothing to damage)
        pass


def check_fresh(part, Perm, props, p, after=None):
    p = tuple(p)
    exp = ref_ops(p)
    shape = D.rsk_shape(p)
    expf = {"yt_perm_avoids_22": not D.shape_contains(shape, [2, 2]),
            "yt_perm_avoids_32": not D.shape_contains(shape, [3, 2])}
    P = Perm(p)
    helpers = [("_stack_sort", ["stack_sort", "stack_sortable", "count_stack_sorts",
                                "west_2_stack_sortable"]),
               ("_bubble_sort", ["bubble_sort", "bubble_sortable"]),
               ("_quick_sort", ["quick_sort", "quick_sortable"])]
    for helper, publics in helpers:
        fn = getattr(Perm, helper, None)
        if fn is None:
            continue
        for arg in (list(p), list(P)):
            try:
                res = fn(arg)
            except Exception:  # noqa  (helper with another signature: not ours to judge)
                break
            _damage(res)
            _damage(arg)
            for Q in (P, Perm(p)):
                for name in publics:
                    case = _case(p, after, op=name, damaged=helper)
                    ok, got = _call(part, "fresh", case, getattr(Q, name))
                    if not ok:
                        continue
                    e = exp[name]
                    good = (isinstance(got, Perm) and tuple(got) == e) if isinstance(e, tuple) \
                        else (got == e and isinstance(got, type(e)))
                    if not good:
                        part.violation("fresh", case, {"expected": e, "got": repr(got)})
    fn = getattr(props, "_perm_to_yt", None)
    if fn is not None:
        for arg in (P, Perm(p)):
            try:
                res = fn(arg)
            except Exception:  # noqa
                break
            _damage(res)
            for Q in (P, Perm(p)):
                for name in ("yt_perm_avoids_22", "yt_perm_avoids_32"):
                    case = _case(p, after, family=name, damaged="_perm_to_yt")
                    ok, got = _call(part, "fresh", case, getattr(props, name), Q)
                    if ok and got is not expf[name]:
                        part.violation("fresh", case, {"expected": expf[name], "got": repr(got)})
    # the public results themselves: damage attempt on whatever comes back, ask again
    for name in ("stack_sort", "pop_stack_sort", "bubble_sort", "quick_sort"):
        case = _case(p, after, op=name, damaged="own result")
        ok, got = _call(part, "fresh", case, getattr(P, name))
        if ok:
            _damage(got)
            ok, got = _call(part, "fresh", case, getattr(P, name))
            if ok:
                _perm_result(part, "fresh", case, got, exp[name], Perm)


def shard_fresh(shard):
    n, pre = shard
    Perm = _P()
    from permuta.bisc import perm_properties as props
    part = Partial()
    prev = None
    for p in _perms_slice(n, pre):
        check_fresh(part, Perm, props, p, prev)
        prev = p
        part.add(1, 1 if n >= 3 and p != tuple(range(n)) else 0)
    return part


# --------------------------------------------------------------------------------------------

def run(ctx, only=None):
    def want(name):
        return only is None or name in only

    quick = ctx.quick
    ctx.rule = ("one case = one permutation with every operator/predicate of the sub-check evaluated "
                "on it (each permutation once per sub-check). non-trivial: ops - length>=3 and not "
                "sorted by one stack pass; ss - the permutation is in the domain of at least one "
                "direction and is moved by the map (same for ss_long); families - length>=3 and member of some but not "
                "all of the ten families; ops_scale - shape not sorted by one stack pass; gens - distinct states of the history search; fresh - length>=3, not the identity; deep - tableau has a second row of length>=2")
    ctx.assumptions = [
        "reference definitions in mc/ref_c12.py; the quicksort operator is the one described in the "
        "comments of Perm._quick_sort (strong fixed points stay, blocks between them are partitioned "
        "around their first entry)",
        "library conventions taken from docstrings/tests/shipped data: dihedral is False for "
        "length<=2; in_alternating_group is True for length 0,1 and False for BOTH permutations of "
        "length 2; smooth means 0213- and 1032-avoiding (complement of the 3412/4231 convention)",
        "bkv_sortable (prints, not named in the property) is not examined",
        "lengths beyond the bounds are not explored",
    ]
    n_ops = 8 if quick else 9
    n_ss = 8 if quick else 10
    n_fam = 8 if quick else 9
    n_greene = 7 if quick else 8
    n_bruhat = 6

    def shards_upto(nmax, per):
        out = []
        for n in range(0, nmax + 1):
            out += _prefixes(n, per)
        return out

    def merge_counts(payloads):
        merged = {}
        for n, cnt in payloads:
            m = merged.setdefault(n, {})
            for k, v in cnt.items():
                m[k] = m.get(k, 0) + v
        return merged

    if want("ops"):
        e0 = ctx.evals
        res = ctx.pmap(shard_ops, shards_upto(n_ops, 1260 if quick else 2520))
        merged = merge_counts(res)
        for n in merged:
            for name in OPS_PRED:
                seq = D.KNOWN.get(name)
                if seq and n < len(seq):
                    assert merged[n].get(name, 0) == seq[n], ("reference count vs sequence", name, n)
        ctx.bounds["ops"] = "all permutations of length 0..%d; 4 operators, 6 predicates, 2 counters" % n_ops
        ctx.section("ops", evaluations=ctx.evals - e0)
    if want("ss"):
        e0 = ctx.evals
        res = ctx.pmap(shard_ss, shards_upto(n_ss, 2520 if quick else 20160))
        fwd, inv = {}, {}
        for n, f, b in res:
            fwd.setdefault(n, []).extend(f)
            inv.setdefault(n, []).extend(b)
        for n in sorted(fwd):
            ss_levels(ctx, n, fwd[n], inv[n])
        ctx.bounds["ss"] = ("all permutations of length 0..%d, both directions (domain and "
                            "non-domain); bijection per length" % n_ss)
        ctx.section("ss", evaluations=ctx.evals - e0,
                    domain_sizes=[len(fwd[n]) for n in sorted(fwd)])
    if want("ss_long"):
        e0 = ctx.evals
        # (max length, max number of left-to-right minima); lengths <= n_ss are covered by "ss"
        plan = [(20, 3)] if quick else [(24, 3), (20, 4)]
        # dual family: (max length, max number of NON-minima); and all avoiders of these lengths
        dual = [(20, 2)] if quick else [(24, 2), (20, 3)]
        full = [9, 10] if quick else [9, 10, 11, 12]
        todo = {(n, k) for nmax, kmax in plan for n in range(1, nmax + 1)
                for k in range(1, min(kmax, n) + 1)}
        todo |= {(n, n - j) for nmax, jmax in dual for n in range(1, nmax + 1)
                 for j in range(0, jmax + 1) if n - j >= 1}
        todo |= {(n, k) for n in full for k in range(1, n + 1)}
        todo = sorted(todo)
        shards = [(n, k, first) for n, k in todo for first in range(k - 1, n if k > 1 else 1)]
        res = ctx.pmap(shard_ss_long, shards)
        sizes = {}
        for n, k, m in res:
            sizes[(n, k)] = sizes.get((n, k), 0) + m
        for (n, k), m in sizes.items():
            assert m == D.narayana(n, k), ("family size vs Narayana number", n, k, m)
        ctx.bounds["ss_long"] = ("all 123-avoiders (forward) and all 132-avoiders (inverse) with " +
                                 " / ".join("at most %d left-to-right minima up to length %d" % (k, n)
                                            for n, k in plan) + " / " +
                                 " / ".join("at most %d non-minima up to length %d" % (j, n)
                                            for n, j in dual) +
                                 " / any number of minima at lengths %s" % full)
        ctx.section("ss_long", evaluations=ctx.evals - e0, family_size=sum(sizes.values()))
    if want("ss_scale"):
        e0 = ctx.evals
        if quick:
            sizes = [(range(9, 15), "all"), (range(31, 37), "all"), (range(256, 259), "ext5")]
        else:
            sizes = [(range(9, 15), "all"), (range(31, 37), "all"), (range(63, 67), "all"),
                     (range(127, 133), "ext"), (range(255, 261), "ext"), (range(511, 515), "ext5")]
        _, named, nsizes = scale_sizes(quick)
        covered = {n for rng, _ in sizes for n in rng}
        extra = [n for n in nsizes if n not in covered and n <= (600 if quick else 1100)]
        sizes += [([n], "all" if n <= 40 else "ext5") for n in extra]
        shards = [(n, j, mode) for rng, mode in sizes for n in rng for j in SCALE_J if j <= n - 2]
        shards.sort(key=lambda t: t[0])
        res = ctx.pmap(shard_ss_scale, shards)
        ctx.bounds["ss_scale"] = {
            "shape": "decreasing sequence with a block of j non-minima (values b..b+j-1 at positions "
                     "a..a+j-1), forward map; its reference image, inverse map",
            "j": SCALE_J,
            "constants_in_code": named, "extra_sizes_from_constants": extra,
            "lengths": [{"n": [rng[0], rng[-1]], "offsets(a,b)": mode} for rng, mode in sizes]}
        ctx.section("ss_scale", evaluations=ctx.evals - e0,
                    members_by_length={str(n): sum(m for nn, m in res if nn == n)
                                       for n in sorted({nn for nn, _ in res})})
    if want("ops_scale"):
        e0 = ctx.evals
        lim, named, sizes = scale_sizes(quick)
        shards = [(n, shape) for n in sizes for shape in scale_shapes(n)]     # simplest first
        ctx.pmap(shard_ops_scale, shards)
        ctx.bounds["ops_scale"] = {"recursion limit": lim, "constants_in_code": named, "lengths": sizes,
                                   "shapes": sorted(scale_shapes(sizes[0])),
                                   "functions": "4 operators, 6 predicates; 2 counters when <= %d passes" % COUNT_CAP}
        ctx.section("ops_scale", evaluations=ctx.evals - e0, lengths=sizes)
    if want("gens"):
        e0 = ctx.evals
        depth = 6 if quick else 8
        models = [(3,), (4,), (5,), (3, 4)] if quick else [(3,), (4,), (5,), (6,), (3, 4), (4, 5), (3, 5)]
        res = ctx.pmap(shard_gens, [(m, depth) for m in models])
        ctx.states = sum(r[0] for r in res)
        ctx.transitions = sum(r[1] for r in res)
        ctx.traces = ctx.transitions
        ctx.bounds["gens"] = {"depth": depth, "length sets": models, "generators opened per history": GenModel.MAXOPEN,
                              "alive at once": GenModel.MAXLIVE,
                              "initial states": ["fresh", "one generator advanced once", "after a predicate call",
                                                 "one generator advanced three times"]}
        ctx.section("gens", states=ctx.states, transitions=ctx.transitions,
                    per_model=[list(r) for r in res])
    if want("fresh"):
        e0 = ctx.evals
        ctx.pmap(shard_fresh, shards_upto(6 if quick else 7, 720))
        ctx.bounds["fresh"] = ("all permutations of length 0..%d: results of the list-returning helpers "
                               "damaged in place, public answers asked again on the same and on an equal "
                               "object" % (6 if quick else 7))
        ctx.section("fresh", evaluations=ctx.evals - e0)
    if want("families"):
        e0 = ctx.evals
        res = ctx.pmap(shard_families, shards_upto(n_fam, 630 if quick else 1260))
        merged = merge_counts(res)
        for n in merged:
            for name in FAMILIES:
                seq = D.KNOWN.get(name)
                if seq and n < len(seq):
                    assert merged[n].get(name, 0) == seq[n], ("reference count vs sequence", name, n,
                                                              merged[n].get(name, 0), seq[n])
        ctx.bounds["families"] = "all permutations of length 0..%d; ten predicates" % n_fam
        ctx.section("families", evaluations=ctx.evals - e0,
                    counts_at_longest=merged[max(merged)])
        ctx.extra["family_sizes_by_length"] = {str(n): merged[n] for n in sorted(merged)}
    if want("deep"):
        e0 = ctx.evals
        for n in range(0, n_bruhat + 1):
            _bruhat_tables(n)            # before the fork
        shards = []
        for n in range(0, n_greene + 1):
            shards += [(n, pre, n <= n_bruhat) for n, pre in _prefixes(n, 24 if n <= 6 else 720)]
        ctx.pmap(shard_deep, shards)
        ctx.bounds["deep"] = ("Greene's theorem for yt_perm_avoids_22/32 on length 0..%d; Bruhat upper "
                              "interval rank symmetry for smooth on length 0..%d" % (n_greene, n_bruhat))
        ctx.section("deep", evaluations=ctx.evals - e0)


# --------------------------------------------------------------------------------------------

def replay(ctx, rec):
    Perm = _P()
    _HUNG.clear()
    sub, case = rec["sub"], rec["case"]
    from permuta.permutils.bijections import Bijections
    from permuta.bisc import perm_properties as props
    SS = Bijections.simion_and_schmidt
    if sub == "ops_scale":
        check_ops_scale(ctx, Perm, case["n"], case["shape"])
        return
    if sub == "gens":
        model = GenModel(tuple(case["lengths"]))
        hist = tuple(tuple(op) for op in case["history"])
        for i in range(0, len(hist) + 1):
            _, viols = model.build(hist[:i])
            if viols:
                ctx.violation("gens", case, viols[0])
                break
        return
    if sub == "ss_bijection":
        n = case["n"]
        scratch = Partial()
        fwd, inv = [], []
        for p in R.perms(n):
            f, b = check_ss(scratch, Perm, SS, p)
            if f is not None:
                fwd.append(f)
            if b is not None:
                inv.append(b)
        ss_levels(ctx, n, fwd, inv)
        return
    p = tuple(case["perm"])
    after = tuple(case["after"]) if case.get("after") is not None else None
    todo = [(after, Partial())] if after is not None else []
    todo.append((p, ctx))          # the predecessor's own verdict is not part of this case
    for q, part in todo:
        aft = after if q is p else None
        if sub == "ops":
            check_ops(part, Perm, q, aft)
        elif sub == "ss":
            check_ss(part, Perm, SS, q, aft)
        elif sub in ("ss_long", "ss_scale"):
            # the recorded permutation is the argument of the failing direction
            # (a 132-avoider when the inverse failed); the predecessor is always a 123-avoider
            x = D.ss_inverse_ref(q) if (q is p and case["inverse"]) else q
            check_ss_long(part, Perm, SS, x, aft, sub=sub)
        elif sub == "families":
            check_families(part, props, q, Perm, aft)
        elif sub == "fresh":
            check_fresh(part, Perm, props, q, aft)
        elif sub == "deep":
            check_deep(part, props, Perm, q, len(q) <= 6, aft)
        else:
            raise ValueError("unknown sub-check %r" % sub)
