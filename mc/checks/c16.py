"""C16 - the 'finitely many simples' verdict matches the class's actual simples.

E1 (bounded exhaustive enumeration against a reference).  The reference (mc/ref_c16.py) is the
Brignall-Ruskuc-Vatter criterion evaluated from the definitions:

  finitely many simples  <=>  every family of special simples (4 parallel alternation families,
                              16 wedge simple families) has its long members containing a basis
                              element  AND  only finitely many words of M (proper pin sequences)
                              decode to a permutation avoiding the basis.

* families: built from the definition of alternation / wedge alternation / simple one-point
  extension, not from the tables in pin_words.py; the facts used (counts, nesting, stabilisation
  of the contained patterns) are re-verified by computation in every run ("family" shards).
* pin sequences: the tree of all words of M up to length D is decoded geometrically and the set
  of contained patterns of length <= 4 is tabulated once; a basis has finitely many pin
  sequences iff no word of length D avoids it.  "tree extinct before D" => finite is exact;
  "alive at D" => infinite holds for the bases explored because their extinction lengths are
  mathematical constants (measured: largest finite one is 10, D >= 13).
* Schmerl-Trotter: an 'infinitely many' verdict is also confronted with the reference
  enumeration of the simples of the class: no two consecutive lengths in 4..N may both be empty.

* history: the ways of asking are also exercised as SEQUENCES of queries in one process (fresh
  forked process per sequence, so whatever the library remembers between calls is part of the
  state): all bases that are element-by-element symmetric to each other (same multiset of
  symmetry classes of the elements) are asked one after the other, forwards and backwards, and
  every ordered pair of such bases from different symmetry orbits with different reference
  verdicts is asked on its own; each answer against the reference.

* forms: every entry point x every argument form (list, tuple, set, frozenset, Basis, reversed,
  repeated element, whole list twice, keyword arguments, iter / generator expression / map, 0- and
  1-based text with several separators); fresh: the pin word list of a basis is damaged in place
  and asked for again; abort: a BaseException injected at every call event of an operation (fresh
  process per injection), then all entry points are read back on the same and on nested bases.

* same_length: bases with two elements of the same length 6, one of them not a pin-permutation,
  on top of a short antichain - every order of the two, every entry point, one answer.

Sub-checks: special, verdict, entry, pin, symmetry, schmerl_trotter, history, forms, fresh, abort,
same_length.
"""
from __future__ import annotations

import contextlib
import io
import itertools
import os
import subprocess
import sys

from .. import core
from .. import ref_c16 as F
from .. import refmodel as R
from ..core import Partial

PROPERTY = "C16"
LEVEL = "exploration"

SIMPLE_PATTLEN = 5          # pattern lengths covered by the profiles of the reference simples

# filled by prepare() in the parent before the exploring pmap (inherited by fork)
G = {"members": {}, "pin_by_len": None, "pin_depth": None, "simp": {}, "simp_bit": None,
     "dbdir": None, "N": None, "tree": None}


# --------------------------------------------------------------------------------------------
# preparation shards: reference tables (and the dfa_db files used by the use_db=True variant)
# --------------------------------------------------------------------------------------------

def _perms_with_prefix(n, prefix):
    rest = [v for v in range(n) if v not in prefix]
    for tail in itertools.permutations(rest):
        yield prefix + tail


def shard_prep(shard):
    tag = shard[0]
    part = Partial()
    if tag == "family":
        _, k, length = shard
        ok, msg, members = F.family_selfcheck(k, length, 2)
        if not ok:
            raise RuntimeError("reference self-check failed (k=%d, length=%d): %s" % (k, length, msg))
        return part, ("family", k, [(kind, p, F.downset(p, k)) for kind, p in members])
    if tag == "pin":
        _, prefix, depth = shard
        tree = F.PinTree(4)
        by_len, visited = tree.subtree(prefix, depth)
        return part, ("pin", by_len, visited)
    if tag == "simples":
        _, n, prefix = shard
        bit = {p: 1 << i for i, p in enumerate(R.perms_upto(SIMPLE_PATTLEN))}
        prof = F.simples_with_profiles(_perms_with_prefix(n, prefix), bit, SIMPLE_PATTLEN)
        return part, ("simples", n, prof)
    if tag == "db":
        _, perm = shard
        from permuta import Perm
        from permuta.permutils.pin_words import PinWords
        os.chdir(G["dbdir"])
        try:
            PinWords.store_dfa_for_perm(Perm(perm))
        except Exception as exc:  # noqa
            part.violation("entry", {"basis": [perm], "entry": "store_dfa_for_perm"},
                           {"exception": repr(exc)})
        return part, ("db",)
    raise ValueError(tag)


def prepare(ctx, klist, depth, N, need_db):
    shards = []
    for k in klist:
        shards.append(("family", k, 2 * k + 4))
    if depth:
        for w in F.m_words(4 if depth <= 14 else 5):
            shards.append(("pin", w, depth))
    if N:
        for n in range(4, N + 1):
            if n <= 8:
                shards.append(("simples", n, ()))
            elif n == 9:
                shards += [("simples", n, (a,)) for a in range(n)]
            else:
                shards += [("simples", n, (a, b)) for a in range(n) for b in range(n) if a != b]
    if need_db:
        G["dbdir"] = os.path.join(ctx.work, "db")
        os.makedirs(G["dbdir"], exist_ok=True)
        for n in range(1, 5):
            shards += [("db", p) for p in R.perms(n)]
    # heavy shards first
    order = {"family": 0, "pin": 1, "simples": 2, "db": 3}
    shards.sort(key=lambda s: (order[s[0]], -(s[1] if s[0] == "family" else 0)))
    res = ctx.pmap(shard_prep, shards)
    tree = F.PinTree(4)
    G["tree"] = tree
    by_len, visited = {}, 0
    for r in res:
        if r[0] == "family":
            G["members"][r[1]] = r[2]
        elif r[0] == "pin":
            visited += r[2]
            for n, s in r[1].items():
                by_len.setdefault(n, set()).update(s)
        elif r[0] == "simples":
            d = G["simp"].setdefault(r[1], {})
            for pr, c in r[2].items():
                d[pr] = d.get(pr, 0) + c
    if depth:
        # words shorter than the shard prefixes
        for L in range(2, 4 if depth <= 14 else 5):
            for w in F.m_words(L):
                pr = tree.profile_of(F.pin_perm(w))
                visited += 1
                if pr != tree.full:
                    by_len.setdefault(L, set()).add(pr)
        G["pin_by_len"], G["pin_depth"] = by_len, depth
        ctx.bump("ref_pin_words_decoded", visited)
    if N:
        G["N"] = N
        G["simp_bit"] = {p: 1 << i for i, p in enumerate(R.perms_upto(SIMPLE_PATTLEN))}
        counts = [sum(G["simp"][n].values()) for n in range(4, N + 1)]
        expect = [2, 6, 46, 338, 2926, 28146][:len(counts)]     # lengths 4..9 (OEIS A111111)
        if counts[:len(expect)] != expect:
            raise RuntimeError("reference simples: counts %r, expected %r" % (counts, expect))
        ctx.extra["reference_simples_by_length_4.."] = counts


# --------------------------------------------------------------------------------------------
# the reference verdicts
# --------------------------------------------------------------------------------------------

def ref_special(basis):
    """(finite?, number of the 20 families whose long members avoid the basis)"""
    k = max(len(b) for b in basis)
    kk = min(x for x in G["members"] if x >= k)
    avoided = 0
    for _kind, _p, ds in G["members"][kk]:
        if not any(b in ds[len(b)] for b in basis):
            avoided += 1
    return avoided == 0, avoided


_PIN_LONG = {}


def ref_pin(basis):
    """(finite?, extinction length) from the tabulated tree; bases with a pattern longer than the
    tabulated profiles (4) by the pruned depth-first search for that basis alone."""
    if max(len(b) for b in basis) > 4:
        key = (frozenset(basis), G["pin_depth"])
        if key not in _PIN_LONG:
            _PIN_LONG[key] = F.pin_extinction_for_basis(basis, G["pin_depth"])
        e = _PIN_LONG[key]
    else:
        e = F.extinction_depth(G["pin_by_len"], G["tree"].mask(basis), G["pin_depth"])
    return e < G["pin_depth"], e


def class_infinite(basis):
    """Erdos-Szekeres: the class is finite iff the basis has an increasing and a decreasing element."""
    inc = any(tuple(b) == tuple(range(len(b))) for b in basis)
    dec = any(tuple(b) == tuple(range(len(b) - 1, -1, -1)) for b in basis)
    return not (inc and dec)


def simples_counts(basis):
    """number of simples of the class for the lengths 4..N (reference enumeration)."""
    m = 0
    for b in basis:
        m |= G["simp_bit"][tuple(b)]
    return [sum(c for pr, c in G["simp"][n].items() if not pr & m) for n in range(4, G["N"] + 1)]


def schmerl_trotter_gap(counts):
    """first n >= 4 such that lengths n and n+1 are both empty (None if there is none); length 3
    has no simples at all, so an empty length 4 is a gap too (reported as n = 3)."""
    if counts and counts[0] == 0:
        return 3
    for i in range(len(counts) - 1):
        if counts[i] == 0 and counts[i + 1] == 0:
            return 4 + i
    return None


# --------------------------------------------------------------------------------------------
# the entry points under test
# --------------------------------------------------------------------------------------------

def cli_string(basis, one_based):
    return "_".join("".join(str(v + (1 if one_based else 0)) for v in b) for b in basis)


def parse_cli(out):
    if "infinitely many simples" in out:
        return False
    if "finitely many simples" in out:
        return True
    return "unparseable output %r" % out[:200]


class HarnessError(Exception):
    pass


class _Abort(BaseException):
    """injected by the abort dimension; must never be swallowed by the harness"""


FORM_NAMES = ["list", "tuple", "set", "frozenset", "Basis", "reversed", "dup_first", "dup_all",
              "kw", "iter", "genexpr", "map"]
ONE_SHOT = ("iter", "genexpr", "map")


def make_form(form, P):
    """the same basis in another argument form"""
    from permuta import Basis
    if form == "list":
        return list(P)
    if form == "tuple":
        return tuple(P)
    if form == "set":
        return set(P)
    if form == "frozenset":
        return frozenset(P)
    if form == "Basis":
        return Basis(*P)
    if form == "reversed":
        return list(P)[::-1]
    if form == "dup_first":
        return list(P) + list(P)[:1]
    if form == "dup_all":              # e.g. the bases of two equal classes concatenated
        return list(P) + list(P)
    if form == "iter":
        return iter(list(P))
    if form == "genexpr":
        return (p for p in list(P))
    if form == "map":
        return map(lambda p: p, list(P))
    raise HarnessError("unknown form %r" % form)


def observe_form(target, form, basis, P):
    """target@form entries: every entry point with every argument form"""
    from permuta import Av
    from permuta.permutils.pin_words import PinWords
    if target in ("cli", "avstr"):
        sep = {"0": "_", "1": "_", "rev": "_", "dup": "_", "colon": ":", "comma": ", ", "space": " "}[form]
        bs = list(basis)
        if form == "rev":
            bs = bs[::-1]
        if form == "dup":
            bs = bs + bs
        text = sep.join("".join(str(v + (1 if form == "1" else 0)) for v in b) for b in bs)
        if target == "avstr":
            return Av.from_string(text).has_finitely_many_simples()
        from permuta import cli
        buf = io.StringIO()
        old = sys.argv
        sys.argv = ["permtools", "simple", text]
        try:
            with contextlib.redirect_stdout(buf):
                cli.main()
        finally:
            sys.argv = old
        return parse_cli(buf.getvalue())
    if form == "kw":
        if target == "simples":
            return PinWords.has_finite_simples(basis=list(P), use_db=False, check_all=False)
        if target == "special":
            return PinWords.has_finite_special_simples(basis=list(P))
        if target == "pin":
            return PinWords.has_finite_pinperms(basis=list(P), use_db=False)
        if target == "av":
            return Av(basis=list(P)).has_finitely_many_simples()
        if target == "av_from_iterable":
            return Av.from_iterable(basis=list(P)).has_finitely_many_simples()
        if target == "strategy":
            from permuta.enumeration_strategies.finitely_many_simples import \
                FinitelyManySimplesStrategy
            return FinitelyManySimplesStrategy(basis=list(P)).applies()
    arg = make_form(form, P)
    if target == "simples":
        return PinWords.has_finite_simples(arg)
    if target == "special":
        return PinWords.has_finite_special_simples(arg)
    if target == "pin":
        return PinWords.has_finite_pinperms(arg)
    if target == "av":
        return Av(arg).has_finitely_many_simples()
    if target == "av_from_iterable":
        return Av.from_iterable(arg).has_finitely_many_simples()
    if target == "strategy":
        from permuta.enumeration_strategies.finitely_many_simples import \
            FinitelyManySimplesStrategy
        return FinitelyManySimplesStrategy(arg).applies()
    raise HarnessError("unknown target %r" % target)


def observe(entry, basis, P=None):
    """Ask one entry point about one basis (tuple of tuples).  Returns a bool, or a string
    describing an exception / unusable answer.  P: pattern objects to use (default: new ones)."""
    from permuta import Av, Basis, Perm
    from permuta.permutils.pin_words import PinWords
    if P is None:
        P = [Perm(b) for b in basis]
    try:
        if "@" in entry:
            target, form = entry.split("@")
            got = observe_form(target, form, basis, P)
            if isinstance(got, str):
                return got
        elif entry == "special":
            got = PinWords.has_finite_special_simples(P)
        elif entry == "pin":
            got = PinWords.has_finite_pinperms(P)
        elif entry == "pin_db":
            os.chdir(G["dbdir"])
            got = PinWords.has_finite_pinperms(P, use_db=True)
        elif entry == "simples":
            got = PinWords.has_finite_simples(P)
        elif entry == "simples_check_all":
            got = PinWords.has_finite_simples(P, check_all=True)
        elif "_order:" in entry:
            # <entry>_order:i,j,... = the entry asked with the basis elements in that order
            name, idx = entry.split("_order:")
            idx = [int(x) for x in idx.split(",")]
            return observe(name, tuple(basis[i] for i in idx), [P[i] for i in idx])
        elif entry == "simples_tuple":
            got = PinWords.has_finite_simples(tuple(P))
        elif entry == "simples_frozenset":
            got = PinWords.has_finite_simples(frozenset(P))
        elif entry == "simples_Basis":
            got = PinWords.has_finite_simples(Basis(*P))
        elif entry == "simples_dup":
            got = PinWords.has_finite_simples(P + P[:1])
        elif entry == "simples_db":
            os.chdir(G["dbdir"])
            got = PinWords.has_finite_simples(P, use_db=True)
        elif entry == "simples_db_check_all":
            os.chdir(G["dbdir"])
            got = PinWords.has_finite_simples(P, use_db=True, check_all=True)
        elif entry == "av":
            got = Av(P).has_finitely_many_simples()
        elif entry == "av_Basis_rev":
            got = Av(Basis(*reversed(P))).has_finitely_many_simples()
        elif entry == "av_from_string":
            got = Av.from_string(cli_string(basis, False)).has_finitely_many_simples()
        elif entry == "strategy":
            from permuta.enumeration_strategies.finitely_many_simples import \
                FinitelyManySimplesStrategy
            got = FinitelyManySimplesStrategy(P).applies()
        elif entry == "strategy_rev_iter":
            from permuta.enumeration_strategies.finitely_many_simples import \
                FinitelyManySimplesStrategy
            got = FinitelyManySimplesStrategy(iter(P[::-1])).applies()
        elif entry in ("cli0", "cli1"):
            from permuta import cli
            buf = io.StringIO()
            old = sys.argv
            sys.argv = ["permtools", "simple", cli_string(basis, entry == "cli1")]
            try:
                with contextlib.redirect_stdout(buf):
                    cli.main()
            finally:
                sys.argv = old
            return parse_cli(buf.getvalue())
        elif entry == "cli_subprocess":
            code = ("import sys; sys.path.insert(0, %r); from permuta.cli import main; main()"
                    % core.REPO)
            env = dict(os.environ, PYTHONDONTWRITEBYTECODE="1")
            pr = subprocess.run([sys.executable, "-B", "-c", code, "simple",
                                 cli_string(basis, False)], capture_output=True, text=True,
                                env=env)
            if pr.returncode != 0:
                return "exit %d: %s" % (pr.returncode, pr.stderr[-300:])
            return parse_cli(pr.stdout)
        else:
            raise HarnessError("unknown entry %r" % entry)
    except (HarnessError, _Abort):
        raise
    except BaseException as exc:  # noqa  (SystemExit from argparse included)
        return "exception %r" % (exc,)
    if got is True or got is False:
        return got
    return "not a bool: %r" % (got,)


def orders(n):
    """all non-identity argument orders"""
    return ["simples_order:" + ",".join(map(str, o))
            for o in itertools.permutations(range(n)) if list(o) != list(range(n))]


WRAP_FULL = ["pin", "simples_check_all", "simples_tuple", "simples_frozenset", "simples_Basis",
             "simples_dup", "simples_db", "simples_db_check_all", "av", "av_Basis_rev",
             "av_from_string", "strategy", "strategy_rev_iter", "cli0", "cli1"]
WRAP_MED = ["pin", "simples_check_all", "simples_db_check_all", "simples_Basis",
            "av", "strategy", "cli0"]
WRAP_LIGHT = ["pin", "simples_db_check_all", "av"]

SUB_OF = {"special": "special", "pin": "pin", "simples": "verdict"}   # everything else: "entry"


def all_forms():
    """every entry point x every argument form its signature admits.  The one-shot forms of the
    three PinWords utilities (parameter `basis` without annotation, List[Perm] further down) are
    only included with VERIF_C16_ITERATOR_UTILITY=1: the current tree answers them wrongly."""
    out = []
    util_one_shot = os.environ.get("VERIF_C16_ITERATOR_UTILITY") == "1"
    for target in ("simples", "special", "pin"):
        out += ["%s@%s" % (target, f) for f in FORM_NAMES if util_one_shot or f not in ONE_SHOT]
    for target in ("av", "av_from_iterable", "strategy"):
        out += ["%s@%s" % (target, f) for f in FORM_NAMES]
    out += ["cli@" + f for f in ("0", "1", "rev", "dup", "colon", "comma", "space")]
    out += ["avstr@" + f for f in ("0", "1", "rev", "dup", "comma")]
    return out


def expected_for(entry, basis):
    if "_order:" in entry:
        entry = entry.split("_order:")[0]
    sp, avoided = ref_special(basis)
    if entry.split("@")[0] == "special":
        entry = "special"
    elif entry.split("@")[0] in ("pin", "pin_db"):
        entry = "pin"
    if entry == "special":
        return sp, {"families_avoiding_the_basis": avoided}
    pn, e = ref_pin(basis)
    detail = {"families_avoiding_the_basis": avoided, "pin_words_alive_until_length": e,
              "pin_horizon": G["pin_depth"]}
    if entry == "pin":
        return pn, detail
    return (sp and pn), detail


def check_entry(part, entry, basis):
    exp, detail = expected_for(entry, basis)
    got = observe(entry, basis)
    if got != exp:
        detail = dict(detail, expected=exp, got=got)
        sub = "forms" if "@" in entry else SUB_OF.get(entry, "entry")
        part.violation(sub, {"basis": basis, "entry": entry, "pin_horizon": G["pin_depth"]}, detail)
    return got, exp


def check_schmerl_trotter(part, basis, verdict):
    """verdict False (= infinitely many) => no gap in the reference enumeration of simples."""
    if verdict is not False or G["N"] is None or max(len(b) for b in basis) > SIMPLE_PATTLEN:
        return 0
    counts = simples_counts(basis)
    gap = schmerl_trotter_gap(counts)
    if gap is not None:
        part.violation("schmerl_trotter", {"basis": basis, "entry": "simples", "gap_at": gap},
                       {"simples_by_length_from_4": counts,
                        "claim": "infinitely many simples, but none of length %d and %d"
                                 % (gap, gap + 1)})
    return 1


# --------------------------------------------------------------------------------------------
# exploring shards
# --------------------------------------------------------------------------------------------

def shard_primary(shard):
    """every raw basis: the special-simples verdict and the full verdict of the utility function,
    against the reference; Schmerl-Trotter for 'infinite' verdicts."""
    bases, = shard
    part = Partial()
    out = []
    for basis in bases:
        sp, _ = check_entry(part, "special", basis)
        v, exp = check_entry(part, "simples", basis)
        st = check_schmerl_trotter(part, basis, v)
        part.add(2 + st, 1 if class_infinite(basis) else 0)
        pn, e = ref_pin(basis)
        rs, avoided = ref_special(basis)
        part.outcomes.add((sp, v))
        part.bump("verdict_finite" if exp else "verdict_infinite")
        if not exp:
            part.bump("infinite_by_pin_sequences_only" if rs else
                      ("infinite_by_special_simples_only" if pn else "infinite_by_both"))
        part.bump("pin_words_alive_until_length_%02d" % e)
        out.append((basis, sp, v))
        if class_infinite(basis) and rs != pn:
            part.sample({"basis": basis, "special_finite": sp, "verdict_finite": v,
                         "families_avoiding_the_basis": avoided,
                         "pin_words_alive_until_length": e}, cap=1)
    return part, out


def shard_wrappers(shard):
    """the other ways of asking, each against the reference"""
    bases, entries = shard
    part = Partial()
    for basis in bases:
        ents = list(entries)
        if "orders" in ents:
            ents.remove("orders")
            ents += orders(len(basis))
        if "orders1" in ents:          # reversed only
            ents.remove("orders1")
            ents += orders(len(basis))[-1:]
        for entry in ents:
            check_entry(part, entry, basis)
            part.add(1, 0)
            part.bump("entry_" + entry.split(":")[0])
    return part


def shard_special_long(shard):
    """bases with longer patterns: has_finite_special_simples against the family reference;
    where the families already give 'infinite', the full verdict must be 'infinite' too (no
    automaton is built then) and Schmerl-Trotter applies."""
    bases, = shard
    part = Partial()
    out = []
    for basis in bases:
        sp, exp = check_entry_special_only(part, basis)
        n = 1
        if exp is False:
            got = observe("simples", basis)
            n += 1
            if got is not False:
                part.violation("verdict", {"basis": basis, "entry": "simples", "pin_horizon": None},
                               {"expected": False, "got": got,
                                "families_avoiding_the_basis": ref_special(basis)[1]})
            n += check_schmerl_trotter(part, basis, got)
        part.add(n, 1 if (class_infinite(basis) and len(basis) != 3) else 0)
        part.bump("special_finite" if exp else "special_infinite")
        out.append((basis, sp))
    return part, out


def check_entry_special_only(part, basis):
    exp, avoided = ref_special(basis)
    got = observe("special", basis)
    if got != exp:
        part.violation("special", {"basis": basis, "entry": "special", "pin_horizon": None},
                       {"expected": exp, "got": got, "families_avoiding_the_basis": avoided})
    return got, exp


def shard_cli_subprocess(shard):
    basis, = shard
    part = Partial()
    check_entry(part, "cli_subprocess", basis)
    part.add(1, 0)
    return part


def run_isolated(func, *args):
    """func(*args) in a freshly forked child of this process (which must not have queried the
    library itself): the child starts from the import-time state of permuta."""
    import pickle
    rfd, wfd = os.pipe()
    pid = os.fork()
    if pid == 0:
        code = 0
        try:
            os.close(rfd)
            try:
                data = pickle.dumps(("ok", func(*args)))
            except BaseException as exc:  # noqa
                import traceback
                data = pickle.dumps(("error", traceback.format_exc()))
            with os.fdopen(wfd, "wb") as fh:
                fh.write(data)
        except BaseException:  # noqa
            code = 1
        finally:
            os._exit(code)
    os.close(wfd)
    with os.fdopen(rfd, "rb") as fh:
        data = fh.read()
    os.waitpid(pid, 0)
    if not data:
        raise HarnessError("isolated child died without an answer")
    tag, val = pickle.loads(data)
    if tag == "error":
        raise HarnessError("isolated child failed:\n" + val)
    return val


HISTORY_ENTRIES = ["simples", "av", "strategy", "cli0"]


def ask_sequence(seq, entries):
    """the answers to: for every basis of the sequence in turn, every way of asking"""
    return [[observe(e, b) for e in entries] for b in seq]


def check_sequence(part, seq, entries, kind):
    """One history: asked in a fresh process, every answer against the reference.  The recorded
    case is the prefix of the sequence up to the first wrong answer."""
    answers = run_isolated(ask_sequence, seq, entries)
    n = 0
    for i, (basis, row) in enumerate(zip(seq, answers)):
        for e, got in zip(entries, row):
            n += 1
            exp, detail = expected_for(e, basis)
            if got != exp:
                part.violation("history", {"sequence": list(seq[:i + 1]), "entries": list(entries),
                                           "kind": kind, "pin_horizon": G["pin_depth"]},
                               dict(detail, basis=basis, entry=e, expected=exp, got=got,
                                    position_in_sequence=i))
                return n
    return n


def shard_history(shard):
    seqs, entries, kind = shard
    part = Partial()
    for seq in seqs:
        n = check_sequence(part, seq, entries, kind)
        part.add(n, 0)
        part.bump("history_sequences_" + kind)
        part.bump("history_answers", n)
    return part


def element_classes(basis):
    """multiset of the symmetry classes of the elements (NOT the symmetry class of the basis)"""
    return tuple(sorted(min(R.orbit(p)) for p in basis))


def confusable_groups(bases):
    """the bases grouped by element_classes; each group as dict orbit representative -> members"""
    groups = {}
    for b in bases:
        groups.setdefault(element_classes(b), {}).setdefault(orbit_rep(b), []).append(b)
    return [groups[k] for k in sorted(groups)]


# ---- FRESH: the only mutable container the operations of this property hand out is the list of
# pin words of a basis (everything else is a bool or an immutable automaton)

def fresh_case(basis):
    """pinwords_for_basis: snapshot, damage the returned list in place, ask again along several
    routes (same pattern objects, new equal objects, tuple, reversed); then the verdict."""
    from permuta import Perm
    from permuta.permutils.pin_words import PinWords
    P = [Perm(b) for b in basis]
    out = {}
    try:
        first = PinWords.pinwords_for_basis(P)
        if not isinstance(first, list):
            return {"error": "not a list: %r" % type(first)}
        snap = sorted(first)
        first.clear()
        first.append("damaged")
        first.reverse()
        routes = {"same objects": PinWords.pinwords_for_basis(P),
                  "new equal objects": PinWords.pinwords_for_basis([Perm(b) for b in basis]),
                  "tuple": PinWords.pinwords_for_basis(tuple(P)),
                  "reversed": PinWords.pinwords_for_basis(P[::-1])}
        for name, val in routes.items():
            if sorted(val) != snap:
                out[name] = {"first answer": len(snap), "after damage": sorted(val)[:6]}
            if isinstance(val, list):
                val.clear()
    except Exception as exc:  # noqa
        out["exception"] = repr(exc)
    return out


def shard_fresh(shard):
    bases, verdict_too = shard
    part = Partial()
    for basis in bases:
        bad = fresh_case(basis)
        if bad:
            part.violation("fresh", {"basis": basis, "entry": "pinwords_for_basis",
                                     "pin_horizon": G["pin_depth"]}, bad)
        part.add(5, 0)
        if verdict_too:
            for entry in ("simples", "pin"):
                exp, detail = expected_for(entry, basis)
                got = observe(entry, basis)
                if got != exp:
                    part.violation("fresh", {"basis": basis, "entry": entry,
                                             "pin_horizon": G["pin_depth"]},
                                   dict(detail, expected=exp, got=got, after="damaging the pin word list"))
                part.add(1, 0)
    return part


# ---- ABORT: a BaseException raised at the k-th call event inside one operation, then read-back

def _run_with_abort(fn, k, root):
    """Run fn(); raise _Abort at the k-th 'call' event of a frame whose code lives under root
    (k=None: never).  Returns (finished?, number of such events seen)."""
    seen = [0]

    def tracer(frame, event, arg):
        if event == "call" and frame.f_code.co_filename.startswith(root):
            seen[0] += 1
            if seen[0] == k:
                sys.settrace(None)
                raise _Abort()
        return None

    sys.settrace(tracer)
    try:
        fn()
        return True, seen[0]
    except _Abort:
        return False, seen[0]
    finally:
        sys.settrace(None)


ABORT_OTHER = ((0, 1, 2),)      # infinitely many simples, pin sequences and all
ABORT_READBACK_SAME = ["simples", "pin", "special", "av", "strategy", "cli0"]
ABORT_READBACK_NESTED = ["simples"]


def nested_bases(basis):
    """proper non-empty sub-bases and the one-element extensions by 10 and 012"""
    out = []
    for r in range(1, len(basis)):
        out += list(itertools.combinations(basis, r))
    for q in ((1, 0), (0, 1, 2)):
        if q not in basis:
            out.append(canon(tuple(basis) + (q,)))
    return out


def abort_child(op, basis, warm, k, dbdir):
    """In a fresh process: optionally one undisturbed run first (warm caches), then the operation
    with the injection at event k, then the read-back.  Returns (finished, events, answers)."""
    import signal
    from permuta import Perm
    sys.unraisablehook = lambda *a: None
    root = os.path.join(os.path.abspath(core.REPO), "permuta") + os.sep
    os.makedirs(dbdir, exist_ok=True)
    G["dbdir"] = dbdir
    P = [Perm(b) for b in basis]
    if warm:
        observe(op, basis)
    if warm == "other":
        # non-initial state: the last completed query was about another class (opposite answers)
        observe(op, ABORT_OTHER)
    finished, seen = _run_with_abort(lambda: observe(op, basis, P), k, root)

    def on_alarm(signum, frame):
        raise TimeoutError("read-back did not finish within 120 s")

    answers = []
    old = signal.signal(signal.SIGALRM, on_alarm)
    signal.alarm(120)
    try:
        try:
            answers.append((op, basis, "same objects", observe(op, basis, P)))
            for e in ABORT_READBACK_SAME + (["simples_db"] if "db" in op else []):
                answers.append((e, basis, "new objects", observe(e, basis)))
            for nb in nested_bases(basis):
                for e in ABORT_READBACK_NESTED:
                    answers.append((e, nb, "nested", observe(e, nb)))
        except TimeoutError as exc:
            answers.append(("read-back", basis, "hang", repr(exc)))
    finally:
        signal.alarm(0)
        signal.signal(signal.SIGALRM, old)
    return finished, seen, answers


def shard_abort(shard):
    op, basis, warm, k0, k1 = shard
    part = Partial()
    total = None
    ks = [None] if k0 is None else range(k0, k1)
    for k in ks:
        dbdir = os.path.join(G["abortdir"], "%d-%s" % (os.getpid(), k))
        finished, seen, answers = run_isolated(abort_child, op, basis, warm, k, dbdir)
        import shutil
        shutil.rmtree(dbdir, ignore_errors=True)
        if k is None:
            total = seen
        for e, b, route, got in answers:
            if route == "hang":
                exp, detail = None, {}
            else:
                exp, detail = expected_for(e, b)
            if got != exp:
                part.violation("abort", {"operation": op, "basis": basis, "warm": warm, "k": k,
                                         "pin_horizon": G["pin_depth"]},
                               dict(detail, read_back=e, on_basis=b, route=route, expected=exp,
                                    got=got, events_before_abort=seen, operation_finished=finished))
                break
        part.add(len(answers), 0)
        part.bump("abort_injections" if k is not None else "abort_undisturbed_runs")
    return part, total


# ---- same-length long elements: S + (u, v), u not a pin-permutation, v a decisive pin-permutation

def shard_long_prep(shard):
    tag = shard[0]
    part = Partial()
    if tag == "pinperms":
        _, first, length = shard
        perms, words = F.pin_perms_with_prefix(first, length)
        return part, ("pinperms", perms, words)
    if tag == "decisive":
        _, S, cands = shard
        out = [v for v in cands
               if not any(R.contains(v, b) for b in S)
               and F.pin_extinction_for_basis(list(S) + [v], G["pin_depth"]) < G["pin_depth"]]
        return part, ("decisive", S, out)
    raise ValueError(tag)


def long_entries(nshort, full):
    """ways of asking S + (u, v) (u, v at positions nshort, nshort+1)"""
    s = list(range(nshort))
    iu, iv = nshort, nshort + 1
    o = {"S,u,v": s + [iu, iv], "S,v,u": s + [iv, iu], "u,v,S": [iu, iv] + s, "v,u,S": [iv, iu] + s}
    f = {k: ",".join(map(str, v)) for k, v in o.items()}
    if full == "two":
        return ["simples_order:" + f["S,u,v"], "simples_order:" + f["S,v,u"], "av"]
    ents = ["simples_order:" + f[k] for k in ("S,u,v", "S,v,u", "u,v,S", "v,u,S")]
    ents += ["pin_order:" + f["S,u,v"], "pin_order:" + f["S,v,u"], "av", "strategy"]
    if full == "full":
        ents += ["simples_check_all_order:" + f["S,u,v"], "simples_check_all_order:" + f["v,u,S"],
                 "simples_db_order:" + f["S,u,v"], "simples_db_order:" + f["S,v,u"],
                 "av_Basis_rev", "av_from_string", "strategy_rev_iter", "cli0"]
    return ents


def shard_long(shard):
    cases, = shard
    part = Partial()
    G["dbdir"] = os.path.join(G["longdb"], str(os.getpid()))
    os.makedirs(G["dbdir"], exist_ok=True)
    for basis, nshort, full in cases:
        ents = long_entries(nshort, full) if nshort is not None else ["simples", "av"]
        answers = []
        for entry in ents:
            exp, detail = expected_for(entry, basis)
            got = observe(entry, basis)
            answers.append(got)
            if got != exp:
                part.violation("same_length", {"basis": basis, "entry": entry,
                                               "pin_horizon": G["pin_depth"]},
                               dict(detail, expected=exp, got=got))
        # the oracle the property states on its own: one basis, one answer, however it is asked
        verdicts = {a for e, a in zip(ents, answers) if not e.startswith("pin")}
        if len(verdicts) > 1:
            part.violation("same_length", {"basis": basis, "entry": "all", "ways": ents,
                                           "pin_horizon": G["pin_depth"]},
                           {"answers": dict(zip(ents, answers))})
        part.add(len(ents) + 1, 1)
        part.bump("same_length_bases")
        part.sample({"basis": basis, "answers": dict(zip(ents, answers))}, cap=1)
    return part


def canon(basis):
    """the basis as a tuple ordered by (length, lexicographic) - the order R.bases produces"""
    return tuple(sorted(basis, key=lambda p: (len(p), p)))


def orbit_rep(basis):
    return canon(R.sym_class_rep(basis))


def chunked(seq, size):
    seq = list(seq)
    return [seq[i:i + size] for i in range(0, len(seq), size)]


def symmetry_groups(ctx, rows, what):
    """rows: (basis, answers...) for a symmetry-closed set of bases: constant on orbits."""
    groups = {}
    for row in rows:
        groups.setdefault(R.sym_class_rep(row[0]), []).append(row)
    for rep in sorted(groups):
        g = groups[rep]
        first = g[0]
        for row in g[1:]:
            if row[1:] != first[1:]:
                ctx.violation("symmetry", {"bases": [first[0], row[0]], "what": what},
                              {"answers": [first[1:], row[1:]]})
                break
    ctx.add(len(groups), 0)
    ctx.bump("symmetry_orbits_" + what, len(groups))
    ctx.bump("symmetry_orbits_with_8_images_" + what, sum(1 for g in groups.values() if len(g) == 8))
    return groups


# --------------------------------------------------------------------------------------------
# alphabets
# --------------------------------------------------------------------------------------------

S4_ORBITS_QUICK = [(0, 1, 2, 3), (1, 3, 0, 2)]
S4_ORBITS_THOROUGH = [(0, 1, 2, 3), (1, 3, 0, 2), (1, 0, 3, 2), (0, 2, 1, 3)]


def triple_pool(quick):
    pool = list(R.perms(3))
    s4 = set()
    for p in (S4_ORBITS_QUICK if quick else S4_ORBITS_THOROUGH):
        s4 |= R.orbit(p)
    return pool + sorted(s4)


def long_alphabet(quick):
    """bases for the special-simples test alone (symmetry-closed sets, disjoint from the bases of
    the verdict sub-check except for some three-element ones, which are not counted twice as
    non-trivial): three- and four-element bases over S3 + S4, bases with a pattern of length 5, 6"""
    s5, s6 = R.perms(5), R.perms(6)
    short = [p for n in range(1, 5) for p in R.perms(n)]
    s34 = R.perms(3) + R.perms(4)
    out = list(itertools.combinations(s34, 3))
    out += list(itertools.combinations(R.perms(4) if quick else s34, 4))
    out += [(p,) for p in s5] + [(p,) for p in s6]
    out += [(a, b) for a in short for b in s5]
    out += list(itertools.combinations(s5, 2))
    if not quick:
        out += [(a, b) for a in short + s5 for b in s6]
    return out


# --------------------------------------------------------------------------------------------

def run(ctx, only=None):
    def want(name):
        return only is None or name in only

    quick = ctx.quick
    depth = 13 if quick else 15
    N = 9 if quick else 10
    ctx.rule = ("one case = one (basis, way of asking) answer compared with the reference verdict "
                "(Brignall-Ruskuc-Vatter criterion from the definitions), plus one Schmerl-Trotter "
                "confrontation per 'infinite' verdict and one constancy test per symmetry orbit; "
                "non-trivial = distinct bases (as sets) whose class is infinite (no increasing or no "
                "decreasing basis element), i.e. the answer is not settled by Erdos-Szekeres and "
                "needs the tables / the automaton; each basis is counted once")
    ctx.assumptions = [
        "Brignall-Ruskuc-Vatter: infinitely many simples <=> arbitrarily long parallel alternations, "
        "wedge simples or proper pin sequences in the class",
        "Bassino-Bouvel-Pierrot-Rossin: proper pin sequences <-> words of M, decoded geometrically",
        "'pin sequences infinite' is concluded from a word of length D (13 quick / 15 thorough) "
        "avoiding the basis; the largest finite extinction length over all explored bases is "
        "measured and reported (10), the levels between it and D are empty",
        "family facts (16 wedge simples per length, 4 simple parallel alternations per even "
        "length, nesting, stabilisation of the contained patterns) are verified by computation at "
        "the lengths used, not proved for all lengths",
        "a wrong 'infinite' verdict whose class runs out of simples only beyond N, and bases with "
        "patterns longer than 4 (full verdict) / 6 (special simples), are not explored",
    ]
    need_full = want("verdict") or want("entry") or want("pin") or want("symmetry") \
        or want("schmerl_trotter") or want("history") or want("forms") or want("fresh") \
        or want("abort") or want("same_length")
    klist = [4]
    if want("special"):
        klist += [5, 6]
    elif want("same_length"):
        klist += [6]
    prepare(ctx, klist, depth if need_full else 0, N if (need_full or want("special")) else 0,
            need_db=want("entry") or want("history") or want("forms"))
    ctx.section("reference", families={k: len(v) for k, v in G["members"].items()},
                pin_horizon=depth, simples_to=N)

    core2 = R.bases(2, 4)
    # three-element bases: a symmetry-closed pool taken raw (all images); thorough adds one
    # representative of every symmetry orbit of the three-element bases over S3 + S4
    pool3 = triple_pool(quick)
    triples = list(itertools.combinations(pool3, 3))
    reps3_all = []
    if not quick:
        have = set(triples)
        reps3_all = sorted({orbit_rep(b) for b in
                            itertools.combinations(R.perms(3) + R.perms(4), 3)} - have)
    ctx.bounds["verdict"] = {
        "Bases(2,4) (all images)": len(core2),
        "three-element bases (all images)": len(triples),
        "three-element pool": "S3 + symmetry orbits of " + ", ".join(
            "".join(map(str, p)) for p in (S4_ORBITS_QUICK if quick else S4_ORBITS_THOROUGH)),
        "further three-element bases over S3 + S4, one per symmetry orbit": len(reps3_all),
        "pin_horizon_D": depth, "simples_horizon_N": N}

    rows = []
    if want("verdict") or want("symmetry") or want("schmerl_trotter"):
        e0 = ctx.evals
        res = ctx.pmap(shard_primary,
                       [(c,) for c in chunked(core2, 6) + chunked(triples + reps3_all, 6)])
        for r in res:
            rows.extend(r)
        ctx.section("verdict", bases=len(rows), evaluations=ctx.evals - e0)
        alive = sorted(int(k[-2:]) for k in ctx.counters if k.startswith("pin_words_alive_until_length_"))
        finite_max = max([a for a in alive if a < depth] or [0])
        ctx.extra["largest_finite_pin_extinction_length"] = finite_max
        if depth - finite_max < 3:
            ctx.cap("pin horizon D=%d too close to the largest finite extinction length %d"
                    % (depth, finite_max))
    if want("symmetry") and rows:
        closed = set(triples)
        symmetry_groups(ctx, [r for r in rows if len(r[0]) <= 2], "bases24")
        symmetry_groups(ctx, [r for r in rows if r[0] in closed], "triples")
        ctx.section("symmetry")
    if want("entry") or want("pin"):
        e0 = ctx.evals
        reps2 = sorted({orbit_rep(b) for b in core2})
        reps3 = sorted({orbit_rep(b) for b in triples})
        assert set(reps2) <= set(core2) and set(reps3) <= set(triples)
        full, med, light = WRAP_FULL + ["orders"], WRAP_MED + ["orders"], WRAP_LIGHT + ["orders"]
        if only is not None and not want("entry"):
            full = med = light = ["pin"]
        small2 = [b for b in reps2 if max(len(p) for p in b) <= 3]
        big2 = [b for b in reps2 if max(len(p) for p in b) == 4]
        shards = []
        if quick:
            plan = [("orbit representatives of Bases(2,4) with patterns of length <= 3", small2, full),
                    ("orbit representatives of Bases(2,4) with a pattern of length 4", big2, med),
                    ("orbit representatives of the three-element bases (all images pool)", reps3, light)]
        else:
            rs2 = set(reps2)
            plan = [("orbit representatives of Bases(2,4)", reps2, full),
                    ("all other members of Bases(2,4)", [b for b in core2 if b not in rs2],
                     ["av", "strategy", "orders"]),
                    ("orbit representatives of the three-element bases (all images pool)", reps3, light),
                    ("the further three-element orbit representatives", reps3_all, ["av", "orders1"])]
        for _what, bs, ents in plan:
            shards += [(c, ents) for c in chunked(bs, 2)]
        ctx.pmap(shard_wrappers, shards)
        ctx.bounds["entry"] = [{"bases": what, "count": len(bs), "ways of asking": ents}
                               for what, bs, ents in plan]
        sub = [(0, 1, 2), (1, 3, 0, 2), (2, 0, 3, 1)], [(0, 1, 2, 3), (3, 2, 1, 0)], \
              [(1, 3, 0, 2)], [(0, 2, 1), (1, 0, 2)]
        ctx.pmap(shard_cli_subprocess, [(tuple(b),) for b in sub])
        ctx.section("entry", evaluations=ctx.evals - e0)
    if want("forms"):
        e0 = ctx.evals
        reps2 = sorted({orbit_rep(b) for b in core2})
        small2 = [b for b in reps2 if max(len(p) for p in b) <= 3]
        big2 = [b for b in reps2 if max(len(p) for p in b) == 4]
        forms = all_forms()
        few = ["simples@dup_all", "av@genexpr"]
        if quick:
            plan = [("orbit representatives of Bases(2,4) with patterns of length <= 3", small2, forms),
                    ("orbit representatives of Bases(2,4) with a pattern of length 4", big2, few)]
        else:
            plan = [("orbit representatives of Bases(2,4)", reps2, forms)]
        shards = []
        for _what, bs, ents in plan:
            shards += [(c, ents) for c in chunked(bs, 1)]
        ctx.pmap(shard_wrappers, shards)
        ctx.bounds["forms"] = [{"bases": what, "count": len(bs), "entry point@form": ents}
                               for what, bs, ents in plan]
        ctx.extra["one_shot_forms_for_the_PinWords_utilities"] = \
            os.environ.get("VERIF_C16_ITERATOR_UTILITY") == "1"
        ctx.section("forms", evaluations=ctx.evals - e0)
    if want("fresh"):
        e0 = ctx.evals
        reps2 = sorted({orbit_rep(b) for b in core2})
        shards = [(c, quick is False or max(len(p) for b in c for p in b) <= 3)
                  for c in chunked(reps2, 1)]
        ctx.pmap(shard_fresh, shards)
        ctx.bounds["fresh"] = ("pinwords_for_basis (the only mutable result): %d orbit representatives of "
                               "Bases(2,4); list damaged in place (clear, append, reverse), asked again "
                               "with the same objects / new equal objects / tuple / reversed; then "
                               "has_finite_simples and has_finite_pinperms%s" %
                               (len(reps2), " (patterns of length <= 3 only)" if quick else ""))
        ctx.section("fresh", evaluations=ctx.evals - e0)
    if want("abort"):
        e0 = ctx.evals
        G["abortdir"] = os.path.join(ctx.work, "abort")
        os.makedirs(G["abortdir"], exist_ok=True)
        b0, b01, b0110, b021 = ((0,),), ((0, 1),), ((0, 1), (1, 0)), ((0, 2, 1),)
        # (operation, basis, warm caches first?)
        # third component: False = fresh process; True = one undisturbed run of the same operation
        # first; "other" = that, then one undisturbed run on the basis 012 (opposite answers)
        ops = [("pin", b0, "other"), ("pin", b01, "other"), ("pin_db", b0, False),
               ("av", b0110, False), ("cli0", b0, False)]
        if not quick:
            # has_finite_simples itself and the strategy have >= 3923 call events on any basis (the
            # alternation / wedge loops), so they are explored in the thorough tier only
            ops += [("pin", b0, False), ("pin", b01, True), ("simples", b0, "other"),
                    ("strategy", b0, "other"), ("pin", b01, False),
                    ("pin_db", b01, False), ("pin", b0110, True), ("av", b01, False)]
        totals = ctx.pmap(shard_abort, [(op, b, w, None, None) for op, b, w in ops])
        shards = []
        for (op, b, w), tot in zip(ops, totals):
            shards += [(op, b, w, k, min(k + 40, tot + 1)) for k in range(1, tot + 1, 40)]
        ctx.pmap(shard_abort, shards)
        ctx.bounds["abort"] = {
            "operations (entry, basis, caches warmed by one undisturbed run first)":
                [[op, b, w, tot] for (op, b, w), tot in zip(ops, totals)],
            "injection points (every call event in permuta frames, one fresh process each)": sum(totals),
            "read-back": {"same basis": ["the aborted operation on the same pattern objects"]
                          + ABORT_READBACK_SAME + ["simples_db when the operation used dfa_db"],
                          "sub-bases and basis + 10, basis + 012": ABORT_READBACK_NESTED,
                          "guard": "signal.alarm 120 s"}}
        ctx.section("abort", injection_points=sum(totals), evaluations=ctx.evals - e0)
    if want("history"):
        e0 = ctx.evals
        ref = {}

        def verdict(b):
            if b not in ref:
                ref[b] = ref_special(b)[0] and ref_pin(b)[0]
            return ref[b]

        seqs_group, seqs_pair, seqs_plain = [], [], []
        ngroups = nmixed = 0
        for alphabet in (core2, triples):
            for orbs in confusable_groups(alphabet):
                ngroups += 1
                members = sorted(b for v in orbs.values() for b in v)
                if len(members) < 2:
                    continue
                mixed = len({verdict(r) for r in orbs}) > 1
                if mixed:
                    nmixed += 1
                    seqs_group += [members, members[::-1]]
                    for r1, r2 in itertools.combinations(sorted(orbs), 2):
                        if verdict(r1) == verdict(r2):
                            continue
                        left, right = ([r1], [r2]) if quick else (orbs[r1], orbs[r2])
                        for b1 in left:
                            for b2 in right:
                                seqs_pair += [[b1, b2], [b2, b1]]
                elif not quick:
                    seqs_plain.append(members)
        shards = [([q], HISTORY_ENTRIES, "group") for q in seqs_group]
        shards += [(c, HISTORY_ENTRIES, "pair") for c in chunked(seqs_pair, 4)]
        shards += [([q], ["av", "strategy"], "uniform_group") for q in seqs_plain]
        ctx.pmap(shard_history, shards)
        ctx.bounds["history"] = {
            "groups of element-by-element symmetric bases (Bases(2,4) and the all-images triples)": ngroups,
            "groups whose members have different reference verdicts": nmixed,
            "whole-group sequences (every member, forwards and backwards), ways of asking "
            + ",".join(HISTORY_ENTRIES): len(seqs_group),
            "two-query sequences (both orders) for pairs from different orbits with different "
            "verdicts, " + ("orbit representatives" if quick else "all images"): len(seqs_pair),
            "whole-group sequences of the groups with one verdict (av, strategy; thorough only)":
                len(seqs_plain),
            "isolation": "one freshly forked process per sequence"}
        ctx.section("history", sequences=len(seqs_group) + len(seqs_pair) + len(seqs_plain),
                    evaluations=ctx.evals - e0)
    if want("special"):
        e0 = ctx.evals
        la = long_alphabet(quick)
        res = ctx.pmap(shard_special_long, [(c,) for c in chunked(la, 400)])
        lrows = [x for r in res for x in r]
        symmetry_groups(ctx, lrows, "long")
        ctx.bounds["special"] = {
            "bases": len(la),
            "what": "all 3-subsets of S3+S4; all 4-subsets of " + ("S4" if quick else "S3+S4") +
                    "; all single patterns of length 5 and 6; all pairs (length<=4, length 5); all "
                    "pairs of length-5 patterns" + ("" if quick else "; all pairs (length<=5, length 6)"),
            "family member length": "2k+4 for patterns of length <= k (12, 14, 16)"}
        ctx.section("special", bases=len(la), evaluations=ctx.evals - e0)


    if want("same_length"):
        run_same_length(ctx, quick, core2)


def run_same_length(ctx, quick, core2):
    """Bases S + (u, v): S a short antichain whose special simples are finite and whose pin
    sequences are infinite, u a permutation of length 6 that is NOT a pin-permutation, v a
    pin-permutation of length 6 that makes the pin sequences finite.  Asked in every order of
    (u, v) before and after S through the utility (default / check_all / use_db), Av, the
    strategy and the command line; every answer against the reference, and all answers for one
    basis against each other."""
    e0 = ctx.evals
    res = ctx.pmap(shard_long_prep, [("pinperms", q, 6) for q in (1, 2, 3, 4)])
    pins = set()
    for r in res:
        pins |= r[1]
    nonpin = sorted(p for p in R.perms(6) if p not in pins)
    if len(pins) != 664 or len(nonpin) != 56:
        raise RuntimeError("reference pin-permutations of length 6: %d" % len(pins))
    classes = sorted({min(R.orbit(p)) for p in nonpin})
    shorts = sorted({orbit_rep(b) for b in core2
                     if len(b) == 2 and ref_special(b)[0] and not ref_pin(b)[0]})
    if quick:
        shorts = shorts[1:2]
    pins = sorted(pins)
    res = ctx.pmap(shard_long_prep, [("decisive", S, c) for S in shorts for c in chunked(pins, 42)])
    decisive = {S: [] for S in shorts}
    for r in res:
        decisive[r[1]] += r[2]
    cases = []
    for i, S in enumerate(shorts):
        dec = sorted(decisive[S])
        if not dec:
            raise RuntimeError("no decisive pin-permutation of length 6 for %r" % (S,))
        # (basis, number of short elements, which ways of asking)
        for u in classes:
            cases.append((S + (u, dec[0]), len(S), "orders" if quick else "full"))
        if not quick and i < 2:
            # every non-pin-permutation, and every decisive v: the two orders and Av only
            cases += [(S + (u, dec[0]), len(S), "two") for u in nonpin if u not in classes]
        if not quick and i == 1:
            cases += [(S + (classes[0], v), len(S), "two") for v in dec[1:]]
            # the long elements one at a time
            cases += [(S + (u,), None, None) for u in classes]
            cases += [(S + (v,), None, None) for v in dec[:3]]
    # perm_to_pinword_mapping(6) takes ~6 s to build: once here, inherited by the workers (this
    # is the last sub-check, so the other sub-checks fork from a process that never called the library)
    try:
        from permuta.permutils.pin_words import PinWords
        PinWords.perm_to_pinword_mapping(6)
    except Exception as exc:  # noqa
        ctx.violation("same_length", {"basis": [], "entry": "perm_to_pinword_mapping(6)",
                                      "pin_horizon": G["pin_depth"]}, {"exception": repr(exc)})
        return
    G["longdb"] = os.path.join(ctx.work, "db6")
    os.makedirs(G["longdb"], exist_ok=True)
    ctx.pmap(shard_long, [(c,) for c in chunked(cases, 1 if quick else 2)])
    ctx.bounds["same_length"] = {
        "S (orbit representatives of the two-element bases over S<=4 with finite special simples "
        "and infinite pin sequences)": [list(S) for S in shorts],
        "u": "the %d symmetry class representatives of the 56 permutations of length 6 that are not "
             "pin-permutations, with every S" % len(classes)
             + ("" if quick else "; all 56 with the first two S (two orders of (u, v) and Av)"),
        "v": {str(list(S)): "the first of %d decisive pin-permutations of length 6"
              % len(decisive[S]) for S in shorts},
        "v, thorough": "all decisive v with the second S and one u (two orders and Av); S + (u) and "
                       "S + (v) alone for the second S",
        "bases": len(cases),
        "ways of asking": long_entries(2, "orders" if quick else "full")}
    ctx.section("same_length", bases=len(cases), evaluations=ctx.evals - e0)


# --------------------------------------------------------------------------------------------
# replay: one case, references recomputed for that basis only
# --------------------------------------------------------------------------------------------

def _prepare_single(basis, horizon, need_pin):
    k = max(4, max(len(b) for b in basis))
    if k not in G["members"]:
        ok, msg, members = F.family_selfcheck(k, 2 * k + 4, 2)
        if not ok:
            raise RuntimeError(msg)
        G["members"][k] = [(kind, p, F.downset(p, k)) for kind, p in members]
    G["pin_depth"] = horizon
    if need_pin:
        e = F.pin_extinction_for_basis(basis, horizon)
        tree = F.PinTree(4)
        G["tree"] = tree
        # a one-basis table: one profile per length that is disjoint from the basis up to e
        G["pin_by_len"] = {n: {0} for n in range(2, e + 1)}
        G["pin_depth"] = horizon


def replay(ctx, rec):
    sub, case = rec["sub"], rec["case"]
    if sub == "symmetry":
        b1, b2 = [tuple(tuple(p) for p in b) for b in case["bases"]]
        if case["what"] == "long":
            a1, a2 = (observe("special", b1),), (observe("special", b2),)
        else:
            a1 = (observe("special", b1), observe("simples", b1))
            a2 = (observe("special", b2), observe("simples", b2))
        if a1 != a2:
            ctx.violation("symmetry", case, {"answers": [a1, a2]})
        return
    if sub == "history":
        seq = [tuple(tuple(p) for p in b) for b in case["sequence"]]
        entries = list(case["entries"])
        G["dbdir"] = os.path.join(ctx.work, "db")
        os.makedirs(G["dbdir"], exist_ok=True)
        answers = run_isolated(ask_sequence, seq, entries)
        for i, (basis, row) in enumerate(zip(seq, answers)):
            _prepare_single(basis, case["pin_horizon"], True)
            for e, got in zip(entries, row):
                exp, detail = expected_for(e, basis)
                if got != exp:
                    ctx.violation("history", case, dict(detail, basis=basis, entry=e, expected=exp,
                                                        got=got, position_in_sequence=i))
                    return
        return
    if sub == "abort":
        basis = tuple(tuple(p) for p in case["basis"])
        dbdir = os.path.join(ctx.work, "abort-db")
        import shutil
        shutil.rmtree(dbdir, ignore_errors=True)
        finished, seen, answers = run_isolated(abort_child, case["operation"], basis, case["warm"],
                                               case["k"], dbdir)
        for e, b, route, got in answers:
            if route == "hang":
                exp, detail = None, {}
            else:
                _prepare_single(b, case["pin_horizon"], True)
                G["dbdir"] = os.path.join(ctx.work, "db")
                exp, detail = expected_for(e, b)
            if got != exp:
                ctx.violation("abort", case, dict(detail, read_back=e, on_basis=b, route=route,
                                                  expected=exp, got=got, events_before_abort=seen,
                                                  operation_finished=finished))
                return
        return
    basis = tuple(tuple(p) for p in case["basis"])
    entry = case["entry"]
    if sub == "same_length" and entry == "all":
        G["dbdir"] = os.path.join(ctx.work, "db")
        os.makedirs(G["dbdir"], exist_ok=True)
        answers = {e: observe(e, basis) for e in case["ways"]}
        if len({a for e, a in answers.items() if not e.startswith("pin")}) > 1:
            ctx.violation(sub, case, {"answers": answers})
        return
    if sub == "fresh":
        G["dbdir"] = os.path.join(ctx.work, "db")
        os.makedirs(G["dbdir"], exist_ok=True)
        _prepare_single(basis, case["pin_horizon"], True)
        part = run_isolated(shard_fresh, ([basis], True))
        for v in part.viols:
            if v["case"]["entry"] == entry:
                ctx.violation("fresh", case, v["detail"])
                return
        return
    if sub == "schmerl_trotter":
        got = observe(entry, basis)
        if got is not False:
            return
        gap = case["gap_at"]
        counts = []
        for n in (gap, gap + 1):
            c = 0
            if n >= 4:
                for p in itertools.permutations(range(n)):
                    if F.is_simple(p) and not any(R.contains(p, b) for b in basis):
                        c += 1
            counts.append(c)
        if counts == [0, 0]:
            ctx.violation(sub, case, {"simples_of_length": {str(gap): 0, str(gap + 1): 0}})
        return
    if entry == "store_dfa_for_perm":
        from permuta import Perm
        from permuta.permutils.pin_words import PinWords
        os.makedirs(os.path.join(ctx.work, "db"), exist_ok=True)
        os.chdir(os.path.join(ctx.work, "db"))
        try:
            PinWords.store_dfa_for_perm(Perm(basis[0]))
        except Exception as exc:  # noqa
            ctx.violation(sub, case, {"exception": repr(exc)})
        return
    horizon = case.get("pin_horizon")
    G["dbdir"] = os.path.join(ctx.work, "db")
    os.makedirs(G["dbdir"], exist_ok=True)
    if horizon is None:
        _prepare_single(basis, None, False)
        if entry == "special":
            check_entry_special_only(ctx, basis)
        else:
            got = observe(entry, basis)
            if ref_special(basis)[0] is False and got is not False:
                ctx.violation(sub, case, {"expected": False, "got": got})
        return
    _prepare_single(basis, horizon, entry != "special")
    check_entry(ctx, entry, basis)
