"""C04 - the eight symmetries act consistently on permutations, mesh patterns and containment.

E1 (bounded exhaustive enumeration).  Oracle: the maps of the square of mc/refmodel.py applied to
the point set of a permutation and to the centres of the cells of a shading.  Sub-checks:

  perm_ops    every symmetry method of Perm (and alias, and rotate(k)) == its geometric map
  mesh_ops    the same for MeshPatt / BivincularPatt / VincularPatt / CovincularPatt objects
  group       the implementation's operations multiply like the dihedral group (full table),
              rotate(j) then rotate(k) == rotate(j + k)
  equiv       sigma contains p  <=>  T(sigma) contains T(p), and the number of occurrences is the
              same (the occurrence sets are in bijection), classical patterns, all eight T,
              the implementation's own search on both sides
  mesh_equiv  the same for mesh patterns (couples Perm map, cell map and mesh search)
  all_syms    Perm.all_syms / MeshPatt.all_syms == the orbit, duplicate-free
  sets        all_symmetry_sets == orbit of the set; the seven *_set helpers; lex_min == smallest
              orbit member and constant on the orbit; for several input container kinds
  scale       perm_ops / mesh_ops / all_syms / sets / equiv again on a sparse, fully enumerated
              family of long structured permutations (lengths 7..12, 31..34, 255..258, 300) and
              mixed-length sets containing one of them, in several container kinds
  long_mesh_equiv  mesh equivariance with long texts (lengths around the integer constants the code
              under test names, mc/thresholds.py): thin family with a brute-force-exact reference
  abort       every operation of the property cut off at each of its calls into the library, then
              everything asked again on the same and on fresh equal objects
  cli         `permtools lexmin <basis>` driven in-process (cli.main / parser / get_lex_min),
              stdout captured, 0- and 1-based spellings, several separators and orders
"""
from __future__ import annotations

import contextlib
import io
import itertools
import math
import sys

from .. import ref_c04 as X
from .. import refmodel as R
from ..core import Partial

PROPERTY = "C04"
LEVEL = "exploration"

SYMS = X.SYM_NAMES


def _lib():
    import permuta
    return permuta


# --------------------------------------------------------------------------------------------
# the operations under test, by label
# --------------------------------------------------------------------------------------------

KS = list(range(-9, 10))
BIG_KS = [s * (2 ** 65 + r) for s in (1, -1) for r in range(4)] + [s * (10 ** 6 + r) for s in (1, -1) for r in range(1, 4)]


def _rot_ops(ks):
    return [("rotate(%d)" % k, "rotate", (k,), X.rot_name(k)) for k in ks]


def _rot_kw_ops(ks):
    """The same call with the count given by keyword (args is then a dict)."""
    return [("rotate(times=%d)" % k, "rotate", {"times": k}, X.rot_name(k)) for k in ks]


def _call(obj, name, args):
    return getattr(obj, name)(**args) if isinstance(args, dict) else getattr(obj, name)(*args)


# (label, method name, args, name of the geometric map)
PERM_NAMED = [
    ("reverse", "reverse", (), "reverse"),
    ("flip_vertical", "flip_vertical", (), "reverse"),
    ("complement", "complement", (), "complement"),
    ("flip_horizontal", "flip_horizontal", (), "complement"),
    ("inverse", "inverse", (), "inverse"),
    ("flip_diagonal", "flip_diagonal", (), "inverse"),
    ("reverse_complement", "reverse_complement", (), "rot180"),
    ("flip_antidiagonal", "flip_antidiagonal", (), "antidiagonal"),
    ("rotate()", "rotate", (), "rot90"),
]
MESH_NAMED = [
    ("reverse", "reverse", (), "reverse"),
    ("flip_vertical", "flip_vertical", (), "reverse"),
    ("complement", "complement", (), "complement"),
    ("flip_horizontal", "flip_horizontal", (), "complement"),
    ("inverse", "inverse", (), "inverse"),
    ("flip_diagonal", "flip_diagonal", (), "inverse"),
    ("rotate()", "rotate", (), "rot90"),
]
KW_KS = [-5, -1, 0, 1, 2, 3]
PERM_OPS = PERM_NAMED + _rot_ops(KS) + _rot_ops(BIG_KS) + _rot_kw_ops(KW_KS)
MESH_OPS = MESH_NAMED + _rot_ops(KS) + _rot_ops(BIG_KS) + _rot_kw_ops(KW_KS)
PERM_OPS_CORE = PERM_NAMED + _rot_ops([-3, -2, -1, 0, 1, 2, 3, 4])
MESH_OPS_CORE = [o for o in MESH_NAMED if o[0] in ("reverse", "complement", "inverse")] + \
    _rot_ops([-1, 0, 1, 2, 3])
OPS_BY_LABEL = {"perm": {o[0]: o for o in PERM_OPS}, "mesh": {o[0]: o for o in MESH_OPS}}

# one designated implementation of each of the eight group elements (sequence of calls)
CANON_PERM = {
    "id": [], "reverse": [("reverse", ())], "complement": [("complement", ())],
    "inverse": [("inverse", ())], "antidiagonal": [("flip_antidiagonal", ())],
    "rot90": [("rotate", (1,))], "rot180": [("rotate", (2,))], "rot270": [("rotate", (3,))],
}
CANON_MESH = {
    "id": [], "reverse": [("reverse", ())], "complement": [("complement", ())],
    "inverse": [("inverse", ())],
    "antidiagonal": [("rotate", (2,)), ("inverse", ())],       # MeshPatt has no single method
    "rot90": [("rotate", (1,))], "rot180": [("rotate", (2,))], "rot270": [("rotate", (3,))],
}
# elements used for the multiplication table (label, calls, geometric name)
ELEMS_PERM = [("id", [], "id"), ("reverse", [("reverse", ())], "reverse"),
              ("complement", [("complement", ())], "complement"),
              ("inverse", [("inverse", ())], "inverse"),
              ("flip_antidiagonal", [("flip_antidiagonal", ())], "antidiagonal"),
              ("rotate(1)", [("rotate", (1,))], "rot90"), ("rotate(2)", [("rotate", (2,))], "rot180"),
              ("rotate(3)", [("rotate", (3,))], "rot270"),
              ("reverse_complement", [("reverse_complement", ())], "rot180"),
              ("rotate(-1)", [("rotate", (-1,))], "rot270")]
ELEMS_MESH = [("id", [], "id"), ("reverse", [("reverse", ())], "reverse"),
              ("complement", [("complement", ())], "complement"),
              ("inverse", [("inverse", ())], "inverse"),
              ("rotate(1)", [("rotate", (1,))], "rot90"), ("rotate(2)", [("rotate", (2,))], "rot180"),
              ("rotate(3)", [("rotate", (3,))], "rot270"), ("rotate(-1)", [("rotate", (-1,))], "rot270"),
              ("rotate(-2)", [("rotate", (-2,))], "rot180")]
ELEM_BY_LABEL = {"perm": {e[0]: e for e in ELEMS_PERM}, "mesh": {e[0]: e for e in ELEMS_MESH}}


def call_seq(obj, calls):
    for name, args in calls:
        obj = getattr(obj, name)(*args)
    return obj


# --------------------------------------------------------------------------------------------
# mesh pattern specs <-> objects
# --------------------------------------------------------------------------------------------
# spec = ("mesh", perm, sorted cells) | ("biv", perm, cols, rows) | ("vinc", perm, cols)
#        | ("covinc", perm, rows)          (JSON turns the tuples into lists; normalised here)

def norm_spec(spec):
    kind = spec[0]
    if kind == "mesh":
        return ("mesh", tuple(spec[1]), tuple(sorted(tuple(c) for c in spec[2])))
    if kind == "biv":
        return ("biv", tuple(spec[1]), tuple(spec[2]), tuple(spec[3]))
    return (kind, tuple(spec[1]), tuple(spec[2]))


def spec_struct(spec):
    """(perm, frozenset of cells) a spec denotes - stated here, not taken from the library."""
    kind, p = spec[0], tuple(spec[1])
    k = len(p)
    if kind == "mesh":
        return p, frozenset(tuple(c) for c in spec[2])
    cols = spec[2] if kind in ("biv", "vinc") else ()
    rows = spec[3] if kind == "biv" else (spec[2] if kind == "covinc" else ())
    return p, frozenset([(c, y) for c in cols for y in range(k + 1)]
                        + [(x, r) for r in rows for x in range(k + 1)])


def build_mesh(spec):
    lib = _lib()
    kind, p = spec[0], lib.Perm(spec[1])
    if kind == "mesh":
        return lib.MeshPatt(p, [tuple(c) for c in spec[2]])
    if kind == "biv":
        return lib.BivincularPatt(p, list(spec[2]), list(spec[3]))
    if kind == "vinc":
        return lib.VincularPatt(p, list(spec[2]))
    if kind == "covinc":
        return lib.CovincularPatt(p, list(spec[2]))
    raise ValueError(kind)


def mesh_struct(obj):
    """Structure of a result object; raises if it is not a mesh pattern over a Perm."""
    lib = _lib()
    if not isinstance(obj, lib.MeshPatt):
        raise TypeError("result is %s, not a MeshPatt" % type(obj).__name__)
    if not isinstance(obj.pattern, lib.Perm):
        raise TypeError("result.pattern is %s, not a Perm" % type(obj.pattern).__name__)
    return tuple(obj.pattern), frozenset(obj.shading)


def show_struct(st):
    return [list(st[0]), sorted(st[1])]


# --------------------------------------------------------------------------------------------
# object state: "used" objects have already taken part in searches before a symmetry is applied
# --------------------------------------------------------------------------------------------
# The library memoises search data on pattern objects (and may keep other state there).  A
# symmetry must give the same image whether or not its argument was used before, and the image
# must behave as that image.  Every object-level sub-check therefore runs in two states:
#   fresh : the object comes straight from its constructor
#   used  : the object has been the PATTERN of a completed search and the TEXT of a completed
#           search (a Perm: in itself; a mesh pattern: pattern of a search in its own underlying
#           Perm object, which thereby is pattern and text as well, and in a fresh equal text)

def warm(obj):
    lib = _lib()
    if isinstance(obj, lib.Perm):
        obj.count_occurrences_in(obj)          # obj as pattern and as text
        obj.contains(obj)
        lib.Perm(()).count_occurrences_in(obj)  # obj as text only
    else:
        obj.count_occurrences_in(obj.pattern)   # the mesh pattern and its underlying Perm object
        obj.count_occurrences_in(lib.Perm(tuple(obj.pattern)))
        obj.pattern.contains(obj)
    return obj


# --------------------------------------------------------------------------------------------
# perm_ops / mesh_ops : one case = (object state, object, operation)
# --------------------------------------------------------------------------------------------

def _apply_perm(P, op):
    """Result of op on P as a plain tuple, or a string describing what went wrong."""
    lib = _lib()
    try:
        got = _call(P, op[1], op[2])
    except Exception as exc:  # noqa
        return "exception %r" % (exc,)
    if not isinstance(got, lib.Perm):
        return "returned %s, not a Perm" % type(got).__name__
    return tuple(got)


def _apply_mesh(M, op):
    try:
        return mesh_struct(_call(M, op[1], op[2]))
    except Exception as exc:  # noqa
        return "exception %r" % (exc,)


def case_perm_op(part, case):
    """case = {"perm": p, "ops": [labels]} : the ops are applied one after the other TO THE SAME
    object (not composed); the last one is the one judged (earlier ones only matter if an
    operation changes the object it is called on)."""
    lib = _lib()
    p = tuple(case["perm"])
    P = lib.Perm(p)
    if case.get("used"):
        try:
            warm(P)
        except Exception as exc:  # noqa
            part.violation("perm_ops", case, {"exception while using the object in a search": repr(exc)})
            return
    ops = [OPS_BY_LABEL["perm"][lab] for lab in case["ops"]]
    for op in ops[:-1]:
        _apply_perm(P, op)
    op = ops[-1]
    got = _apply_perm(P, op)
    exp = R.apply_sym(op[3], p)
    if got != exp:
        part.violation("perm_ops", case, {"map": op[3], "expected": exp, "got": got})


def case_mesh_op(part, case):
    spec = norm_spec(case["patt"])
    st = spec_struct(spec)
    try:
        M = build_mesh(spec)
        if case.get("used"):
            warm(M)
    except Exception as exc:  # noqa
        part.violation("mesh_ops", case, {"constructor / first search exception": repr(exc)})
        return
    ops = [OPS_BY_LABEL["mesh"][lab] for lab in case["ops"]]
    for op in ops[:-1]:
        _apply_mesh(M, op)
    op = ops[-1]
    got = _apply_mesh(M, op)
    exp = R.apply_sym_mesh(op[3], st[0], st[1])
    if got != exp:
        part.violation("mesh_ops", case, {"map": op[3], "expected": show_struct(exp),
                                          "got": got if isinstance(got, str) else show_struct(got)})


def _ops_on_object(part, kind, obj_case, obj, imgs, ops, apply, case_fn, ident):
    """Apply every op to ONE object (so an op that changes its argument is seen by the later
    ones); on a mismatch find the shortest explanation: the op alone on a fresh object, or the
    prefix of ops applied to one object."""
    nontriv = 0
    for i, op in enumerate(ops):
        exp = imgs[op[3]]
        got = apply(obj, op)
        if exp != ident:
            nontriv += 1
        if got != exp:
            n0 = part.nviol
            case = dict(obj_case)
            case["ops"] = [op[0]]
            case_fn(part, case)
            if part.nviol == n0:
                case = dict(obj_case)
                case["ops"] = [o[0] for o in ops[:i + 1]]
                case_fn(part, case)
            if part.nviol == n0:
                part.violation(kind + "_state", case,
                               {"note": "wrong inside the enumeration, right when re-run on a fresh object",
                                "op": op[0], "got": repr(got)})
    part.add(len(ops), nontriv)


def shard_perm_ops(shard):
    n, lo, hi, full = shard
    lib = _lib()
    part = Partial()
    ops = PERM_OPS if full else PERM_OPS_CORE
    for p in itertools.islice(itertools.permutations(range(n)), lo, hi):
        imgs = {s: R.apply_sym(s, p) for s in SYMS}
        _ops_on_object(part, "perm_ops", {"perm": p}, lib.Perm(p), imgs, ops, _apply_perm,
                       case_perm_op, p)
        try:
            U = warm(lib.Perm(p))
        except Exception as exc:  # noqa
            part.violation("perm_ops", {"perm": p, "used": True, "ops": [ops[0][0]]},
                           {"exception while using the object in a search": repr(exc)})
            continue
        _ops_on_object(part, "perm_ops", {"perm": p, "used": True}, U, imgs, ops, _apply_perm,
                       case_perm_op, p)
    return part


ALPHA = {}     # name -> list of mesh specs; filled in run() before forking


def shard_mesh_ops(shard):
    name, lo, hi, full = shard
    part = Partial()
    ops = MESH_OPS if full else MESH_OPS_CORE
    for spec in ALPHA[name][lo:hi]:
        st = spec_struct(spec)
        imgs = {s: R.apply_sym_mesh(s, st[0], st[1]) for s in SYMS}
        try:
            M = build_mesh(spec)
        except Exception as exc:  # noqa
            part.violation("mesh_ops", {"patt": spec, "ops": []}, {"constructor exception": repr(exc)})
            continue
        _ops_on_object(part, "mesh_ops", {"patt": spec}, M, imgs, ops, _apply_mesh, case_mesh_op, st)
        try:
            U = warm(build_mesh(spec))
        except Exception as exc:  # noqa
            part.violation("mesh_ops", {"patt": spec, "used": True, "ops": [ops[0][0]]},
                           {"constructor / first search exception": repr(exc)})
            continue
        _ops_on_object(part, "mesh_ops", {"patt": spec, "used": True}, U, imgs, ops, _apply_mesh,
                       case_mesh_op, st)
    return part


def shard_mesh_ops_all3(shard):
    """All 2^16 shadings of one underlying pattern of length 3, by rank (core operations)."""
    p, lo, hi = shard
    part = Partial()
    cells = R.all_cells(len(p))
    for rank in range(lo, hi):
        sh = tuple(c for i, c in enumerate(cells) if rank >> i & 1)
        spec = ("mesh", p, sh)
        st = (p, frozenset(sh))
        imgs = {s: R.apply_sym_mesh(s, p, st[1]) for s in SYMS}
        M = build_mesh(spec)
        _ops_on_object(part, "mesh_ops", {"patt": spec}, M, imgs, MESH_OPS_CORE, _apply_mesh,
                       case_mesh_op, st)
    return part


# --------------------------------------------------------------------------------------------
# group : multiplication table and additivity of rotation counts, on the implementation
# --------------------------------------------------------------------------------------------

def _struct_any(kind, obj):
    lib = _lib()
    if kind == "perm":
        if not isinstance(obj, lib.Perm):
            raise TypeError("result is %s, not a Perm" % type(obj).__name__)
        return tuple(obj)
    return mesh_struct(obj)


def _build_any(kind, case):
    if kind == "perm":
        return _lib().Perm(tuple(case["perm"]))
    return build_mesh(norm_spec(case["patt"]))


def case_group(part, case):
    """case = {"kind": perm|mesh, perm|patt, "a": label, "b": label}:  b(a(x)) == c(x)."""
    kind = case["kind"]
    a, b = ELEM_BY_LABEL[kind][case["a"]], ELEM_BY_LABEL[kind][case["b"]]
    c = X.TABLE[(a[2], b[2])]
    canon = CANON_PERM if kind == "perm" else CANON_MESH
    try:
        x = _build_any(kind, case)
        got = _struct_any(kind, call_seq(call_seq(x, a[1]), b[1]))
        exp = _struct_any(kind, call_seq(x, canon[c]))
    except Exception as exc:  # noqa
        part.violation("group", case, {"exception": repr(exc)})
        return
    if got != exp:
        part.violation("group", case, {"product": c, "b(a(x))": repr(got), "c(x)": repr(exp)})


def case_rot_add(part, case):
    """case = {"kind", perm|patt, "j", "k"}:  x.rotate(j).rotate(k) == x.rotate(j + k)."""
    kind = case["kind"]
    j, k = case["j"], case["k"]
    try:
        x = _build_any(kind, case)
        got = _struct_any(kind, x.rotate(j).rotate(k))
        exp = _struct_any(kind, x.rotate(j + k))
    except Exception as exc:  # noqa
        part.violation("rot_add", case, {"exception": repr(exc)})
        return
    if got != exp:
        part.violation("rot_add", case, {"rotate(j).rotate(k)": repr(got), "rotate(j+k)": repr(exp)})


def _objects_for(kind, name, lo, hi):
    if kind == "perm":
        n = name
        return [{"kind": "perm", "perm": p}
                for p in itertools.islice(itertools.permutations(range(n)), lo, hi)]
    return [{"kind": "mesh", "patt": spec} for spec in ALPHA[name][lo:hi]]


def shard_group(shard):
    kind, name, lo, hi = shard
    part = Partial()
    elems = ELEMS_PERM if kind == "perm" else ELEMS_MESH
    for base in _objects_for(kind, name, lo, hi):
        for a in elems:
            for b in elems:
                case = dict(base)
                case["a"], case["b"] = a[0], b[0]
                case_group(part, case)
                part.add(1, 1 if (a[2] != "id" and b[2] != "id") else 0)
    return part


def shard_rot_add(shard):
    kind, name, lo, hi = shard
    part = Partial()
    for base in _objects_for(kind, name, lo, hi):
        for j in KS:
            for k in KS:
                case = dict(base)
                case["j"], case["k"] = j, k
                case_rot_add(part, case)
                part.add(1, 1 if (j % 4 and k % 4) else 0)
    return part


# --------------------------------------------------------------------------------------------
# equivariance of containment
# --------------------------------------------------------------------------------------------

def _search(P, T):
    """(contains, number of occurrences) by the implementation's search, pattern P in text T."""
    return bool(T.contains(P)), P.count_occurrences_in(T)


def _images(obj, canon, used=False):
    """The eight images of obj by the designated implementation operations (obj first `used`, see
    warm()); an exception is kept in place of the image."""
    if used:
        try:
            warm(obj)
        except Exception as exc:  # noqa
            return [exc] * 8
    out = []
    for s in SYMS:
        try:
            out.append(call_seq(obj, canon[s]))
        except Exception as exc:  # noqa
            out.append(exc)
    return out


def _case_equiv_any(part, sub, case, build_patt, canon):
    """case = {"patt": .., "text": t, "sym": s, "used": bool}: the unmoved pair of FRESH objects is
    the yardstick; the images are taken from fresh or from used objects."""
    lib = _lib()
    t, s, used = tuple(case["text"]), case["sym"], bool(case.get("used"))
    try:
        base = _search(build_patt(), lib.Perm(t))
        P, T = build_patt(), lib.Perm(t)
        if used:
            warm(P)
            warm(T)
        got = _search(call_seq(P, canon[s]), call_seq(T, CANON_PERM[s]))
    except Exception as exc:  # noqa
        part.violation(sub, case, {"exception": repr(exc)})
        return
    if got != base:
        part.violation(sub, case, {"(contains, count) unmoved, fresh objects": base,
                                   "(contains, count) of the images": got})


def case_equiv(part, case):
    lib = _lib()
    p = tuple(case["patt"])
    _case_equiv_any(part, "equiv", case, lambda: lib.Perm(p), CANON_PERM)


def case_mesh_equiv(part, case):
    spec = norm_spec(case["patt"])
    _case_equiv_any(part, "mesh_equiv", case, lambda: build_mesh(spec), CANON_MESH)


def _loop_failed(part, sub, case_fn, case, note):
    n0 = part.nviol
    case_fn(part, case)
    if part.nviol == n0:
        part.violation(sub + "_state", case, {"note": "differs inside the enumeration, agrees when "
                                              "re-run alone", "seen": repr(note)})


CONTAINS_MAXN = 4
EVALS_PER_PAIR = 15      # 7 moved images of fresh objects + 8 images (incl. unmoved) of used objects


def _equiv_pair(part, sub, case_fn, pcase, t, imgs, timgs, uimgs, utimgs):
    """One (pattern, text): the number of occurrences must be the same for the unmoved pair and
    for the eight images, taken from fresh objects (imgs, timgs) and from used objects (uimgs,
    utimgs); so must (texts up to length CONTAINS_MAXN) the answer of `contains`; a replayed
    single case always compares both.  Returns the number of occurrences in the unmoved pair."""
    base = None
    both = len(t) <= CONTAINS_MAXN
    for used, pi, ti in ((False, imgs, timgs), (True, uimgs, utimgs)):
        for si in range(8):
            P, T = pi[si], ti[si]
            case = {"patt": pcase, "text": t, "sym": SYMS[si], "used": used}
            if isinstance(P, Exception) or isinstance(T, Exception):
                _loop_failed(part, sub, case_fn, case, "no image")
                continue
            try:
                got = (bool(T.contains(P)) if both else None, P.count_occurrences_in(T))
            except Exception as exc:  # noqa
                _loop_failed(part, sub, case_fn, case, exc)
                continue
            if si == 0 and not used:
                base = got
            elif base is not None and got != base:
                _loop_failed(part, sub, case_fn, case, [base, got])
    return None if base is None else base[1]


def shard_equiv(shard):
    n, lo, hi, maxk = shard
    lib = _lib()
    part = Partial()
    patts = [p for k in range(0, min(maxk, n) + 1) for p in R.perms(k)]
    pimgs = [_images(lib.Perm(p), CANON_PERM) for p in patts]
    upimgs = [_images(lib.Perm(p), CANON_PERM, used=True) for p in patts]
    for t in itertools.islice(itertools.permutations(range(n)), lo, hi):
        timgs = _images(lib.Perm(t), CANON_PERM)
        utimgs = _images(lib.Perm(t), CANON_PERM, used=True)
        for p, imgs, uimgs in zip(patts, pimgs, upimgs):
            cnt = _equiv_pair(part, "equiv", case_equiv, p, t, imgs, timgs, uimgs, utimgs)
            part.outcomes.add("classical pattern %s" % ("occurs" if cnt else "does not occur"))
            part.add(EVALS_PER_PAIR,
                     EVALS_PER_PAIR if (cnt is not None and 0 < cnt < math.comb(n, len(p))) else 0)
    return part


TEXTS = {}    # n -> list of (t, images of a fresh Perm, images of a used Perm), built before forking


def _texts(n):
    lib = _lib()
    if n not in TEXTS:
        TEXTS[n] = [(t, _images(lib.Perm(t), CANON_PERM), _images(lib.Perm(t), CANON_PERM, used=True))
                    for t in R.perms(n)]
    return TEXTS[n]


def shard_mesh_equiv(shard):
    name, lo, hi, maxn = shard
    lib = _lib()
    part = Partial()
    for spec in ALPHA[name][lo:hi]:
        try:
            M = build_mesh(spec)
            U = build_mesh(spec)
            under = lib.Perm(spec[1])
        except Exception as exc:  # noqa
            part.violation("mesh_equiv", {"patt": spec, "text": (), "sym": "id"}, {"exception": repr(exc)})
            continue
        imgs = _images(M, CANON_MESH)
        uimgs = _images(U, CANON_MESH, used=True)
        k = len(spec[1])
        for n in range(0, maxn + 1):
            for t, timgs, utimgs in _texts(n):
                cnt = _equiv_pair(part, "mesh_equiv", case_mesh_equiv, spec, t, imgs, timgs,
                                  uimgs, utimgs)
                part.outcomes.add("mesh pattern %s" % ("occurs" if cnt else "does not occur"))
                # non-trivial: the shading rejects some but not all classical occurrences
                nt = 0
                if cnt and n > k:
                    try:
                        nt = EVALS_PER_PAIR if cnt < under.count_occurrences_in(timgs[0]) else 0
                    except Exception:  # noqa
                        nt = 0
                part.add(EVALS_PER_PAIR, nt)
    return part


# --------------------------------------------------------------------------------------------
# all_syms
# --------------------------------------------------------------------------------------------

def case_all_syms(part, case):
    """case = {"kind": perm|mesh, perm|patt}"""
    kind = case["kind"]
    try:
        x = _build_any(kind, case)
        res = x.all_syms()
        if not isinstance(res, (tuple, list, set, frozenset)):
            raise TypeError("all_syms returned %s" % type(res).__name__)
        got = [_struct_any(kind, y) for y in res]
        if isinstance(res, (list, set)):
            # FRESH: a mutable result must not be shared with later callers
            damage(res)
            for y in (x, _build_any(kind, case)):
                again = [_struct_any(kind, z) for z in y.all_syms()]
                if sorted(map(repr, again)) != sorted(map(repr, got)):
                    part.violation("all_syms", case, {"after the returned container was modified":
                                                      sorted(map(repr, again)),
                                                      "before": sorted(map(repr, got))})
                    return None
    except Exception as exc:  # noqa
        part.violation("all_syms", case, {"exception": repr(exc)})
        return None
    if kind == "perm":
        exp = R.orbit(tuple(case["perm"]))
    else:
        st = spec_struct(norm_spec(case["patt"]))
        exp = R.orbit_mesh(st[0], st[1])
    if set(got) != exp or len(got) != len(exp):
        part.violation("all_syms", case,
                       {"missing": sorted(map(repr, exp - set(got))),
                        "extra": sorted(map(repr, set(got) - exp)),
                        "returned": len(got), "orbit size": len(exp)})
    return len(exp)


def shard_all_syms(shard):
    kind, name, lo, hi = shard
    part = Partial()
    for base in _objects_for(kind, name, lo, hi):
        size = case_all_syms(part, base)
        part.add(1, 1 if (size is not None and size > 1) else 0)
        if size is not None:
            part.bump("orbit_size_%d" % size)
            part.outcomes.add("%s orbit of size %d" % (base["kind"], size))
    return part


# --------------------------------------------------------------------------------------------
# sets : all_symmetry_sets, the *_set helpers, lex_min
# --------------------------------------------------------------------------------------------

HELPERS = [("reverse_set", "reverse"), ("complement_set", "complement"), ("inverse_set", "inverse"),
           ("antidiagonal_set", "antidiagonal"), ("rotate_90_clockwise_set", "rot90"),
           ("rotate_180_clockwise_set", "rot180"), ("rotate_270_clockwise_set", "rot270")]
# FORMS: the same logical collection in every form the signature (Iterable[Perm]) admits
FORMS = ["list", "tuple", "iter", "set", "frozenset", "reversed", "generator", "map", "helper",
         "dup", "kw", "Basis"]
UNORDERED = ("set", "frozenset")


def logical_input(form, B):
    """The collection (as a list of plain tuples, in iteration order where there is one) that the
    form denotes, or None if the form does not apply to B."""
    B = [tuple(p) for p in B]
    if form == "dup":                       # a repeated element, see case_sets
        return B if B else None
    if form == "reversed":
        return B[::-1]
    if form == "Basis":                     # a Basis object holds B itself iff B is an antichain
        return sorted(B, key=X.pkey) if (B and X.is_antichain(B)) else None
    return B


def make_form(form, B):
    """-> (positional args, keyword args) for a function taking the collection."""
    lib = _lib()
    from permuta import permutils
    objs = [lib.Perm(p) for p in B]
    if form == "kw":
        return (), {"perms": objs}
    if form == "list":
        arg = objs
    elif form == "tuple":
        arg = tuple(objs)
    elif form == "iter":
        arg = iter(objs)
    elif form == "set":
        arg = set(objs)
    elif form == "frozenset":
        arg = frozenset(objs)
    elif form == "reversed":
        arg = objs[::-1]
    elif form == "generator":
        arg = (o for o in objs)
    elif form == "map":
        arg = map(lambda o: o, objs)
    elif form == "helper":                  # the library's own lazily evaluated helper output
        arg = permutils.inverse_set(permutils.inverse_set(objs))
    elif form == "dup":
        arg = objs + [lib.Perm(B[0])]
    elif form == "Basis":
        arg = lib.Basis(*objs)
    else:
        raise ValueError(form)
    return (arg,), {}


def _plain_sets(res):
    if not isinstance(res, (set, frozenset)):
        raise TypeError("all_symmetry_sets returned %s" % type(res).__name__)
    out = set()
    for t in res:
        if not isinstance(t, tuple):
            raise TypeError("member of all_symmetry_sets is %s" % type(t).__name__)
        out.add(tuple(tuple(q) for q in t))
    if len(out) != len(res):
        raise ValueError("all_symmetry_sets has members that are equal as tuples of tuples")
    return out


def damage(res):
    """FRESH dimension: spoil a returned mutable container in place (a later answer must not be
    served from it)."""
    if isinstance(res, set):
        res.clear()
        res.add(("damaged",))
    elif isinstance(res, list):
        res.reverse()
        res.append("damaged")
        del res[:1]
    elif isinstance(res, dict):
        res.clear()


def _sets_eval(form, basis, L, orbit, lmin):
    """All functions of permutils.symmetry on `basis` handed over in `form`, against the reference
    (L = the logical collection in iteration order, its orbit, its lex-min).  -> dict of failures."""
    from permuta import permutils
    bad = {}

    def call(fname):
        args, kw = make_form(form, basis)
        return getattr(permutils, fname)(*args, **kw)

    try:
        args, kw = make_form(form, basis)
        res = permutils.all_symmetry_sets(*args, **kw)
        got = _plain_sets(res)
        if got != orbit:
            bad["all_symmetry_sets"] = {"missing": sorted(orbit - got), "extra": sorted(got - orbit)}
        else:
            damage(res)
            again = [_plain_sets(call("all_symmetry_sets"))]
            if form == "list":      # the very same argument object once more
                again.append(_plain_sets(permutils.all_symmetry_sets(*args, **kw)))
            if any(g != orbit for g in again):
                bad["all_symmetry_sets after its result was modified"] = \
                    {"expected": sorted(orbit), "got": [sorted(g) for g in again]}
    except Exception as exc:  # noqa
        bad["all_symmetry_sets"] = {"exception": repr(exc)}
    try:
        got = tuple(tuple(q) for q in call("lex_min"))
        if got != lmin:
            bad["lex_min"] = {"expected": lmin, "got": got}
    except Exception as exc:  # noqa
        bad["lex_min"] = {"exception": repr(exc)}
    for hname, sym in HELPERS:
        try:
            got = [tuple(q) for q in call(hname)]
            exp = X.image_set(sym, L)
            ok = (sorted(got) == sorted(exp)) if form in UNORDERED else (got == exp)
            if not ok:
                bad[hname] = {"expected": exp, "got": got}
                continue
            # the helper's own (one-shot) output fed back in: lex_min is constant on the orbit and
            # the orbit of an image is the orbit
            got2 = tuple(tuple(q) for q in permutils.lex_min(call(hname)))
            if got2 != lmin:
                bad["lex_min after " + hname] = {"expected": lmin, "got": got2}
            got3 = _plain_sets(permutils.all_symmetry_sets(call(hname)))
            if got3 != orbit:
                bad["all_symmetry_sets after " + hname] = {"missing": sorted(orbit - got3),
                                                           "extra": sorted(got3 - orbit)}
        except Exception as exc:  # noqa
            bad[hname] = {"exception": repr(exc)}
    return bad


def case_sets(part, case, ref=None):
    """case = {"basis": [perms], "form": argument form}.  Every function of permutils.symmetry on
    the collection in the given form; the helpers' own one-shot outputs fed back in; after every
    answer that is a mutable container: damage it, ask again, compare again."""
    form = case["form"]
    basis = [tuple(p) for p in case["basis"]]
    L = logical_input(form, basis)
    if L is None:
        return None
    orbit, lmin = ref if ref is not None else (X.orbit_sets(basis), X.lex_min(basis))
    if form == "dup":
        # a repeated element: the property speaks of SETS, so for the orbit and its minimum both
        # readings of the argument are accepted, as a multiset (repeat kept, what the code does) and
        # as a set (repeat dropped) - but one and the same reading for all_symmetry_sets and
        # lex_min; the *_set helpers map element by element, repeat included
        multi = basis + [basis[0]]
        bad = _sets_eval(form, basis, multi, X.orbit_sets(multi), X.lex_min(multi))
        if bad and _sets_eval(form, basis, multi, orbit, lmin):
            part.violation("sets", case, bad)
        return len(orbit)
    args_basis = basis if form == "reversed" else L
    if form in ("reversed", "Basis"):
        pass        # same set, other order: orbit and lex-min are those of the set
    bad = _sets_eval(form, args_basis, L, orbit, lmin)
    if bad:
        part.violation("sets", case, bad)
    return len(orbit)


def case_chain(part, case):
    """case = {"basis", "form", "h1", "h2"}: a helper applied to another helper's one-shot output is
    the image under the product of the two symmetries, element by element."""
    from permuta import permutils
    form = case["form"]
    L = logical_input(form, case["basis"])
    if L is None:
        return
    s1, s2 = dict(HELPERS)[case["h1"]], dict(HELPERS)[case["h2"]]
    exp = X.image_set(X.TABLE[(s1, s2)], L)
    try:
        args, kw = make_form(form, L if form not in ("dup", "reversed") else case["basis"])
        got = [tuple(q) for q in getattr(permutils, case["h2"])(getattr(permutils, case["h1"])(*args, **kw))]
    except Exception as exc:  # noqa
        part.violation("chain", case, {"exception": repr(exc)})
        return
    ok = (sorted(got) == sorted(exp)) if form in UNORDERED else (got == exp)
    if not ok:
        part.violation("chain", case, {"product": X.TABLE[(s1, s2)], "expected": exp, "got": got})


CHAIN_FORMS = ["list", "generator", "set", "kw"]


def shard_chain(shard):
    name, lo, hi = shard
    part = Partial()
    for B in POOLS[name][lo:hi]:
        for form in CHAIN_FORMS:
            for h1, s1 in HELPERS:
                for h2, s2 in HELPERS:
                    case_chain(part, {"basis": B, "form": form, "h1": h1, "h2": h2})
            part.add(49, 49 if len(B) > 0 else 0)
    return part


POOLS = {}    # name -> list of bases (tuples of perms)


def shard_sets(shard):
    name, lo, hi, forms = shard
    part = Partial()
    for B in POOLS[name][lo:hi]:
        ref = (X.orbit_sets(B), X.lex_min(B))
        size = len(ref[0])
        for form in forms:
            if case_sets(part, {"basis": B, "form": form}, ref) is None:
                continue            # the form does not apply to this collection
            part.add(1, 1 if (size > 1 and len(B) > 1) else 0)
            part.bump("form_" + form)
        part.bump("set_orbit_size_%d" % size)
        part.outcomes.add("set orbit of size %d" % size)
    return part


# --------------------------------------------------------------------------------------------
# scale : the same oracles on a sparse, fully enumerated family of LONG structured inputs
# --------------------------------------------------------------------------------------------
# Sizes straddle thresholds of the runtime that the small exhaustive domains never cross (set
# tables of 8 / 32 slots, the small-int cache at 256, byte-sized buffers).  Violations are reported
# under the sub-check whose oracle is used (perm_ops, mesh_ops, all_syms, sets, equiv), so replay
# needs nothing new.

SCALE_CELLS = None


def scale_mesh_specs(n):
    """Mesh patterns over the long shapes of length n: all shadings with <= 2 cells out of the
    corner / edge / middle cells of the (n+1) x (n+1) grid listed here."""
    m = n // 2
    cells = [(0, 0), (n, n), (0, n), (n, 0), (1, n - 1), (m, m + 1), (n - 1, 2)]
    out = []
    for _, p in X.long_shapes(n):
        for sub in R.subsets(cells, 2, 0):
            out.append(("mesh", p, tuple(sorted(sub))))
    return out


def shard_scale_ops(shard):
    """perm_ops + all_syms (+ used state up to length 34) on the long shapes of one length."""
    n, = shard
    lib = _lib()
    part = Partial()
    for _, p in X.long_shapes(n):
        imgs = {s: R.apply_sym(s, p) for s in SYMS}
        _ops_on_object(part, "perm_ops", {"perm": p}, lib.Perm(p), imgs, PERM_OPS, _apply_perm,
                       case_perm_op, p)
        if n <= 34:
            try:
                U = warm(lib.Perm(p))
                _ops_on_object(part, "perm_ops", {"perm": p, "used": True}, U, imgs, PERM_OPS,
                               _apply_perm, case_perm_op, p)
            except Exception as exc:  # noqa
                part.violation("perm_ops", {"perm": p, "used": True, "ops": ["reverse"]},
                               {"exception while using the object in a search": repr(exc)})
        size = case_all_syms(part, {"kind": "perm", "perm": p})
        part.add(1, 1 if size and size > 1 else 0)
    return part


def shard_scale_mesh(shard):
    n, lo, hi = shard
    part = Partial()
    for spec in scale_mesh_specs(n)[lo:hi]:
        st = spec_struct(spec)
        imgs = {s: R.apply_sym_mesh(s, st[0], st[1]) for s in SYMS}
        try:
            M = build_mesh(spec)
        except Exception as exc:  # noqa
            part.violation("mesh_ops", {"patt": spec, "ops": []}, {"constructor exception": repr(exc)})
            continue
        _ops_on_object(part, "mesh_ops", {"patt": spec}, M, imgs, MESH_OPS_CORE, _apply_mesh,
                       case_mesh_op, st)
        size = case_all_syms(part, {"kind": "mesh", "patt": spec})
        part.add(1, 1 if size and size > 1 else 0)
    return part


SCALE_FORMS = ["list", "reversed", "set", "generator", "dup", "Basis"]


def shard_scale_sets(shard):
    n, lo, hi = shard
    part = Partial()
    for B in X.scale_bases(n)[lo:hi]:
        ref = (X.orbit_sets(B), X.lex_min(B))
        for form in (SCALE_FORMS if n <= 12 else SCALE_FORMS[:-1]):   # Basis: reference is brute force
            size = case_sets(part, {"basis": B, "form": form}, ref)
            if size is not None:
                part.add(1, 1 if (size > 1 and len(B) > 1) else 0)
    return part


def shard_scale_equiv(shard):
    """Equivariance with long texts: all patterns of length <= 3 in the long shapes of length n."""
    n, = shard
    lib = _lib()
    part = Partial()
    patts = [p for k in range(0, 4) for p in R.perms(k)]
    pimgs = [_images(lib.Perm(p), CANON_PERM) for p in patts]
    upimgs = [_images(lib.Perm(p), CANON_PERM, used=True) for p in patts]
    for _, t in X.long_shapes(n):
        timgs = _images(lib.Perm(t), CANON_PERM)
        utimgs = _images(lib.Perm(t), CANON_PERM, used=True)
        for p, imgs, uimgs in zip(patts, pimgs, upimgs):
            cnt = _equiv_pair(part, "equiv", case_equiv, p, t, imgs, timgs, uimgs, utimgs)
            part.add(EVALS_PER_PAIR,
                     EVALS_PER_PAIR if (cnt is not None and 0 < cnt < math.comb(n, len(p))) else 0)
    return part


# --------------------------------------------------------------------------------------------
# long_mesh_equiv : mesh equivariance with LONG texts (thin family, sizes named by the code)
# --------------------------------------------------------------------------------------------
# Text = a skeleton permutation of length 4 (5) in which one point is replaced by a monotone run,
# chosen so that no occurrence of the pattern uses a run point (X.long_mesh_skeletons).  The run is
# then a bystander lying in ONE box of every occurrence, whatever its length, so the number of mesh
# occurrences equals the one in the skeleton (brute force there).  Oracle: the library's count (and
# `contains`) on all eight images of (mesh pattern, long text) equals that number.

SKELETONS = {}     # family name -> list of (patt, sigma, j, direction, cells, both), filled before forking


def run_box(patt, sigma, j):
    """The box of every occurrence of patt in sigma in which point j (hence the whole run) lies, if
    it is the same for all occurrences, else None."""
    boxes = {R.cell_of(o, sigma, j) for o in R.occurrences(patt, sigma)}
    return boxes.pop() if len(boxes) == 1 else None


def long_mesh_families(maxlen):
    """full   : every skeleton, all 16 single-box shadings, count and contains   (texts <= 40)
       medium : every skeleton, the box the run lies in and one control box ((x, y+2 mod 4)), count
       thin   : skeletons whose run lies in a box that is not a corner of the grid (there the
                classification of a bystander depends on how the candidate's positions / values
                are ordered); the run's box and the control box; count
       thinner: thin with increasing runs only and the run's box only (quick tier, long texts);
                the monotone patterns (cheap) keep all their skeletons"""
    sk = X.long_mesh_skeletons(maxlen)
    cells = R.all_cells(3)
    fam = {"full": [], "medium": [], "thin": [], "thinner": []}
    for patt, sigma, j, d in sk:
        fam["full"].append((patt, sigma, j, d, cells, True))
        box = run_box(patt, sigma, j)
        if box is None:
            continue
        two = [box, (box[0], (box[1] + 2) % 4)]
        fam["medium"].append((patt, sigma, j, d, two, False))
        monotone = patt in ((0, 1, 2), (2, 1, 0))
        corner = box[0] in (0, 3) and box[1] in (0, 3)
        if monotone or not corner:
            fam["thin"].append((patt, sigma, j, d, two, False))
            if monotone or d == "inc":
                fam["thinner"].append((patt, sigma, j, d, [box], False))
    return fam


def case_long_mesh(part, case):
    """case = {"patt": p, "cell": [x, y], "sigma": s, "j": j, "dir": d, "n": n, "sym": name}"""
    lib = _lib()
    p, cell = tuple(case["patt"]), tuple(case["cell"])
    sigma, j, d, n, sym = tuple(case["sigma"]), case["j"], case["dir"], case["n"], case["sym"]
    exp = len(R.mesh_occurrences(p, [cell], sigma))
    t = X.inflate_point(sigma, j, n - len(sigma) + 1, d)
    try:
        M = call_seq(lib.MeshPatt(lib.Perm(p), [cell]), CANON_MESH[sym])
        T = call_seq(lib.Perm(t), CANON_PERM[sym])
        got = (M.count_occurrences_in(T), bool(T.contains(M)))
    except Exception as exc:  # noqa
        part.violation("long_mesh_equiv", case, {"exception": repr(exc)})
        return
    if got != (exp, exp > 0):
        part.violation("long_mesh_equiv", case, {"expected (count, contains)": (exp, exp > 0),
                                                 "got": got, "text": "inflation of %r at %d by a %s run, length %d" % (sigma, j, d, n)})


def shard_long_mesh(shard):
    n, name, lo, hi = shard
    lib = _lib()
    part = Partial()
    for patt, sigma, j, d, cells, both in SKELETONS[name][lo:hi]:
        if n < len(sigma):
            continue
        t = X.inflate_point(sigma, j, n - len(sigma) + 1, d)
        timgs = _images(lib.Perm(t), CANON_PERM)
        unshaded = len(R.occurrences(patt, sigma))
        for cell in cells:
            exp = len(R.mesh_occurrences(patt, [cell], sigma))
            imgs = _images(lib.MeshPatt(lib.Perm(patt), [cell]), CANON_MESH)
            for si in range(8):
                case = {"patt": patt, "cell": cell, "sigma": sigma, "j": j, "dir": d, "n": n,
                        "sym": SYMS[si]}
                P, T = imgs[si], timgs[si]
                ok = False
                if not isinstance(P, Exception) and not isinstance(T, Exception):
                    try:
                        ok = P.count_occurrences_in(T) == exp and \
                            (not both or bool(T.contains(P)) == (exp > 0))
                    except Exception:  # noqa
                        ok = False
                if not ok:
                    _loop_failed(part, "long_mesh_equiv", case_long_mesh, case, "count differs")
            part.add(8, 8 if exp < unshaded else 0)
    return part


# --------------------------------------------------------------------------------------------
# abort : fault injection (bound 1) - an operation is cut off at its k-th call into the library,
#         then everything is asked again on the same objects and on fresh equal objects
# --------------------------------------------------------------------------------------------

class _Abort(BaseException):
    """Stands for Ctrl-C / an exception thrown out of the caller's loop body."""


def _run_with_abort(fn, k, root):
    """Run fn(); raise _Abort at the k-th 'call' event of a frame whose code lives under root
    (k=None: never).  Returns (finished?, number of such events seen)."""
    seen = [0]

    def tracer(frame, event, arg):
        if event == "call" and frame.f_code.co_filename.startswith(root):
            seen[0] += 1
            if seen[0] == k:
                sys.settrace(None)
                raise _Abort()
        return None

    sys.settrace(tracer)
    try:
        fn()
        return True, seen[0]
    except _Abort:
        return False, seen[0]
    finally:
        sys.settrace(None)


ABORT_TEXTS = [t for n in range(0, 4) for t in R.perms(n)] + [(1, 3, 0, 2), (0, 2, 3, 1), (3, 0, 1, 2)]
ABORT_PERMS = [p for n in range(0, 4) for p in R.perms(n)] + [(1, 3, 0, 2), (0, 2, 3, 1)]
ABORT_MESH = None     # filled lazily: Mesh<=1 and the named patterns of length <= 3
ABORT_SETS = [((0,),), ((0, 1), (1, 0)), ((0, 2, 1), (1, 2, 3, 0)), ((1, 0), (0, 1, 2), (1, 3, 0, 2))]
ABORT_OPS_PERM = ["reverse", "complement", "inverse", "reverse_complement", "flip_antidiagonal",
                  "rotate(1)", "rotate(2)", "rotate(3)", "rotate(-1)"]
ABORT_OPS_MESH = ["reverse", "complement", "inverse", "rotate(1)", "rotate(2)", "rotate(3)"]
ABORT_SET_FUNCS = ["all_symmetry_sets", "lex_min"] + [h for h, _ in HELPERS]


def abort_mesh_specs():
    return as_specs(X.mesh_all(0) + X.mesh_all(1)) + \
        [sp for sp in as_specs(X.NAMED) if len(sp[1]) <= 3] + \
        [("vinc", (1, 0), (1,)), ("biv", (0, 1), (0,), (2,))]


def abort_families():
    """Descriptors (JSON-able) of the operations that are cut off."""
    fams = []
    for p in ABORT_PERMS:
        for used in (False, True):
            for lab in ABORT_OPS_PERM:
                fams.append({"what": "perm_op", "perm": p, "used": used, "op": lab})
            fams.append({"what": "all_syms", "kind": "perm", "perm": p, "used": used})
        for t in ((0, 2, 1), (1, 3, 0, 2)):
            fams.append({"what": "search", "kind": "perm", "perm": p, "text": t})
    for spec in abort_mesh_specs():
        for used in (False, True):
            for lab in ABORT_OPS_MESH:
                fams.append({"what": "mesh_op", "patt": spec, "used": used, "op": lab})
            fams.append({"what": "all_syms", "kind": "mesh", "patt": spec, "used": used})
        fams.append({"what": "search", "kind": "mesh", "patt": spec, "text": (1, 3, 0, 2)})
    for B in ABORT_SETS:
        for fname in ABORT_SET_FUNCS:
            for form in ("list", "generator"):
                fams.append({"what": "set_func", "basis": B, "func": fname, "form": form})
        fams.append({"what": "cli", "basis": B})
    return fams


def _abort_setup(fam):
    """-> (state, operation).  state = the objects the operation works on (read back later)."""
    lib = _lib()
    from permuta import permutils
    what = fam["what"]
    # the number of call events must not depend on what this process did before: start every
    # execution from an empty standardisation cache (the only process-wide memo these operations use)
    cc = getattr(getattr(lib.Perm, "_to_standard", None), "cache_clear", None)
    if cc is not None:
        cc()
    if what in ("perm_op", "mesh_op", "all_syms", "search"):
        kind = "mesh" if (what == "mesh_op" or fam.get("kind") == "mesh") else "perm"
        obj = _build_any(kind, fam)
        if fam.get("used"):
            warm(obj)
        if what == "all_syms":
            return {"kind": kind, "obj": obj}, obj.all_syms
        if what == "search":
            T = lib.Perm(tuple(fam["text"]))
            return {"kind": kind, "obj": obj, "text": T}, lambda: obj.count_occurrences_in(T)
        op = OPS_BY_LABEL[kind][fam["op"]]
        return {"kind": kind, "obj": obj}, lambda: _call(obj, op[1], op[2])
    if what == "set_func":
        args, kw = make_form(fam["form"], fam["basis"])
        fn = getattr(permutils, fam["func"])

        def run_it():
            res = fn(*args, **kw)
            if not isinstance(res, (set, tuple)):
                list(res)          # the helpers are lazy: consume
        return {"args": args if fam["form"] == "list" else None}, run_it
    if what == "cli":
        text = spell(fam["basis"], 1, "_", False)
        return {}, lambda: run_cli("func", text)
    raise ValueError(what)


def _object_readback(kind, fam, obj):
    """Everything C04 says about one object, against the reference; returns a dict of failures."""
    lib = _lib()
    bad = {}
    if kind == "perm":
        p = tuple(fam["perm"])
        st = p
        canon, img = CANON_PERM, lambda s: R.apply_sym(s, p)
        orbit = R.orbit(p)
        ref_count = lambda t: len(R.occurrences(p, t))                      # noqa
    else:
        st = spec_struct(norm_spec(fam["patt"]))
        canon, img = CANON_MESH, lambda s: R.apply_sym_mesh(s, st[0], st[1])
        orbit = R.orbit_mesh(st[0], st[1])
        ref_count = lambda t: len(R.mesh_occurrences(st[0], st[1], t))      # noqa
    images = {}
    for s in SYMS:
        images[s] = call_seq(obj, canon[s])
        got = _struct_any(kind, images[s])
        if got != img(s):
            bad["image " + s] = repr(got)
    got = {_struct_any(kind, y) for y in obj.all_syms()}
    if got != orbit:
        bad["all_syms"] = sorted(map(repr, got))
    for t in ABORT_TEXTS:
        exp = ref_count(t)
        T = lib.Perm(t)
        if obj.count_occurrences_in(T) != exp or bool(T.contains(obj)) != (exp > 0):
            bad["search in %r" % (t,)] = "expected %d occurrences" % exp
        for s in SYMS[1:]:
            if images[s].count_occurrences_in(call_seq(T, CANON_PERM[s])) != exp:
                bad["search of the %s image in the image of %r" % (s, t)] = "expected %d" % exp
    return bad


def _abort_readback(fam, state):
    from permuta import permutils
    lib = _lib()
    what = fam["what"]
    bad = {}
    if what in ("perm_op", "mesh_op", "all_syms", "search"):
        kind = state["kind"]
        for who, obj in (("same object", state["obj"]), ("fresh equal object", _build_any(kind, fam))):
            for key, val in _object_readback(kind, fam, obj).items():
                bad[who + ": " + key] = val
        if what == "search":
            t = tuple(fam["text"])
            for who, T in (("same text", state["text"]), ("fresh text", lib.Perm(t))):
                for key, val in _object_readback("perm", {"perm": t}, T).items():
                    bad[who + ": " + key] = val
        return bad
    B = [tuple(p) for p in fam["basis"]]
    orbit, lmin = X.orbit_sets(B), X.lex_min(B)
    makers = [("fresh list", lambda: make_form("list", B)[0]),
              ("fresh generator", lambda: make_form("generator", B)[0])]
    if state.get("args") is not None:
        makers.append(("the list given to the aborted call", lambda: state["args"]))
    for who, mk in makers:
        if _plain_sets(permutils.all_symmetry_sets(*mk())) != orbit:
            bad["all_symmetry_sets, " + who] = "not the orbit"
        if tuple(tuple(q) for q in permutils.lex_min(*mk())) != lmin:
            bad["lex_min, " + who] = "not the orbit minimum"
    for hname, sym in HELPERS:
        if [tuple(q) for q in getattr(permutils, hname)(make_form("list", B)[0][0])] != X.image_set(sym, B):
            bad[hname] = "wrong image"
    exp = "_".join(X.perm_str0(p) for p in X.lex_min(X.minimal_elements(B))) + "\n"
    if not any(len(p) == 0 for p in B):
        for base in (0, 1):
            got = run_cli("func", spell(B, base, "_", False))
            if got != exp:
                bad["permtools lexmin (%d-based)" % base] = got
    for p in B:      # the objects Basis.from_string obtains through the lru_cache of to_standard
        for key, val in _object_readback("perm", {"perm": p},
                                         lib.Perm.to_standard(X.perm_str1(p))).items():
            bad["to_standard object %r: %s" % (p, key)] = val
    return bad


def _abort_total(fam, root):
    state, op = _abort_setup(fam)
    return _run_with_abort(op, None, root)[1]


def case_abort(part, case):
    """case = family descriptor + {"abort_at_call": k}"""
    import os
    import signal
    from ..core import REPO
    root = os.path.join(os.path.abspath(REPO), "permuta") + os.sep
    k = case["abort_at_call"]

    def on_alarm(signum, frame):
        raise TimeoutError("read-back did not finish within 20 s")

    old = signal.signal(signal.SIGALRM, on_alarm)
    old_hook = sys.unraisablehook
    sys.unraisablehook = lambda unraisable: None
    try:
        try:
            state, op = _abort_setup(case)
        except Exception as exc:  # noqa
            part.violation("abort", case, {"exception in set-up": repr(exc)})
            return
        try:
            _run_with_abort(op, k, root)
        except Exception as exc:  # noqa  (an ordinary exception of the operation itself)
            part.violation("abort", case, {"exception in the operation": repr(exc)})
            return
        signal.alarm(20)
        try:
            bad = _abort_readback(case, state)
        except TimeoutError as exc:
            bad = {"hang": str(exc)}
        except Exception as exc:  # noqa
            bad = {"exception in read-back": repr(exc)}
        finally:
            signal.alarm(0)
        if bad:
            part.violation("abort", case, bad)
    finally:
        sys.unraisablehook = old_hook
        signal.signal(signal.SIGALRM, old)


def shard_abort(shard):
    import os
    from ..core import REPO
    first, step = shard
    root = os.path.join(os.path.abspath(REPO), "permuta") + os.sep
    part = Partial()
    points = 0
    for fam in abort_families()[first::step]:
        try:
            total = _abort_total(fam, root)
        except Exception as exc:  # noqa
            part.violation("abort", dict(fam, abort_at_call=0), {"exception, undisturbed run": repr(exc)})
            continue
        for k in range(1, total + 1):
            case_abort(part, dict(fam, abort_at_call=k))
        points += total
        part.add(total, total)
        part.bump("abort_operations")
    part.bump("abort_injection_points", points)
    return part, points


# --------------------------------------------------------------------------------------------
# cli : permtools lexmin
# --------------------------------------------------------------------------------------------

SEPS = ["_", ":", ", ", " "]
VIAS = ["main", "parser", "func"]


def spell(B, base, sep, rev, dup=False):
    """base 0 | 1; dup: the first permutation is listed once more at the end."""
    ps = list(B)[::-1] if rev else list(B)
    if dup and ps:
        ps = ps + [ps[0]]
    return sep.join((X.perm_str1 if base == 1 else X.perm_str0)(p) for p in ps)


def run_cli(via, text):
    """stdout of `permtools lexmin <text>`, in-process."""
    import argparse
    from permuta import cli
    buf = io.StringIO()
    old_argv = sys.argv
    try:
        with contextlib.redirect_stdout(buf):
            if via == "main":
                sys.argv = ["permtools", "lexmin", text]
                cli.main()
            elif via == "parser":
                args = cli.get_parser().parse_args(["lexmin", text])
                args.func(args)
            else:
                cli.get_lex_min(argparse.Namespace(basis=text))
    finally:
        sys.argv = old_argv
    return buf.getvalue()


def case_cli(part, case, lmin=None):
    """case = {"basis": [perms], "base": 0|1, "sep": str, "rev": bool, "via": str, "sym": name}:
    the image of the basis under `sym` is spelled and given to the command; the answer must be the
    0-based spelling of the smallest member of the orbit of the (minimal elements of the) basis."""
    B = [tuple(p) for p in case["basis"]]
    img = X.image_set(case["sym"], B)
    text = spell(img, case["base"], case["sep"], case["rev"], bool(case.get("dup")))
    if lmin is None:
        lmin = X.lex_min(X.minimal_elements(B))
    exp = "_".join(X.perm_str0(p) for p in lmin) + "\n"
    try:
        got = run_cli(case["via"], text)
    except BaseException as exc:  # noqa  (argparse exits with SystemExit)
        if isinstance(exc, KeyboardInterrupt):
            raise
        part.violation("cli", case, {"argument": text, "exception": repr(exc)})
        return
    if got != exp:
        part.violation("cli", case, {"argument": text, "expected stdout": exp, "got": got})


def shard_cli(shard):
    name, lo, hi, variants, syms = shard
    part = Partial()
    for B in POOLS[name][lo:hi]:
        orbit_size = len(X.orbit_sets(B))
        lmin = X.lex_min(X.minimal_elements(B))
        for (base, sep, rev, via, dup) in variants:
            for s in syms:
                case_cli(part, {"basis": B, "base": base, "sep": sep, "rev": rev, "via": via,
                                "dup": dup, "sym": s}, lmin)
                part.add(1, 1 if orbit_size > 1 else 0)
    return part


# --------------------------------------------------------------------------------------------
# alphabets
# --------------------------------------------------------------------------------------------

def biv_specs(k):
    out = []
    idx = list(R.subsets(range(k + 1), k + 1, 0))
    for p in R.perms(k):
        for cols in idx:
            out.append(("vinc", p, cols))
            out.append(("covinc", p, cols))
            for rows in idx:
                out.append(("biv", p, cols, rows))
    return out


def as_specs(pairs):
    return [("mesh", p, tuple(sorted(sh))) for p, sh in pairs]


def build_alphabets(quick):
    ALPHA["mesh<=2"] = as_specs(X.mesh_all(0) + X.mesh_all(1) + X.mesh_all(2))
    ALPHA["mesh3-family"] = as_specs(X.mesh_family(3, 2))
    ALPHA["named"] = as_specs(X.NAMED)
    ALPHA["biv<=2"] = biv_specs(0) + biv_specs(1) + biv_specs(2)
    ALPHA["mesh<=1"] = as_specs(X.mesh_all(0) + X.mesh_all(1))
    small = as_specs(X.mesh_all(0) + X.mesh_all(1)) + \
        as_specs([(p, sh) for p in R.perms(2) for sh in X.shadings_sparse_dense(2, 1)]) + \
        as_specs([(p, sh) for p in R.perms(3) for sh in X.shadings_sparse_dense(3, 1)])
    ALPHA["small"] = small + ALPHA["named"]
    if not quick:
        ALPHA["biv3"] = biv_specs(3)
        ALPHA["mesh4-sparse"] = as_specs([(p, sh) for p in R.perms(4)
                                          for sh in X.shadings_sparse_dense(4, 2)
                                          if len(sh) <= 2])
        ALPHA["mesh4-1cell"] = as_specs([(p, sh) for p in R.perms(4)
                                         for sh in X.shadings_sparse_dense(4, 1)
                                         if len(sh) <= 1])
        ALPHA["mesh3-3cells"] = as_specs([(p, frozenset(sub)) for p in R.perms(3)
                                          for sub in itertools.combinations(R.all_cells(3), 3)])


def set_pool(maxlen, maxsize, minsize=1):
    pool = [p for n in range(0, maxlen + 1) for p in R.perms(n)]
    return [tuple(b) for b in R.subsets(pool, maxsize, minsize)]


def chunked(name, total, per, *rest):
    return [(name, lo, min(total, lo + per)) + tuple(rest) for lo in range(0, total, per)]


# --------------------------------------------------------------------------------------------

def run(ctx, only=None):
    def want(name):
        return only is None or name in only

    quick = ctx.quick
    X.selftest_table()
    ctx.rule = ("every (object, operation), (object, a, b), (pattern, text, symmetry), object, "
                "(set, container kind) and (basis, spelling, symmetry) of the stated finite spaces "
                "is enumerated once; non-trivial = the geometric image differs from the argument "
                "(ops); both factors are not the identity (group, rot_add); the pattern occurs but "
                "not in every index subset / the shading rejects some but not all classical "
                "occurrences (equiv, mesh_equiv); the orbit has more than one member (all_syms, "
                "sets with >= 2 elements, cli)")
    ctx.assumptions = [
        "reference: mc/refmodel.py SYMS (coordinate maps of the square on points and on cell centres), "
        "mc/ref_c04.py (group table from those maps, orbit of a set, minimal elements, lex-min in the "
        "documented Perm order: length, then lexicographic)",
        "rotate(k): k > 0 clockwise quarter turns, k < 0 counter-clockwise (docstring + "
        "rotate_90_clockwise_set)",
        "cli: exact expected output only states what `lexmin` documents (0-based, '_'-joined smallest "
        "orbit member of the basis = minimal elements of the given set)",
        "sizes beyond the bounds are not explored",
    ]
    build_alphabets(quick)

    if want("perm_ops"):
        e0, v0 = ctx.evals, ctx.nviol
        nfull = 7 if quick else 8
        ncore = None if quick else 9
        shards = []
        for n in range(0, nfull + 1):
            total = math.factorial(n)
            shards += [(n, lo, min(total, lo + 720), True) for lo in range(0, total, 720)]
        if ncore:
            total = math.factorial(ncore)
            shards += [(ncore, lo, min(total, lo + 5040), False) for lo in range(0, total, 5040)]
        ctx.pmap(shard_perm_ops, shards)
        ctx.bounds["object states"] = ("perm_ops, mesh_ops (not the 2^16 family), equiv, mesh_equiv: every "
                                       "object fresh from its constructor AND after it has been pattern "
                                       "and text of completed searches (warm())")
        ctx.bounds["perm_ops"] = {"perms": "all of length 0..%d" % nfull,
                                  "ops": [o[0] for o in PERM_OPS],
                                  "extra": ("all of length %d with ops %s" % (ncore, [o[0] for o in PERM_OPS_CORE])) if ncore else None}
        ctx.section("perm_ops", evaluations=ctx.evals - e0, violations=ctx.nviol - v0)

    if want("mesh_ops"):
        e0, v0 = ctx.evals, ctx.nviol
        shards = []
        names = ["mesh<=2", "mesh3-family", "named", "biv<=2"]
        if not quick:
            names += ["biv3", "mesh4-sparse"]
        for name in names:
            shards += chunked(name, len(ALPHA[name]), 150, True)
        ctx.pmap(shard_mesh_ops, shards)
        if not quick:
            sh3 = [(p, lo, lo + 4096) for p in R.perms(3) for lo in range(0, 65536, 4096)]
            ctx.pmap(shard_mesh_ops_all3, sh3)
        ctx.bounds["mesh_ops"] = {"patterns": {n: len(ALPHA[n]) for n in names},
                                  "ops": [o[0] for o in MESH_OPS],
                                  "extra": None if quick else "all 6*2^16 mesh patterns of length 3 with ops %s" % [o[0] for o in MESH_OPS_CORE]}
        ctx.section("mesh_ops", evaluations=ctx.evals - e0, violations=ctx.nviol - v0)

    if want("group"):
        e0, v0 = ctx.evals, ctx.nviol
        shards = []
        for n in range(0, (6 if quick else 7) + 1):
            total = math.factorial(n)
            shards += [("perm", n, lo, min(total, lo + 120)) for lo in range(0, total, 120)]
        gnames = ["mesh<=2", "named"] + (["mesh3-family"] if not quick else [])
        for name in gnames:
            shards += [("mesh",) + c for c in chunked(name, len(ALPHA[name]), 60)]
        ctx.pmap(shard_group, shards)
        shards = []
        for n in range(0, (5 if quick else 6) + 1):
            total = math.factorial(n)
            shards += [("perm", n, lo, min(total, lo + 24)) for lo in range(0, total, 24)]
        shards += [("mesh",) + c for c in chunked("small", len(ALPHA["small"]), 12)]
        ctx.pmap(shard_rot_add, shards)
        ctx.bounds["group"] = {
            "table": "all ordered pairs of %d Perm operations on all perms of length <= %d; of %d "
                     "MeshPatt operations on %s" % (len(ELEMS_PERM), 6 if quick else 7, len(ELEMS_MESH), gnames),
            "rot_add": "j, k in -9..9 on all perms of length <= %d and on %d small mesh patterns"
                       % (5 if quick else 6, len(ALPHA["small"]))}
        ctx.section("group", evaluations=ctx.evals - e0, violations=ctx.nviol - v0)

    if want("equiv"):
        e0, v0 = ctx.evals, ctx.nviol
        plan = [(n, 4) for n in range(0, 7)] if quick else \
            [(n, 5) for n in range(0, 8)] + [(8, 3)]
        ctx.bounds["contains_called_on_all_images_up_to_text_len"] = CONTAINS_MAXN
        shards = []
        for n, maxk in plan:
            total = math.factorial(n)
            per = 60 if n <= 6 else (90 if n == 7 else 630)
            shards += [(n, lo, min(total, lo + per), maxk) for lo in range(0, total, per)]
        ctx.pmap(shard_equiv, shards)
        ctx.bounds["equiv"] = [{"text_len": n, "max_patt_len": min(n, k), "symmetries": 7,
                                "object states": ["fresh", "used"]} for n, k in plan]
        ctx.section("equiv", evaluations=ctx.evals - e0, violations=ctx.nviol - v0)

    if want("mesh_equiv"):
        e0, v0 = ctx.evals, ctx.nviol
        plan = [("mesh<=2", 5), ("named", 5), ("biv<=2", 5), ("mesh3-family", 3)] if quick else \
            [("mesh<=2", 6), ("named", 6), ("biv<=2", 6), ("mesh3-family", 5), ("biv3", 5),
             ("mesh3-3cells", 4), ("mesh4-1cell", 5)]
        for _, maxn in plan:
            for n in range(0, maxn + 1):
                _texts(n)
        shards = []
        for name, maxn in plan:
            per = 12 if maxn <= 5 else 6
            shards += chunked(name, len(ALPHA[name]), per, maxn)
        ctx.pmap(shard_mesh_equiv, shards)
        ctx.bounds["mesh_equiv"] = [{"patterns": name, "count": len(ALPHA[name]),
                                     "texts": "all of length 0..%d" % maxn, "symmetries": 7,
                                     "object states": ["fresh", "used"]}
                                    for name, maxn in plan]
        ctx.section("mesh_equiv", evaluations=ctx.evals - e0, violations=ctx.nviol - v0)

    if want("all_syms"):
        e0, v0 = ctx.evals, ctx.nviol
        shards = []
        for n in range(0, (7 if quick else 8) + 1):
            total = math.factorial(n)
            shards += [("perm", n, lo, min(total, lo + 720)) for lo in range(0, total, 720)]
        names = ["mesh<=2", "mesh3-family", "named", "biv<=2"] + ([] if quick else ["biv3", "mesh4-sparse", "mesh3-3cells"])
        for name in names:
            shards += [("mesh",) + c for c in chunked(name, len(ALPHA[name]), 150)]
        ctx.pmap(shard_all_syms, shards)
        ctx.bounds["all_syms"] = {"perms": "all of length 0..%d" % (7 if quick else 8),
                                  "mesh": {n: len(ALPHA[n]) for n in names}}
        ctx.section("all_syms", evaluations=ctx.evals - e0, violations=ctx.nviol - v0)

    if want("sets"):
        e0, v0 = ctx.evals, ctx.nviol
        POOLS["sets<=3 of S<=4"] = [()] + set_pool(4, 3)
        plan = [("sets<=3 of S<=4", FORMS if not quick else ["list", "set", "dup"])]
        POOLS["sets<=2 of S<=4"] = [()] + set_pool(4, 2)
        if quick:
            plan.append(("sets<=2 of S<=4", [f for f in FORMS if f not in ("list", "set", "dup")]))
        else:
            POOLS["sets of 4 of S<=4"] = set_pool(4, 4, 4)
            POOLS["sets<=2 of S<=5 with an element of length 5"] = \
                [b for b in set_pool(5, 2) if any(len(p) == 5 for p in b)]
            s4 = [p for n in range(0, 5) for p in R.perms(n)]
            POOLS["{p} and {p, q}: |p| = 6, |q| <= 4"] = \
                [(p,) for p in R.perms(6)] + [(q, p) for p in R.perms(6) for q in s4]
            plan += [("sets of 4 of S<=4", ["list", "set"]),
                     ("sets<=2 of S<=5 with an element of length 5", ["list", "iter"]),
                     ("{p} and {p, q}: |p| = 6, |q| <= 4", ["list"])]
        shards = []
        for name, forms in plan:
            shards += chunked(name, len(POOLS[name]), 100 if quick else 400, forms)
        ctx.pmap(shard_sets, shards)
        ctx.pmap(shard_chain, chunked("sets<=2 of S<=4", len(POOLS["sets<=2 of S<=4"]), 20))
        ctx.bounds["chain"] = ("helper2(helper1(x)) for all 49 ordered pairs of the *_set helpers, x = "
                               "every set of <= 2 perms of S<=4 given as %s" % CHAIN_FORMS)
        ctx.bounds["fresh"] = ("every set returned by all_symmetry_sets is emptied and given a foreign "
                               "member after it was checked; the call is repeated (equal new argument; "
                               "for lists also the same argument object) and checked again; all_syms "
                               "likewise if it ever returns a list/set")
        ctx.bounds["sets"] = [{"sets": name, "count": len(POOLS[name]), "container kinds": forms}
                              for name, forms in plan]
        ctx.section("sets", evaluations=ctx.evals - e0, violations=ctx.nviol - v0)

    if want("scale"):
        e0, v0 = ctx.evals, ctx.nviol
        sizes = sorted(X.SCALE_SIZES_QUICK + ([] if quick else X.SCALE_SIZES_MORE))
        eq_sizes = [n for n in sizes if n <= (12 if quick else 34)]
        # plus the thresholds the code under test names itself (literals, recursion limit): the
        # operations (perm_ops, mesh_ops, all_syms) on the long shapes also at those sizes
        from ..thresholds import code_constants, sizes_around
        from ..core import REPO
        named = code_constants(REPO)
        extra = [n for n in sizes_around(named, 13, 1100 if quick else 10100) if n not in sizes]
        if quick:       # above 300 only c and c+1 for a named constant c
            extra = [n for n in extra if n <= 300 or n in named or n - 1 in named]
        ctx.bounds["scale_named_thresholds"] = {"constants_in_code": named, "extra_sizes_for_ops": extra}
        op_sizes = sorted(sizes + extra, reverse=True)
        ctx.pmap(shard_scale_ops, [(n,) for n in op_sizes])
        shards = []
        for n in op_sizes:
            shards += chunked(n, len(scale_mesh_specs(n)), 60)
        ctx.pmap(shard_scale_mesh, shards)
        shards = []
        for n in sizes:
            shards += chunked(n, len(X.scale_bases(n)), 40 if n <= 34 else 12)
        ctx.pmap(shard_scale_sets, shards)
        ctx.pmap(shard_scale_equiv, [(n,) for n in eq_sizes])
        ctx.bounds["scale"] = {
            "lengths": sizes,
            "long shapes": [name for name, _ in X.long_shapes(12)],
            "perm_ops / all_syms": "every long shape x %d operations (used state up to length 34)" % len(PERM_OPS),
            "mesh_ops / all_syms": "every long shape x shadings of <= 2 of 7 corner/edge/middle cells x %d operations" % len(MESH_OPS_CORE),
            "sets": "long shape alone; + every 1- or 2-subset of %d short perms (lengths 1..4; of %d "
                    "short perms for lengths > 12); + one perm of each length 1..5; given as %s"
                    % (len(X.SHORT_POOL), len(X.SHORT_POOL_SMALL), SCALE_FORMS),
            "equiv": "all patterns of length <= 3 in every long shape of length %s, 8 symmetries, fresh and used" % eq_sizes,
        }
        ctx.section("scale", evaluations=ctx.evals - e0, violations=ctx.nviol - v0)

    if want("long_mesh_equiv"):
        e0, v0 = ctx.evals, ctx.nviol
        from ..thresholds import code_constants, sizes_around
        from ..core import REPO
        named = code_constants(REPO)
        cap = 600 if quick else 1100
        base_sizes = [8, 9, 12, 33, 34, 257, 258]
        lsizes = sorted(set(base_sizes + sizes_around(named, 8, cap)))
        if quick:       # above 300 only c and c+1 for a named constant c
            lsizes = [n for n in lsizes if n <= 300 or n in named or n - 1 in named]
        maxlen = 4 if quick else 5          # skeleton length for texts up to 110; 4 above
        for ml in {4, maxlen}:
            for k, v in long_mesh_families(ml).items():
                SKELETONS["%s, skeletons <= %d" % (k, ml)] = v
        if not quick:   # above 600 only c and c+1 for a named constant c
            lsizes = [n for n in lsizes if n <= 600 or n in named or n - 1 in named]

        def family_for(n):
            if n <= 40:
                return "full, skeletons <= %d" % maxlen
            if n <= 110:
                return "medium, skeletons <= %d" % maxlen
            if quick or n > 600:
                return "thinner, skeletons <= 4"
            return "thin, skeletons <= 4"
        shards = []
        for n in sorted(lsizes, reverse=True):       # the long ones first (load balance)
            name = family_for(n)
            total = len(SKELETONS[name])
            per = 1 if n > 300 else (2 if n > 110 else (8 if n > 40 else 24))
            shards += [(n, name, lo, min(total, lo + per)) for lo in range(0, total, per)]
        ctx.pmap(shard_long_mesh, shards)
        ctx.bounds["long_mesh_equiv"] = {
            "constants_in_code": named, "cap": cap,
            "text_lengths": {n: family_for(n) for n in lsizes},
            "skeletons": "(pattern of length 3, skeleton of length 4 (5) containing it, point, run "
                         "direction) with the run a pure bystander",
            "families": {k: len(v) for k, v in SKELETONS.items()},
            "family rules": long_mesh_families.__doc__,
            "symmetries": 8}
        ctx.section("long_mesh_equiv", evaluations=ctx.evals - e0, violations=ctx.nviol - v0)

    if want("abort"):
        e0, v0 = ctx.evals, ctx.nviol
        nf = len(abort_families())
        pts = ctx.pmap(shard_abort, [(i, 64) for i in range(64)])
        ctx.bounds["abort"] = {
            "operations cut off": nf,
            "injection points (every call event inside permuta, 1..total)": sum(pts),
            "families": "%d Perm ops and all_syms on %d perms (fresh and used), %d MeshPatt ops and "
                        "all_syms on %d mesh patterns (fresh and used), one search per object, %d "
                        "permutils.symmetry functions on %d sets (list and generator), `lexmin`"
                        % (len(ABORT_OPS_PERM), len(ABORT_PERMS), len(ABORT_OPS_MESH),
                           len(abort_mesh_specs()), len(ABORT_SET_FUNCS), len(ABORT_SETS)),
            "read-back": "same objects and fresh equal objects: 8 images, all_syms, searches in %d texts "
                         "and of the 7 moved images in the images of the texts; sets: all functions, lexmin, the "
                         "objects cached by Perm.to_standard; guarded by a 20 s alarm" % len(ABORT_TEXTS)}
        ctx.section("abort", evaluations=ctx.evals - e0, violations=ctx.nviol - v0,
                    injection_points=sum(pts))

    if want("cli"):
        e0, v0 = ctx.evals, ctx.nviol
        # pools without the empty permutation (it cannot be spelled) and without the empty set
        def nonempty(maxlen, maxsize):
            return [b for b in set_pool(maxlen, maxsize) if all(len(p) > 0 for p in b)]
        allv = [(base, sep, rev, via, False) for base in (0, 1) for sep in SEPS
                for rev in (False, True) for via in VIAS] + \
               [(base, "_", rev, via, True) for base in (0, 1) for rev in (False, True) for via in VIAS]
        fewv = [(0, "_", False, "main", False), (1, ", ", True, "main", False),
                (1, ":", False, "parser", False), (0, " ", True, "func", False),
                (0, "_", False, "main", True), (1, ":", True, "func", True)]
        POOLS["cli<=2 of S1..4"] = nonempty(4, 2)
        mainv = [v for v in allv if v[3] == "main"]
        ctx.bounds["cli forms"] = ("0-based and 1-based spellings; separators %s; both listing "
                                   "orders; a repeated permutation; entry points %s" % (SEPS, VIAS))
        plan = [("cli<=2 of S1..4", fewv if quick else mainv, SYMS)]
        POOLS["cli<=3 of S1..3"] = nonempty(3, 3)
        plan.append(("cli<=3 of S1..3", allv, ["id", "antidiagonal"] if quick else SYMS))
        if not quick:
            POOLS["cli 3 of S1..4"] = [b for b in nonempty(4, 3) if len(b) == 3]
            plan.append(("cli 3 of S1..4", fewv, ["id", "complement", "rot90", "antidiagonal"]))
        shards = []
        for name, variants, syms in plan:
            shards += chunked(name, len(POOLS[name]), 10 if len(variants) > 6 else 30, variants, syms)
        ctx.pmap(shard_cli, shards)
        ctx.bounds["cli"] = [{"bases": name, "count": len(POOLS[name]), "spellings": len(v),
                              "symmetric images spelled": list(sy)} for name, v, sy in plan]
        ctx.section("cli", evaluations=ctx.evals - e0, violations=ctx.nviol - v0)

    # a few concrete cases for the evidence file (seed chooses which)
    p = R.perms(5)[(17 + 7 * ctx.seed) % 120]
    ctx.sample({"perm": p, "images": {s: R.apply_sym(s, p) for s in SYMS}})
    spec = ALPHA["mesh<=2"][(700 + 13 * ctx.seed) % len(ALPHA["mesh<=2"])]
    st = spec_struct(spec)
    ctx.sample({"mesh": show_struct(st),
                "images": {s: show_struct(R.apply_sym_mesh(s, st[0], st[1])) for s in SYMS}})
    B = ((0, 2, 1), (1, 2, 3, 0))
    ctx.sample({"basis": B, "orbit of the set": sorted(X.orbit_sets(B)), "lex_min": X.lex_min(B)})


# --------------------------------------------------------------------------------------------

CASE_FUNCS = {
    "perm_ops": case_perm_op, "perm_ops_state": case_perm_op,
    "mesh_ops": case_mesh_op, "mesh_ops_state": case_mesh_op,
    "group": case_group, "rot_add": case_rot_add,
    "equiv": case_equiv, "equiv_state": case_equiv,
    "mesh_equiv": case_mesh_equiv, "mesh_equiv_state": case_mesh_equiv,
    "all_syms": case_all_syms, "sets": case_sets, "cli": case_cli, "chain": case_chain,
    "abort": case_abort, "long_mesh_equiv": case_long_mesh, "long_mesh_equiv_state": case_long_mesh,
}


def replay(ctx, rec):
    sub = rec["sub"]
    if sub not in CASE_FUNCS:
        raise ValueError("unknown sub-check %r" % sub)
    case = rec["case"]
    CASE_FUNCS[sub](ctx, case)
