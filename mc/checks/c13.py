"""C13 - finiteness, polynomial growth and insertion-encodability verdicts.

E1 (bounded exhaustive inputs, all against mc/ref_c13.py):
  types     every permutation p of length <= L inside a *probe context* Q_X for each of the ten
            (polynomial), four (rightmost) and four (topmost) structural classes X, so that the
            verdict is True  <=>  p in X: every per-permutation type test is observed on its own.
  bases     all of Bases(3,4) + the empty basis + bases containing the empty permutation:
            every order, every sequence with one repeated element, 7 container kinds
            (list, tuple, generator, iter(list), set, frozenset, Basis), 6 functions; Av methods.
  pairs     all bases of <= 2 permutations of length <= 5 (thorough: 6) as list and iterator.
  subsets   every subset (any size) of a small pool, in both orders.
  related   bases {p, r(p)} + completion for every p of length <= 5 (thorough 7), every related
            element r(p) (7 symmetries, one-point deletions) and every class X, the completion chosen
            by the reference so that the verdict hinges on the pair: catches a per-call shortcut
            that derives the answer for one element from a related element of the same call.
  scale     long basis elements (length 10..12, 33, 34, 257; thorough more) with every small descent
            set over probe positions at the ends and at the 8- / 32-slot set-table boundaries, three
            shapes x eight symmetries, each inside the reference's minimal completion for each of
            the 18 classes, so that the verdict is exactly the membership of the long element.
  forms     the same basis in every further argument form (map, reversed, chain, dict views, deque,
            keyword argument), under every public name (PolyPerms.*, InsertionEncodablePerms.*),
            through every way of building Av (iterators, from_iterable, from_string 0/1-based),
            and with the library's own generators (Perm.of_length, Av.of_length, ...) as the basis.
  abort     fault injection, bound 1: a BaseException at every call event inside one operation
            (from fresh and warm memo tables), then every verdict on the same and the related bases
            is read back on the same and on fresh objects.
  enum      implementation verdicts against the real counting sequence (reference levels to N).
  symmetry  the eight symmetries (reference point maps) on the implementation's verdict table.
  cli       permtools `poly` / `insenc` through the real argument parser (stdout captured), and a
            few through a genuinely fresh interpreter.
E2 (history BFS): state = contents of the process-wide memo tables (+ every other mutable
  module/class level container of the three modules + the Av class cache keys); operations =
  {finite, poly, nonpoly, insenc, rightmost, maximum} x {list, iterator} + the three Av methods,
  on families of six bases that share permutations / are rotations of each other.  Every verdict
  must equal the reference whatever was memoised before.  A slice of the histories is re-run in a
  fresh interpreter and must give identical observations.
"""
from __future__ import annotations

import collections
import contextlib
import copy
import enum
import io
import itertools
import json
import os
import subprocess
import sys

from .. import ref_c13 as F
from .. import refmodel as R
from ..core import REPO, VERIF, Partial
from ..explore import bfs

PROPERTY = "C13"
LEVEL = "model_checking"

FUNCS = ["finite", "poly", "nonpoly", "insenc", "right", "top"]
SEED = 0              # rotates the order of the calls inside the E1 loops, never the set of calls


def rot(seq):
    seq = list(seq)
    k = SEED % len(seq) if seq else 0
    return seq[k:] + seq[:k]

ORDERED = ["list", "tuple", "gen", "iter"]
UNORDERED = ["set", "frozenset", "Basis"]
MODS = ["permuta.permutils.finite", "permuta.permutils.polynomial",
        "permuta.permutils.insertion_encodable"]


# --------------------------------------------------------------------------------------------
# calling the implementation
# --------------------------------------------------------------------------------------------

def _lib():
    import permuta
    import permuta.permutils as pu
    import permuta.permutils.finite  # noqa
    from permuta import Av, Basis, Perm
    return {
        "Perm": Perm, "Av": Av, "Basis": Basis,
        "finite": pu.is_finite, "poly": pu.is_polynomial, "nonpoly": pu.is_non_polynomial,
        "insenc": pu.is_insertion_encodable, "right": pu.is_insertion_encodable_rightmost,
        "top": pu.is_insertion_encodable_maximum,
        # the same functionality under its other public names
        "cls:finite": permuta.permutils.finite.is_finite,
        "cls:poly": pu.PolyPerms.is_polynomial, "cls:nonpoly": pu.PolyPerms.is_non_polynomial,
        "cls:insenc": pu.InsertionEncodablePerms.is_insertion_encodable,
        "cls:right": pu.InsertionEncodablePerms.is_insertion_encodable_rightmost,
        "cls:top": pu.InsertionEncodablePerms.is_insertion_encodable_maximum,
    }


_LIB = None
_PERM = {}


def lib():
    global _LIB
    if _LIB is None:
        _LIB = _lib()
    return _LIB


def perm_obj(p):
    o = _PERM.get(p)
    if o is None:
        o = _PERM[p] = lib()["Perm"](p)
    return o


def container(kind, ps):
    if kind == "list":
        return list(ps)
    if kind == "tuple":
        return tuple(ps)
    if kind == "gen":
        return (x for x in ps)
    if kind == "iter":
        return iter(list(ps))
    if kind == "set":
        return set(ps)
    if kind == "frozenset":
        return frozenset(ps)
    if kind == "Basis":
        return lib()["Basis"](*ps)
    if kind == "map":
        return map(lambda x: x, list(ps))
    if kind == "reversed":
        return reversed(list(ps)[::-1])
    if kind == "chain":
        ps = list(ps)
        return itertools.chain(ps[:1], iter(ps[1:]))
    if kind == "dictkeys":
        return dict.fromkeys(ps).keys()
    if kind == "dictvalues":
        return dict(enumerate(ps)).values()
    if kind == "deque":
        return collections.deque(ps)
    raise ValueError(kind)


def expected(fn, v):
    """v = (finite, poly, right, top) from the reference."""
    fn = fn.split(":")[-1]
    return {"finite": v[0], "poly": v[1], "nonpoly": not v[1], "insenc": v[2] or v[3],
            "right": v[2], "top": v[3],
            "av_finite": v[0], "av_poly": v[1], "av_insenc": v[2] or v[3]}[fn]


def call(fn, kind, ps):
    """One call on the real code with a fresh container; the answer, or a description of the
    exception (README rule 6)."""
    L = lib()
    try:
        if fn.startswith("av_"):
            if kind == "from_iterable":
                av = L["Av"].from_iterable(x for x in ps)
            elif kind in ("from_string0", "from_string1"):
                av = L["Av"].from_string(basis_string(ps, int(kind[-1])))
            elif kind == "Basis.from_string":
                av = L["Av"](L["Basis"].from_string(basis_string(ps, 1)))
            elif kind == "kw":
                av = L["Av"](basis=list(ps))
            else:
                av = L["Av"](container(kind, ps))
            got = {"av_finite": av.is_finite, "av_poly": av.is_polynomial,
                   "av_insenc": av.is_insertion_encodable}[fn]()
        elif kind == "kw":
            got = L[fn.split(":")[-1]](basis=list(ps))
        elif fn.startswith("cls:"):
            got = L[fn](container(kind, ps))
        else:
            got = L[fn](container(kind, ps))
    except Exception as exc:  # noqa
        return "exception: %r" % (exc,)
    return got


def differs(got, exp):
    """The answer is compared by truth value; an exception (reported as a string) always differs."""
    return isinstance(got, str) or bool(got) != bool(exp)


def check_call(part, sub, fn, kind, seq, exp_v, extra=None):
    got = call(fn, kind, [perm_obj(p) for p in seq])
    exp = expected(fn, exp_v)
    if differs(got, exp):
        case = {"seq": [list(p) for p in seq], "container": kind, "fn": fn}
        if extra:
            case.update(extra)
        part.violation(sub, case, {"expected": exp, "got": got})
        return False
    return True


def impl_verdicts(basis):
    """(finite, poly, right, top) as answered by the implementation for list(sorted basis)."""
    ps = [perm_obj(p) for p in basis]
    out = []
    for fn in ("finite", "poly", "right", "top"):
        got = call(fn, "list", ps)
        out.append(got if isinstance(got, str) else bool(got))
    return tuple(out)


# --------------------------------------------------------------------------------------------
# E1: types (probe contexts)
# --------------------------------------------------------------------------------------------

CONTEXTS = None       # built before pmap
KIND_FN = {"poly": "poly", "right": "right", "top": "top"}


def check_type_case(part, p, kind, X, pos):
    Q = CONTEXTS[kind][X]
    seq = (list(Q) + [p]) if pos == "last" else ([p] + list(Q))
    member = bool(F.types_cached(p) & F.BIT[X])
    # verdict vector of the whole sequence, but only the observed function is compared
    fn = KIND_FN[kind]
    got = call(fn, "list", [perm_obj(q) for q in seq])
    ok = not differs(got, member)
    if ok and kind == "poly":
        got2 = call("nonpoly", "iter", [perm_obj(q) for q in seq])
        if differs(got2, not member):
            ok, got, fn = False, got2, "nonpoly"
    if not ok:
        part.violation("types", {"perm": list(p), "class": X, "kind": kind, "pos": pos},
                       {"fn": fn, "context": Q, "perm_in_class": member, "got": got,
                        "expected": member if fn != "nonpoly" else (not member)})


def shard_types(shard):
    n, lo, hi = shard
    part = Partial()
    for p in R.perms(n)[lo:hi]:
        for kind in ("poly", "right", "top"):
            for X in CONTEXTS[kind]:
                for pos in ("last", "first"):
                    check_type_case(part, p, kind, X, pos)
                    part.add(1, 0)
                part.add(0, 1 if n >= 3 else 0)
    if hi > lo and n >= 5 and lo == 0:
        p = R.perms(n)[hi - 1]
        part.sample({"sub": "types", "perm": p, "classes": [c for c in F.CLASSES
                                                            if F.types_cached(p) & F.BIT[c]]}, cap=1)
    return part


# --------------------------------------------------------------------------------------------
# E1: bases / pairs / subsets
# --------------------------------------------------------------------------------------------

BASES = None          # list of sorted tuples of tuples, built before pmap


def hinge(S, v):
    """Some single element is needed for some positive verdict."""
    if len(S) < 2:
        return False
    for i in range(len(S)):
        w = F.verdicts(S[:i] + S[i + 1:])
        if w != v:
            return True
    return False


def check_base_full(part, S):
    """Every sequence x container x function for one base set."""
    v = F.verdicts(S)
    n = 0
    for seq in F.sequences(S):
        for kind in rot(ORDERED):
            for fn in rot(FUNCS):
                check_call(part, "bases", fn, kind, seq, v)
                n += 1
    for seq in itertools.permutations(S):
        for kind in UNORDERED:
            for fn in rot(FUNCS):
                check_call(part, "bases", fn, kind, seq, v)
                n += 1
    # the class-level wrappers (Av rejects the empty basis and the empty permutation: C02)
    if S and all(len(p) >= 1 for p in S):
        orders = [tuple(S), tuple(reversed(S))] if len(S) > 1 else [tuple(S)]
        for seq in orders:
            for kind in ("list", "tuple", "set", "Basis"):
                for fn in ("av_finite", "av_poly", "av_insenc"):
                    check_call(part, "av", fn, kind, seq, v)
                    n += 1
    part.add(n, 1 if hinge(S, v) else 0)
    part.outcomes.add(v)


def shard_bases(shard):
    lo, hi = shard
    part = Partial()
    for S in BASES[lo:hi]:
        check_base_full(part, S)
    if hi > lo and lo % 4000 == 0:
        S = BASES[hi - 1]
        part.sample({"sub": "bases", "basis": S, "reference (finite, poly, right, top)": F.verdicts(S),
                     "sequences": len(F.sequences(S))}, cap=1)
    return part


PAIRPOOL = None


def shard_pairs(shard):
    """First element index range [lo, hi): the singleton and all pairs with a later element."""
    lo, hi = shard
    part = Partial()
    pool = PAIRPOOL
    for i in range(lo, hi):
        a = pool[i]
        cands = [(a,)] + [(a, pool[j]) for j in range(i + 1, len(pool))]
        for S in cands:
            v = F.verdicts(S)
            n = 0
            for seq, kind in ((S, "list"), (S[::-1], "iter")):
                for fn in rot(FUNCS):
                    check_call(part, "pairs", fn, kind, seq, v)
                    n += 1
            part.add(n, 1 if hinge(S, v) else 0)
    return part


SUBPOOL = None


def shard_subsets(shard):
    size, lo, hi = shard
    part = Partial()
    combos = list(itertools.combinations(SUBPOOL, size))[lo:hi]
    for S in combos:
        v = F.verdicts(S)
        n = 0
        for seq, kind in ((S, "list"), (S[::-1], "gen")):
            for fn in rot(FUNCS):
                check_call(part, "subsets", fn, kind, seq, v)
                n += 1
        part.add(n, 1 if (len(S) >= 4 and hinge(S, v)) else 0)
    return part


# --------------------------------------------------------------------------------------------
# E1: related elements in one call  ({p, r(p)} + completion)
# --------------------------------------------------------------------------------------------

RELKIND_FN = {"poly": ("poly", "nonpoly"), "right": ("right",), "top": ("top",)}
AXIS_SWAP = {"right": "top", "top": "right", "poly": "poly", "finite": "finite", "insenc": "insenc"}


def related_cases(p):
    """Every basis of the family for one permutation p: (info, sequence, [(fn, container)]).
    For every related element q of p (seven symmetries, one-point deletions), every universe
    (ten polynomial classes, four rightmost, four topmost) and every class X of it: the pair plus
    the minimal completion and plus the whole probe context of X (both avoid X and meet everything
    the pair does not), in six arrangements; additionally the images of the first arrangement
    under the seven symmetries of the whole basis.  Finiteness: the pair plus one monotone
    permutation of the other direction."""
    for rel, q in F.related(p):
        T = F.types_cached(p) | F.types_cached(q)
        for kind in ("poly", "right", "top"):
            for X in CONTEXTS[kind]:
                comps = [("min", F.completion(kind, X, T))]
                if list(CONTEXTS[kind][X]) != list(comps[0][1]):
                    comps.append(("full", list(CONTEXTS[kind][X])))
                for cname, C in comps:
                    for ai, seq in enumerate(F.arrangements(p, q, C)):
                        calls = [(fn, "list" if (ai + fi) % 2 == 0 else "gen")
                                 for fi, fn in enumerate(RELKIND_FN[kind])]
                        if kind != "poly":
                            calls.append(("insenc", "list"))
                        if ai == 0 and all(len(x) for x in seq):
                            calls.append(({"poly": "av_poly"}.get(kind, "av_insenc"), "list"))
                        yield {"p": p, "rel": rel, "kind": kind, "class": X, "completion": cname,
                               "arrangement": ai}, seq, calls
                    base = F.arrangements(p, q, C)[0]
                    for s in R.SYMS:
                        if s == "id":
                            continue
                        seq = [R.apply_sym(s, x) for x in base]
                        fn = RELKIND_FN[kind][0]
                        if s not in AXIS_KEEPING:
                            fn = AXIS_SWAP[fn]
                        yield {"p": p, "rel": rel, "kind": kind, "class": X, "completion": cname,
                               "arrangement": 0, "image_under": s}, seq, [(fn, "list")]
        for mono in ((0, 1, 2), (2, 1, 0), (0, 1), (1, 0)):
            for ai, seq in enumerate(F.arrangements(p, q, [mono])):
                yield {"p": p, "rel": rel, "kind": "finite", "class": "other monotone than %r" % (mono,),
                       "completion": "min", "arrangement": ai}, seq, [("finite", "list" if ai % 2 else "iter")]


def check_related(part, p):
    n = 0
    for info, seq, calls in related_cases(p):
        v = F.verdicts(seq)
        for fn, kind in calls:
            check_call(part, "related", fn, kind, seq, v, extra={"family": info})
            n += 1
    nrel = len(F.related(p))
    part.add(n, nrel * 18 if len(p) >= 3 else 0)


def shard_related(shard):
    n, lo, hi = shard
    part = Partial()
    for p in R.perms(n)[lo:hi]:
        check_related(part, p)
    if hi > lo and lo == 0 and n >= 4:
        p = R.perms(n)[hi - 1]
        info, seq, calls = next(iter(related_cases(p)))
        part.sample({"sub": "related", "family": info, "sequence": seq,
                     "reference (finite, poly, right, top)": F.verdicts(seq)}, cap=1)
    return part


# --------------------------------------------------------------------------------------------
# E1: consistency with enumeration
# --------------------------------------------------------------------------------------------

PROFILES = None


def check_enum(part, S, counts, N):
    """Implementation verdicts vs the counting sequence counts[0..N] of Av(S)."""
    iv = impl_verdicts(S)
    fin, pol = iv[0], iv[1]
    nontriv = 0
    if fin is True:
        b = F.es_bound(S)
        # b is None: declared finite without an increasing or without a decreasing element; the
        # class then has a monotone member of every length, so the very first level refutes it
        for n in range(0 if b is None else b + 1, N + 1):
            if counts[n] != 0:
                part.violation("enum", {"basis": S, "which": "finite=>empty beyond bound", "n": n},
                               {"is_finite": fin, "erdos_szekeres_bound": b, "count": counts[n]})
                break
        if b is not None and b < N and any(counts[1:b + 1]):
            nontriv = 1
    elif fin is False:
        for n in range(0, N + 1):
            if counts[n] == 0:
                part.violation("enum", {"basis": S, "which": "infinite=>never empty", "n": n},
                               {"is_finite": fin, "count": 0})
                break
    else:
        part.violation("enum", {"basis": S, "which": "is_finite raised", "n": 0}, {"got": fin})
    if pol is False:
        for n in range(0, N + 1):
            if counts[n] < F.fib(n):
                part.violation("enum", {"basis": S, "which": "non-polynomial=>count>=Fibonacci", "n": n},
                               {"is_polynomial": pol, "count": counts[n], "fibonacci": F.fib(n)})
                break
        if counts[N] < _fact(N):
            nontriv = 1
    elif pol is not True:
        part.violation("enum", {"basis": S, "which": "is_polynomial raised", "n": 0}, {"got": pol})
    # finite => polynomial => both insertion encodings (inclusions of the structure theorems)
    if (fin is True and pol is not True) or (pol is True and not (iv[2] is True and iv[3] is True)):
        part.violation("enum", {"basis": S, "which": "finite=>polynomial=>insertion encodable", "n": 0},
                       {"verdicts (finite, poly, right, top)": iv})
    part.add(N + 1, nontriv)


def _fact(n):
    import math
    return math.factorial(n)


def shard_enum(shard):
    lo, hi, N = shard
    part = Partial()
    for S in BASES[lo:hi]:
        if not S or any(len(p) == 0 for p in S):
            continue
        counts = [PROFILES.count(S, n) for n in range(N + 1)]
        check_enum(part, S, counts, N)
    if hi > lo and BASES[hi - 1] and lo % 3000 == 0:
        S = BASES[hi - 1]
        if all(len(p) for p in S):
            part.sample({"sub": "enum", "basis": S, "counts": [PROFILES.count(S, n) for n in range(N + 1)],
                         "impl (finite, poly, right, top)": impl_verdicts(S)}, cap=1)
    return part


# --------------------------------------------------------------------------------------------
# E1: symmetry
# --------------------------------------------------------------------------------------------

AXIS_KEEPING = ("id", "reverse", "complement", "rot180")


def sym_relation_ok(name, vs, vt):
    """vs, vt = implementation verdicts (finite, poly, right, top) of S and of sym(S)."""
    if vs[0] != vt[0] or vs[1] != vt[1]:
        return False
    if name in AXIS_KEEPING:
        return vs[2] == vt[2] and vs[3] == vt[3]
    return vs[2] == vt[3] and vs[3] == vt[2]


def run_symmetry(ctx):
    table = {}
    for S in BASES:
        table[S] = impl_verdicts(S)
    for S in BASES:
        vs = table[S]
        moved = 0
        for name in R.SYMS:
            if name == "id":
                continue
            T = tuple(sorted(R.apply_sym(name, p) for p in S))
            vt = table.get(T)
            if vt is None:
                vt = impl_verdicts(T)
            if T != S:
                moved = 1
            if not sym_relation_ok(name, vs, vt):
                ctx.violation("symmetry", {"basis": S, "sym": name},
                              {"image": T, "verdicts (finite, poly, right, top)": vs,
                               "verdicts of image": vt})
        ctx.add(7, moved)


# --------------------------------------------------------------------------------------------
# CLI
# --------------------------------------------------------------------------------------------

def basis_string(S, style):
    if style == 0:
        return "_".join("".join(str(v) for v in p) for p in S)          # 0-based
    return ":".join("".join(str(v + 1) for v in p) for p in S)          # 1-based


def parse_cli(cmd, out):
    """What the output says: for poly True/False; for insenc the set of {'T','R','N'}."""
    lines = [ln.strip() for ln in out.splitlines() if ln.strip()]
    if cmd == "poly":
        if len(lines) != 1:
            return None
        if lines[0].endswith("is not polynomial"):
            return False
        if lines[0].endswith("is polynomial"):
            return True
        return None
    flags = []
    for ln in lines:
        if "does not have" in ln:
            flags.append("N")
        elif "topmost" in ln:
            flags.append("T")
        elif "rightmost" in ln:
            flags.append("R")
        else:
            return None
    if len(set(flags)) != len(flags):
        return None
    return "".join(sorted(flags))


def cli_expected(cmd, v):
    if cmd == "poly":
        return v[1]
    s = ("R" if v[2] else "") + ("T" if v[3] else "")
    return s or "N"


def cli_inprocess(cmd, arg):
    import permuta.cli as cli
    buf = io.StringIO()
    try:
        with contextlib.redirect_stdout(buf):
            args = cli.get_parser().parse_args([cmd, arg])
            args.func(args)
    except BaseException as exc:  # noqa  (argparse exits with SystemExit)
        return "exception: %r" % (exc,)
    return buf.getvalue()


def cli_fresh(cmd, arg):
    code = ("import sys; sys.path.insert(0, %r); sys.argv = ['permtools', %r, %r]; "
            "from permuta.cli import main; main()" % (REPO, cmd, arg))
    res = subprocess.run([sys.executable, "-B", "-c", code], capture_output=True, text=True,
                         timeout=1800, cwd=VERIF)
    if res.returncode != 0:
        return "exception: exit %d: %s" % (res.returncode, res.stderr[-400:])
    return res.stdout


def check_cli(part, sub, S, cmd, style):
    arg = basis_string(S, style)
    out = cli_inprocess(cmd, arg) if sub == "cli" else cli_fresh(cmd, arg)
    said = parse_cli(cmd, out) if not out.startswith("exception") else None
    exp = cli_expected(cmd, F.verdicts(S))
    if said != exp or said is None:
        part.violation(sub, {"basis": S, "cmd": cmd, "style": style},
                       {"argument": arg, "output": out, "understood": said, "expected": exp})


def shard_cli(shard):
    lo, hi = shard
    part = Partial()
    for S in BASES[lo:hi]:
        if not S or any(len(p) == 0 for p in S):
            continue
        for cmd in ("poly", "insenc"):
            for style in (0, 1):
                check_cli(part, "cli", S, cmd, style)
        part.add(4, 0)
    return part


def shard_cli_fresh(shard):
    S, cmd = shard
    part = Partial()
    check_cli(part, "cli_fresh", S, cmd, 1)
    part.add(1, 0)
    return part


# --------------------------------------------------------------------------------------------
# E2: histories over the process-wide memo tables
# --------------------------------------------------------------------------------------------

def _key(k):
    return tuple(k) if isinstance(k, tuple) else repr(k)


def freeze(x):
    if isinstance(x, dict):
        try:
            return tuple(sorted([(_key(k), freeze(v)) for k, v in x.items()]))
        except TypeError:
            return tuple(sorted(((repr(k), repr(freeze(v))) for k, v in x.items())))
    if isinstance(x, (int, str, float, bool)) or x is None:
        return x
    if isinstance(x, enum.Enum):
        return x.name
    if isinstance(x, (list, tuple)):
        return tuple([freeze(v) for v in x])
    if isinstance(x, (set, frozenset)):
        return tuple(sorted([repr(freeze(v)) for v in x]))
    if isinstance(x, collections.deque):
        return ("deque",) + tuple(freeze(v) for v in x)
    return repr(x)


_SLOTS = None
_MUTABLE = (list, dict, set, collections.deque)
_SCALAR = (int, float, str, bool, bytes, tuple, frozenset, type(None))


def _slots():
    """(key, owner, attribute name) of everything in the three modules that can hold state between
    calls: mutable containers and plain values bound at module level or as class attributes, and
    lru_cache-like callables (they have cache_clear).  The names are found once, after import;
    the objects are looked up at every use (an attribute may be re-bound by the code)."""
    global _SLOTS
    if _SLOTS is None:
        lib()
        out = []
        for name in MODS:
            mod = sys.modules.get(name)
            if mod is None:
                continue
            for k, v in sorted(vars(mod).items()):
                if k.startswith("__"):
                    continue
                if isinstance(v, _MUTABLE) or isinstance(v, _SCALAR) or (
                        hasattr(v, "cache_clear") and getattr(v, "__module__", None) == name):
                    out.append(((name, k), mod, k))
                elif isinstance(v, type) and getattr(v, "__module__", None) == name \
                        and not issubclass(v, enum.Enum):
                    for ck, cv in sorted(vars(v).items()):
                        if ck.startswith("__"):
                            continue
                        raw = cv.__func__ if isinstance(cv, (staticmethod, classmethod)) else cv
                        if isinstance(cv, _MUTABLE) or isinstance(cv, _SCALAR) or hasattr(raw, "cache_clear"):
                            out.append(((name, v.__name__ + "." + ck), v, ck))
        _SLOTS = out
    return _SLOTS


def _get(owner, attr):
    v = vars(owner).get(attr)
    if isinstance(v, (staticmethod, classmethod)):
        v = v.__func__
    return v


_PRISTINE = None


def snapshot_pristine():
    """Taken once, right after import and before any call into the three modules."""
    global _PRISTINE
    if _PRISTINE is None:
        _PRISTINE = {}
        for key, owner, attr in _slots():
            v = _get(owner, attr)
            if isinstance(v, _MUTABLE):
                _PRISTINE[key] = copy.copy(v)
            elif not hasattr(v, "cache_clear"):
                _PRISTINE[key] = v


def reset_state():
    L = lib()
    for key, owner, attr in _slots():
        v = _get(owner, attr)
        if hasattr(v, "cache_clear"):
            v.cache_clear()
        elif isinstance(v, _MUTABLE) and isinstance(_PRISTINE.get(key), type(v)):
            init = _PRISTINE[key]
            v.clear()
            if init:
                (v.extend if isinstance(v, (list, collections.deque)) else v.update)(init)
        elif key in _PRISTINE and v is not _PRISTINE[key]:
            setattr(owner, attr, copy.copy(_PRISTINE[key]))
    if hasattr(L["Av"], "_CLASS_CACHE"):
        L["Av"]._CLASS_CACHE.clear()
    Perm = L["Perm"]
    if hasattr(Perm, "_to_standard") and hasattr(Perm._to_standard, "cache_clear"):
        Perm._to_standard.cache_clear()


def canonical_state():
    L = lib()
    out = []
    for key, owner, attr in _slots():
        v = _get(owner, attr)
        if hasattr(v, "cache_clear"):
            out.append((key, "lru", v.cache_info().currsize))
        else:
            out.append((key, freeze(v)))
    cc = getattr(L["Av"], "_CLASS_CACHE", {})
    out.append(("Av._CLASS_CACHE", tuple(sorted([repr(k) for k in cc]))))
    return tuple(out)


def history_menu(bases):
    menu = []
    for bi, b in enumerate(bases):
        for fn in FUNCS:
            for kind in ("list", "iter"):
                menu.append((fn, bi, kind))
        if b and all(len(p) for p in b):
            for fn in ("av_finite", "av_poly", "av_insenc"):
                menu.append((fn, bi, "list"))
    return menu


def run_history(bases, hist, reset=True):
    """Replay a history on fresh Perm objects after resetting every memo table; returns
    (observations, canonical state).  An observation is the answer of one call."""
    L = lib()
    if reset:
        reset_state()
    Perm = L["Perm"]
    obs = []
    for fn, bi, kind in hist:
        ps = [Perm(p) for p in bases[bi]]
        obs.append(call(fn, kind, ps))
    return obs, canonical_state()


class HistoryModel:
    def __init__(self, bases):
        self.bases = [tuple(tuple(p) for p in b) for b in bases]
        self.exp = [F.verdicts(b) for b in self.bases]
        self.menu = history_menu(self.bases)

    def build(self, hist):
        obs, canon = run_history(self.bases, hist)
        viols = []
        if hist:
            fn, bi, kind = hist[-1]
            exp = expected(fn, self.exp[bi])
            if differs(obs[-1], exp):
                viols.append({"op": [fn, bi, kind], "basis": self.bases[bi], "expected": exp,
                              "got": obs[-1]})
        return canon, viols


def families():
    """Families of six bases.  A: the first basis (size, lex) of Bases(3,4) with each of the six
    reference verdict vectors; B: the last one with each vector; C: one basis with its three
    rotations, its inverse and a basis sharing an element with them (so the keys `p` and
    `p.rotate()` of the bitmask table collide across bases)."""
    allb = R.bases(3, 4)
    first, last = {}, {}
    for b in allb:
        v = F.verdicts(b)
        first.setdefault(v, b)
        last[v] = b
    order = sorted(first, reverse=True)
    fam_a = [first[v] for v in order]
    fam_b = [last[v] for v in order]
    base = ((0, 2, 1), (2, 3, 0, 1))
    rots = [base]
    for _ in range(3):
        rots.append(tuple(sorted(R.apply_sym("rot90", p) for p in rots[-1])))
    fam_c = rots + [tuple(sorted(R.inverse(p) for p in base)), ((0, 2, 1), (1, 0, 2), (2, 1, 0))]
    fam_d = [((0, 1, 2), (2, 1, 0)), ((1, 0, 2), (0, 2, 1)), ((0, 2, 1), (1, 2, 0), (2, 0, 1)),
             ((2, 1, 0), (1, 0, 3, 2), (2, 0, 3, 1)), ((0, 1, 2), (1, 3, 0, 2), (2, 3, 0, 1)),
             ((), (0,))]
    return [fam_a, fam_b, fam_c, fam_d]


def warm_histories(model):
    """Non-initial starting states: everything memoised through rightmost-first, through
    topmost-first, and through the polynomial test."""
    nb = len(model.bases)
    return [(),
            tuple(("right", bi, "list") for bi in range(nb)) + tuple(("poly", bi, "list") for bi in range(nb)),
            tuple(("top", bi, "iter") for bi in range(nb))]


def shard_history(shard):
    fi, bases, wi, depth = shard
    part = Partial()
    model = HistoryModel(bases)
    seen = set()

    def build(hist):
        canon, viols = model.build(hist)
        seen.add(hash(canon))
        return canon, viols

    def on_violation(hist, v):
        part.violation("history", {"bases": model.bases, "history": [list(op) for op in hist]}, v)

    st = bfs([warm_histories(model)[wi]], model.menu, build, depth, on_violation)
    part.add(st.transitions, 0)
    part.bump("history_transitions", st.transitions)
    if wi == 0:
        part.sample({"sub": "history", "family": fi, "bases": model.bases,
                     "history": st.sample_histories[-1] if st.sample_histories else []}, cap=1)
    closed = st.max_depth_seen < depth
    return part, (fi, seen, st.transitions, closed, st.sample_histories)


def fresh_observations(bases, hist):
    """The same history in a genuinely fresh interpreter."""
    code = ("import sys, json; sys.path.insert(0, %r); sys.path.insert(0, %r); "
            "from mc.checks import c13; c13._fresh_main()" % (REPO, VERIF))
    payload = json.dumps({"bases": bases, "history": hist})
    res = subprocess.run([sys.executable, "-B", "-c", code], input=payload, capture_output=True,
                         text=True, timeout=1800, cwd=VERIF)
    if res.returncode != 0:
        return "fresh interpreter failed: " + res.stderr[-600:]
    return json.loads(res.stdout.strip().splitlines()[-1])


def _fresh_main():
    data = json.loads(sys.stdin.read())
    bases = [tuple(tuple(p) for p in b) for b in data["bases"]]
    hist = [tuple(op) for op in data["history"]]
    import permuta
    assert os.path.abspath(permuta.__file__).startswith(os.path.abspath(REPO) + os.sep)
    obs, _ = run_history(bases, hist, reset=False)
    print(json.dumps(obs))


def check_fresh(part, bases, hist):
    bases = [tuple(tuple(p) for p in b) for b in bases]
    hist = [tuple(op) for op in hist]
    here, _ = run_history(bases, hist)
    there = fresh_observations([list(map(list, b)) for b in bases], [list(op) for op in hist])
    exp = [expected(fn, F.verdicts(bases[bi])) for fn, bi, kind in hist]
    norm = lambda obs: obs if not isinstance(obs, list) else [o if isinstance(o, str) else bool(o) for o in obs]
    if norm(here) != norm(there) or norm(there) != exp:
        part.violation("fresh", {"bases": bases, "history": [list(op) for op in hist]},
                       {"in_process_after_reset": here, "fresh_interpreter": there, "reference": exp})


def shard_fresh(shard):
    bases, hist = shard
    part = Partial()
    check_fresh(part, bases, hist)
    part.add(len(hist), 0)
    return part


# --------------------------------------------------------------------------------------------
# SCALE: long basis elements with a prescribed small descent set (runtime thresholds)
# --------------------------------------------------------------------------------------------

SCALE_FNS = {"poly": [("poly", "list"), ("nonpoly", "gen")],
             "right": [("right", "list"), ("insenc", "tuple")],
             "top": [("top", "list"), ("insenc", "gen")]}


def scale_perms(n, D):
    """The distinct permutations of the family for one (n, D): three construction rules x eight
    symmetries (descents become ascents / positions become values), with the label of the first
    construction that gives each."""
    out = {}
    for rule in F.RULES:
        base = F.perm_with_descents(n, D, rule)
        for s in R.SYMS:
            out.setdefault(R.apply_sym(s, base), (rule, s))
    return out


def check_scale_case(part, n, D, rule, sym, kind, X, order, fn, cont):
    p = R.apply_sym(sym, F.perm_with_descents(n, D, rule))
    C = F.completion(kind, X, F.types_cached(p))
    seq = ([p] + list(C)) if order == 0 else (list(C) + [p])
    v = F.verdicts(seq)
    got = call(fn, cont, [perm_obj(x) for x in seq])
    exp = expected(fn, v)
    if differs(got, exp):
        part.violation("scale", {"n": n, "D": list(D), "rule": rule, "sym": sym, "kind": kind,
                                 "class": X, "order": order, "fn": fn, "container": cont},
                       {"long_element": p if n <= 40 else "(regenerate from n, D, rule, sym)",
                        "descents_of_long_element": F.descent_set(p) if len(F.descent_set(p)) <= 12 else len(F.descent_set(p)),
                        "completion": C, "long_element_in_class": bool(F.types_cached(p) & F.BIT[X]),
                        "expected": exp, "got": got})


def shard_scale(shard):
    n, sets, avmax = shard
    part = Partial()
    for D in sets:
        perms_ = scale_perms(n, D)
        for p, (rule, sym) in perms_.items():
            for kind in ("right", "top", "poly"):
                for X in CONTEXTS[kind]:
                    for order in (0, 1):
                        for fn, cont in SCALE_FNS[kind]:
                            check_scale_case(part, n, D, rule, sym, kind, X, order, fn, cont)
                            part.add(1, 0)
                    if n <= avmax:
                        check_scale_case(part, n, D, rule, sym, kind, X, 0,
                                         "av_poly" if kind == "poly" else "av_insenc", "list")
                        part.add(1, 0)
                    part.add(0, 1)
        _PERM.clear()       # long Perm objects are not worth keeping
    if sets:
        D = sets[-1]
        p, (rule, sym) = next(iter(scale_perms(n, D).items()))
        part.sample({"sub": "scale", "n": n, "D": D, "rule": rule, "sym": sym,
                     "classes_of_long_element": [c for c in F.CLASSES if F.types_cached(p) & F.BIT[c]]}, cap=1)
    return part


# --------------------------------------------------------------------------------------------
# FORMS: every argument form and every public name of the same functionality
# --------------------------------------------------------------------------------------------

FORM_KINDS = ["map", "reversed", "chain", "dictkeys", "dictvalues", "deque", "kw"]
AV_ROUTES = ["iter", "gen", "map", "deque", "frozenset", "from_iterable", "from_string0", "from_string1",
             "Basis.from_string", "kw"]


def check_forms(part, S):
    v = F.verdicts(S)
    n = 0
    seqs = [tuple(S)]
    if len(S) > 1:
        seqs.append(tuple(reversed(S)))
    if S:
        seqs.append(tuple(S) + tuple(S[:1]))
    for seq in seqs:
        for kind in rot(FORM_KINDS):
            for fn in rot(FUNCS):
                check_call(part, "forms", fn, kind, seq, v)
                n += 1
        for fn in FUNCS:
            for kind in ("list", "gen"):
                check_call(part, "forms", "cls:" + fn, kind, seq, v)
                n += 1
    if S and all(len(p) >= 1 for p in S):
        for seq in seqs[:2]:
            for kind in AV_ROUTES:
                for fn in ("av_finite", "av_poly", "av_insenc"):
                    check_call(part, "forms", fn, kind, seq, v)
                    n += 1
    part.add(n, 1 if hinge(S, v) else 0)


def shard_forms(shard):
    lo, hi = shard
    part = Partial()
    for S in BASES[lo:hi]:
        check_forms(part, S)
    return part


def libgen_cases():
    """(description, maker of a one-shot iterator from the library's own generator helpers)."""
    L = lib()
    Perm, Av = L["Perm"], L["Av"]
    out = []
    for n in range(0, 5):
        out.append((["Perm.of_length", n], lambda n=n: Perm.of_length(n)))
    for n in range(0, 4):
        out.append((["Perm.up_to_length", n], lambda n=n: Perm.up_to_length(n)))
    for b in R.bases(2, 3):
        for n in range(0, 5):
            out.append((["Av.of_length", list(b), n],
                        lambda b=b, n=n: Av([Perm(x) for x in b]).of_length(n)))
        for n in range(0, 4):
            out.append((["Av.up_to_length", list(b), n],
                        lambda b=b, n=n: Av([Perm(x) for x in b]).up_to_length(n)))
    return out


def check_libgen(part, desc, make):
    """The library's own generators handed over as the basis: the reference verdict is taken for
    the permutations the generator yields (their correctness is C02/C09), the form is the point."""
    L = lib()
    try:
        content = tuple(tuple(p) for p in make())
    except Exception as exc:  # noqa
        part.violation("forms", {"libgen": desc, "fn": "(enumerating the helper)"}, {"exception": repr(exc)})
        return
    v = F.verdicts(content)
    for fn in FUNCS:
        try:
            got = L[fn](make())
        except Exception as exc:  # noqa
            got = "exception: %r" % (exc,)
        if differs(got, expected(fn, v)):
            part.violation("forms", {"libgen": desc, "fn": fn},
                           {"yielded": content, "expected": expected(fn, v), "got": got})
        part.add(1, 0)


def shard_libgen(shard):
    lo, hi = shard
    part = Partial()
    for desc, make in libgen_cases()[lo:hi]:
        check_libgen(part, desc, make)
    return part


# --------------------------------------------------------------------------------------------
# ABORT: an exception injected at the k-th call event inside one operation, then read back
# --------------------------------------------------------------------------------------------

class _Abort(BaseException):
    pass


def _run_with_abort(fn, k, root):
    """Run fn(); raise _Abort at the k-th 'call' event of a frame whose code lives under root
    (k=None: never).  Returns (finished?, number of such events seen)."""
    seen = [0]

    def tracer(frame, event, arg):
        if event == "call" and frame.f_code.co_filename.startswith(root):
            seen[0] += 1
            if seen[0] == k:
                sys.settrace(None)
                raise _Abort()
        return None

    sys.settrace(tracer)
    try:
        fn()
        return True, seen[0]
    except _Abort:
        return False, seen[0]
    finally:
        sys.settrace(None)


ABORT_OPS = [(fn, kind) for fn in FUNCS for kind in ("list", "iter")] + \
            [(fn, "list") for fn in ("av_finite", "av_poly", "av_insenc")]


def abort_case(part, model, wi, op, k, root):
    """Reset, warm, run op with an abort at call event k (None: undisturbed), read everything back.
    Returns the number of call events seen."""
    import signal
    L = lib()
    Perm = L["Perm"]
    fn, bi, kind = op
    run_history(model.bases, warm_histories(model)[wi])
    objs = [[Perm(p) for p in b] for b in model.bases]       # the objects the aborted call sees
    finished, seen = _run_with_abort(lambda: call(fn, kind, objs[bi]), k, root)
    if k is None:
        return seen
    case = {"bases": model.bases, "warm": wi, "op": [fn, bi, kind], "abort_at_call": k}
    signal.alarm(30)
    try:
        bad = None
        for rb, b in enumerate(model.bases):
            for same in (True, False):
                ps = objs[rb] if same else [Perm(p) for p in b]
                for rfn in FUNCS + (["av_finite", "av_poly", "av_insenc"]
                                    if rb == bi and b and all(len(p) for p in b) else []):
                    got = call(rfn, "list", ps)
                    if differs(got, expected(rfn, model.exp[rb])):
                        bad = {"read_back": [rfn, rb, "same objects" if same else "fresh equal objects"],
                               "basis": b, "expected": expected(rfn, model.exp[rb]), "got": got,
                               "aborted_call_finished": finished}
                        break
                if bad:
                    break
            if bad:
                break
    except TimeoutError as exc:
        bad = {"hang": str(exc)}
    finally:
        signal.alarm(0)
    if bad:
        part.violation("abort", case, bad)
    part.add(1, 0 if finished else 1)
    return seen


def shard_abort(shard):
    import signal
    fi, bases, wi, bi = shard
    part = Partial()
    model = HistoryModel(bases)
    root = os.path.join(os.path.abspath(REPO), "permuta") + os.sep

    def on_alarm(signum, frame):
        raise TimeoutError("read-back did not finish within 30 s")

    old = signal.signal(signal.SIGALRM, on_alarm)
    old_hook = sys.unraisablehook
    sys.unraisablehook = lambda unraisable: None
    points = 0
    try:
        for fn, kind in ABORT_OPS:
            if fn.startswith("av_") and not (bases[bi] and all(len(p) for p in bases[bi])):
                continue
            op = (fn, bi, kind)
            total = abort_case(part, model, wi, op, None, root)
            points += total
            for k in range(1, total + 1):
                abort_case(part, model, wi, op, k, root)
    finally:
        signal.signal(signal.SIGALRM, old)
        sys.unraisablehook = old_hook
    part.bump("abort_points", points)
    return part


# --------------------------------------------------------------------------------------------

def chunk(n, per):
    return [(lo, min(n, lo + per)) for lo in range(0, n, per)]


def build_bases():
    """Bases(3,4), the empty basis, and the bases of <= 2 elements over S<=2 + the empty
    permutation that contain the empty permutation (functions only; Av rejects them)."""
    out = [()]
    out += [tuple(b) for b in R.bases(3, 4)]
    small = [(), (0,), (0, 1), (1, 0), (0, 2, 1)]
    for r in (1, 2, 3):
        for c in itertools.combinations(small, r):
            if () in c:
                out.append(tuple(c))
    return out


def run(ctx, only=None):
    global CONTEXTS, BASES, PAIRPOOL, SUBPOOL, PROFILES, SEED
    SEED = ctx.seed

    def want(name):
        return only is None or name in only

    quick = ctx.quick
    snapshot_pristine()
    ctx.rule = ("bases/pairs/subsets: distinct base sets (each enumerated once) in which some single "
                "element is needed for the reference verdict vector (removing it changes finite/"
                "polynomial/rightmost/topmost); types: distinct (permutation, class) pairs with "
                "|permutation| >= 3 whose context makes the verdict equal membership of that one "
                "permutation; enum: bases whose finite verdict was confronted with at least one "
                "non-empty and one empty level, or whose non-polynomial verdict was confronted with a "
                "proper class; symmetry: bases moved by some symmetry; related: distinct (p, related element, "
                "class) triples with |p| >= 3; scale: distinct (long element, class) pairs; "
                "histories: BFS states")
    ctx.assumptions = [
        "structure theorems as stated in mc/ref_c13.py (Erdos-Szekeres; ten minimal non-polynomial "
        "classes, Kaiser-Klazar/Huczynska-Vatter; Vatter's four classes for the insertion encoding)",
        "reference classes given twice (definition and finite basis), cross-checked on S<=%d at start"
        % (6 if quick else 7),
        "enumeration consistency uses the reference levels (mc/refmodel.Profiles), not Av (that is C02)",
        "Av(<one-shot iterator>) raises ValueError in Av.from_iterable (basis construction: C02/C05), "
        "so the Av wrappers are driven with re-iterable containers only",
        "a polynomial verdict is never confirmed by counting, only refuted",
    ]
    F.selftest(6 if quick else 7)
    CONTEXTS = F.probe_contexts()
    BASES = build_bases()
    ctx.bounds["reference_selftest"] = "definition == finite basis for all 10 classes on S<=%d" % (6 if quick else 7)

    if want("types"):
        e0 = ctx.evals
        L = 7 if quick else 8
        per = {0: 1, 1: 1, 2: 2, 3: 6, 4: 24, 5: 60, 6: 90, 7: 210, 8: 630}
        shards = [(n, lo, hi) for n in range(0, L + 1) for lo, hi in chunk(_fact(n), per[n])]
        ctx.pmap(shard_types, shards)
        ctx.bounds["types"] = {"perm_length": "0..%d" % L, "contexts": CONTEXTS,
                               "positions": ["last", "first"]}
        ctx.section("types", evaluations=ctx.evals - e0)
    if want("bases"):
        e0 = ctx.evals
        ctx.pmap(shard_bases, chunk(len(BASES), 40))
        ctx.bounds["bases"] = {"sets": len(BASES), "what": "Bases(3,4) + empty basis + %d bases containing the empty permutation" % (len(BASES) - 6018),
                               "sequences": "all orders; all sequences of length k+1 using every element",
                               "containers": ORDERED + UNORDERED, "functions": FUNCS,
                               "av": "Av(list/tuple/set/Basis) x {is_finite,is_polynomial,is_insertion_encodable}, both orders"}
        ctx.section("bases", evaluations=ctx.evals - e0)
    if want("pairs"):
        e0 = ctx.evals
        ell = 5 if quick else 6
        PAIRPOOL = [p for n in range(1, ell + 1) for p in R.perms(n)]
        ctx.pmap(shard_pairs, chunk(len(PAIRPOOL), 4 if quick else 8))
        ctx.bounds["pairs"] = "all bases of 1 or 2 permutations of length 1..%d, as list and reversed iterator" % ell
        ctx.section("pairs", evaluations=ctx.evals - e0)
    if want("subsets"):
        e0 = ctx.evals
        SUBPOOL = [p for n in range(1, 4) for p in R.perms(n)]
        if not quick:
            SUBPOOL += [(1, 0, 3, 2), (2, 0, 3, 1), (1, 3, 0, 2), (2, 3, 0, 1), (3, 2, 1, 0)]
        import math
        shards = []
        for size in range(0, len(SUBPOOL) + 1):
            shards += [(size, lo, hi) for lo, hi in chunk(math.comb(len(SUBPOOL), size), 400)]
        ctx.pmap(shard_subsets, shards)
        ctx.bounds["subsets"] = "every subset (all sizes) of a pool of %d permutations, list + reversed generator" % len(SUBPOOL)
        ctx.section("subsets", evaluations=ctx.evals - e0)
    if want("related"):
        e0 = ctx.evals
        L = 5 if quick else 7
        per = {1: 1, 2: 2, 3: 3, 4: 4, 5: 4, 6: 8, 7: 24}
        shards = [(n, lo, hi) for n in range(1, L + 1) for lo, hi in chunk(_fact(n), per[n])]
        ctx.pmap(shard_related, shards)
        ctx.bounds["related"] = {
            "p": "every permutation of length 1..%d" % L,
            "related element": "each of the 7 non-identity symmetries of p (inverse first) and each "
                               "distinct one-point deletion of p, when different from p",
            "classes": "each of the 10 polynomial, 4 rightmost and 4 topmost classes X; finiteness with "
                       "each of 012, 210, 01, 10 as the only other element",
            "completion": "minimal completion by the reference type sets (length <= 4, avoids X, meets what "
                          "the pair does not) and the whole probe context of X",
            "arrangements": "p q C, q p C, p C q, q C p, C p q, C q p; list/generator; is_polynomial, "
                            "is_non_polynomial, rightmost, maximum, is_insertion_encodable, Av methods; "
                            "plus the 7 symmetric images of the whole basis"}
        ctx.section("related", evaluations=ctx.evals - e0)
    if want("enum"):
        e0 = ctx.evals
        N = 8 if quick else 9
        PROFILES = R.Profiles(N)
        for n in range(N + 1):
            PROFILES.grouped(n)
        ctx.pmap(shard_enum, [(lo, hi, N) for lo, hi in chunk(len(BASES), 60)])
        ctx.bounds["enum"] = {"bases": "Bases(3,4)", "levels": "0..%d" % N,
                              "fibonacci": "F0=F1=1"}
        ctx.section("enum", evaluations=ctx.evals - e0)
        PROFILES = None
    if want("symmetry"):
        e0 = ctx.evals
        run_symmetry(ctx)
        ctx.bounds["symmetry"] = "Bases(3,4) (+ the extra bases) x 7 non-identity symmetries"
        ctx.section("symmetry", evaluations=ctx.evals - e0)
    if want("cli"):
        e0 = ctx.evals
        # quick: the bases of <= 2 elements (BASES is ordered by size); thorough: all of them
        ncli = len(BASES) if not quick else 1 + sum(1 for b in BASES[1:6018] if len(b) <= 2)
        ctx.pmap(shard_cli, chunk(ncli, 40 if quick else 200))
        first = {}
        for b in R.bases(3, 4):
            first.setdefault(F.verdicts(b), b)
        shards = [(first[v], cmd) for v in sorted(first, reverse=True) for cmd in ("poly", "insenc")]
        ctx.pmap(shard_cli_fresh, shards)
        ctx.bounds["cli"] = ("poly and insenc through get_parser().parse_args for every basis of Bases(%d,4), " % (2 if quick else 3) +
                             "0-based '_' and 1-based ':' spelling; %d runs of permuta.cli.main in a fresh "
                             "interpreter" % len(shards))
        ctx.section("cli", evaluations=ctx.evals - e0)
    if want("scale"):
        e0 = ctx.evals
        plan = [(10, 4), (11, 4), (12, 4), (33, 4), (34, 4), (257, 2)] if quick else \
               [(9, 4), (10, 4), (11, 4), (12, 4), (13, 4), (32, 4), (33, 4), (34, 4), (35, 4),
                (256, 2), (257, 4), (258, 2)]
        shards = []
        nsets = {}
        for n, maxsize in plan:
            sets = F.scale_descent_sets(n, maxsize)
            nsets[n] = len(sets)
            per = 8 if n < 100 else 3
            shards += [(n, sets[lo:hi], 13 if quick else 40) for lo, hi in chunk(len(sets), per)]
        ctx.pmap(shard_scale, shards)
        ctx.bounds["scale"] = {
            "lengths (max |D|)": plan, "descent_sets_per_length": nsets,
            "probe_positions": "{0,1,2,7,8,9,31,32,33,n-3,n-2} within 0..n-2; every subset of size 0..max; for "
                               "n >= 33 also every 5..7-subset of {0,1,2,3,4,31,32}",
            "elements": "3 construction rules (skew / riffle / lexmin) x 8 symmetries, distinct ones",
            "classes": "each of the 4 rightmost, 4 topmost and 10 polynomial classes X with the reference's "
                       "minimal completion: the verdict is True <=> the long element is in X",
            "calls": "long element first / last; rightmost, maximum, is_insertion_encodable, is_polynomial, "
                     "is_non_polynomial; Av methods for n <= %d" % (13 if quick else 40),
            "reference": "linear-time class membership (cross-checked with the definition on S<=%d)" % (6 if quick else 7)}
        ctx.section("scale", evaluations=ctx.evals - e0, lengths=[n for n, _ in plan])
    if want("forms"):
        e0 = ctx.evals
        nf = len(BASES) if not quick else 1 + sum(1 for b in BASES[1:6018] if len(b) <= 2)
        extra = [] if not quick else chunk(len(BASES), 40)[-1:]      # the bases with the empty perm
        ctx.pmap(shard_forms, chunk(nf, 40) + extra)
        ng = len(libgen_cases())
        ctx.pmap(shard_libgen, chunk(ng, 40))
        ctx.bounds["forms"] = {
            "bases": "Bases(%d,4) + empty basis + bases with the empty permutation" % (2 if quick else 3),
            "sequences": "sorted, reversed, with the first element repeated",
            "forms": FORM_KINDS + ["(kw = keyword argument basis=...)"],
            "names": "PolyPerms.* / InsertionEncodablePerms.* / permutils.finite.is_finite (list, generator)",
            "Av routes": AV_ROUTES,
            "library generators as basis": "%d: Perm.of_length(0..4), Perm.up_to_length(0..3), "
                                           "Av(b).of_length(0..4), Av(b).up_to_length(0..3) for b in Bases(2,3)" % ng}
        ctx.section("forms", evaluations=ctx.evals - e0)
    if want("abort"):
        e0 = ctx.evals
        fams = families()
        warms = (0, 1) if quick else (0, 1, 2)
        shards = [(fi, fam, wi, bi) for wi in warms for fi, fam in enumerate(fams)
                  for bi in range(len(fam))]
        ctx.pmap(shard_abort, shards)
        ctx.traces += ctx.evals - e0
        ctx.bounds["abort"] = {
            "operations": "each of %d (function, container) operations on each basis of the %d history "
                          "families, from %d initial memo states" % (len(ABORT_OPS), len(fams), len(warms)),
            "injection": "a BaseException at EVERY call event (frames under permuta/) of the operation",
            "injection_points": ctx.counters.get("abort_points", 0),
            "read_back": "all 6 functions on all 6 bases of the family (+ the 3 Av methods on the basis of "
                         "the aborted call), on the objects the aborted call saw and on fresh equal "
                         "objects, against the reference"}
        ctx.section("abort", evaluations=ctx.evals - e0, injection_points=ctx.counters.get("abort_points", 0))
    if want("history"):
        depth = 3 if quick else 4
        fams = families()
        nwarm = len(warm_histories(HistoryModel(fams[0])))
        res = ctx.pmap(shard_history, [(i, fam, wi, depth) for wi in range(nwarm)
                                       for i, fam in enumerate(fams)])
        per_family = [set() for _ in fams]
        for r in res:
            per_family[r[0]] |= r[1]
        ctx.states = sum(len(s) for s in per_family)
        ctx.transitions = sum(r[2] for r in res)
        ctx.traces = ctx.transitions
        ctx.bounds["history"] = {"depth_beyond_each_initial_state": depth, "families": fams,
                                 "operations_per_family": [len(history_menu(f)) for f in fams],
                                 "initial_states": ["fresh", "all bases through rightmost then polynomial",
                                                    "all bases through topmost (iterators)"],
                                 "states_per_family": [len(s) for s in per_family],
                                 "closed_under_all_operations": all(r[3] for r in res)}
        ctx.section("history", states=ctx.states, transitions=ctx.transitions)
        # fresh-interpreter cross-check of a slice of the histories
        shards = []
        for fi, fam in enumerate(fams):
            model = HistoryModel(fam)
            samples = [h for r in res if r[0] == fi for h in r[4]]
            hs = [tuple(map(tuple, h)) for h in samples[-(1 if quick else 4):]]
            hs.append(tuple(model.menu))                       # every operation once, in menu order
            hs.append(tuple(reversed(model.menu)))
            for h in hs:
                shards.append((model.bases, h))
        ctx.pmap(shard_fresh, shards)
        ctx.traces += len(shards)
        ctx.bounds["fresh_interpreter"] = "%d histories re-run in a fresh interpreter" % len(shards)
        ctx.section("fresh", histories=len(shards))


    # shards are merged in a seed-dependent order: put the simplest case of every sub-check first
    ctx.viols.sort(key=lambda v: (v["sub"], len(json.dumps(v["case"])), json.dumps(v["case"])))


# --------------------------------------------------------------------------------------------

def _tt(x):
    return tuple(tuple(p) for p in x)


def replay(ctx, rec):
    global CONTEXTS, BASES
    sub, case = rec["sub"], rec["case"]
    snapshot_pristine()
    reset_state()
    if sub == "types":
        CONTEXTS = F.probe_contexts()
        check_type_case(ctx, tuple(case["perm"]), case["kind"], case["class"], case["pos"])
    elif sub == "forms" and "libgen" in case:
        for desc, make in libgen_cases():
            if json.loads(json.dumps(desc)) == case["libgen"]:
                check_libgen(ctx, desc, make)
    elif sub in ("bases", "pairs", "subsets", "av", "related", "forms"):
        seq = _tt(case["seq"])
        check_call(ctx, sub, case["fn"], case["container"], seq, F.verdicts(seq))
    elif sub == "scale":
        CONTEXTS = F.probe_contexts()
        check_scale_case(ctx, case["n"], tuple(case["D"]), case["rule"], case["sym"], case["kind"],
                         case["class"], case["order"], case["fn"], case["container"])
    elif sub == "abort":
        import signal

        def on_alarm(signum, frame):
            raise TimeoutError("read-back did not finish within 30 s")
        old = signal.signal(signal.SIGALRM, on_alarm)
        hook, sys.unraisablehook = sys.unraisablehook, (lambda unraisable: None)
        try:
            model = HistoryModel([_tt(b) for b in case["bases"]])
            root = os.path.join(os.path.abspath(REPO), "permuta") + os.sep
            abort_case(ctx, model, case["warm"], tuple(case["op"]), case["abort_at_call"], root)
        finally:
            signal.signal(signal.SIGALRM, old)
            sys.unraisablehook = hook
    elif sub == "enum":
        S = _tt(case["basis"])
        N = max(int(case["n"]), 6)
        prof = R.Profiles(N)
        check_enum(ctx, S, [prof.count(S, n) for n in range(N + 1)], N)
    elif sub == "symmetry":
        S = _tt(case["basis"])
        name = case["sym"]
        T = tuple(sorted(R.apply_sym(name, p) for p in S))
        vs, vt = impl_verdicts(S), impl_verdicts(T)
        if not sym_relation_ok(name, vs, vt):
            ctx.violation("symmetry", case, {"image": T, "verdicts": vs, "verdicts of image": vt})
    elif sub in ("cli", "cli_fresh"):
        check_cli(ctx, sub, _tt(case["basis"]), case["cmd"], case["style"])
    elif sub == "history":
        model = HistoryModel([_tt(b) for b in case["bases"]])
        hist = tuple(tuple(op) for op in case["history"])
        for i in range(1, len(hist) + 1):
            _, viols = model.build(hist[:i])
            if viols:
                ctx.violation("history", case, viols[0])
                break
    elif sub == "fresh":
        check_fresh(ctx, case["bases"], case["history"])
    else:
        raise ValueError("unknown sub-check %r" % sub)
