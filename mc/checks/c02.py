"""C02 - Av(basis) is exactly the set of avoiders, independent of query history.

E1  every basis of a finite family x three request orders x all observers, against reference levels
    (classical: pattern-profile table; mesh: definitional filter).
E2  BFS over histories of queries / live iterators / clear_cache / re-construction on real Av
    objects; canonical state = complete cache structure of every Av object made in the history +
    identity map + iterator positions.

Known findings handled through deviation models (DESIGN section 3):
  F1  first()/_all stop at the first empty level (wrong for mesh classes with a later non-empty level)
  F3  is_subclass: vacuously true for a mesh `other`; for a mesh `self` only the basis elements of
      `other` are tested (mesh classes are not downward closed)
"""
from __future__ import annotations

import itertools
import os
import sys

from .. import alpha as A
from .. import refmodel as R
from ..core import Partial, REPO
from ..explore import bfs
from .c01 import freeze, module_state

PROPERTY = "C02"
LEVEL = "model_checking"

SIG_F1 = "C02|first|mesh-basis|stops-at-first-empty-level"
SIG_F3A = "C02|is_subclass|mesh-other|vacuously-true"
SIG_F3B = "C02|is_subclass|mesh-self|tests-only-basis-elements-of-other"

PROF = None          # R.Profiles, built before forking


def _lib():
    from permuta import Av, Perm
    return Av, Perm


# --------------------------------------------------------------------------------------------
# reference levels
# --------------------------------------------------------------------------------------------

def ref_levels(descs, N):
    """list over n=0..N of frozensets of tuples: permutations avoiding every described pattern."""
    descs = [A.norm(d) for d in descs]
    if all(d[0] == "c" for d in descs) and PROF is not None and N <= PROF.maxlen \
            and all(len(d[1]) <= PROF.pattlen for d in descs):
        basis = [d[1] for d in descs]
        return [frozenset(PROF.avoiders(basis, n)) for n in range(N + 1)]
    pats = [A.ref_of(d) for d in descs]
    out = []
    for n in range(N + 1):
        out.append(frozenset(p for p in R.perms(n)
                             if not any(R.mesh_contains(p, q, sh) if sh else R.contains(p, q)
                                        for q, sh in pats)))
    return out


def first_ok(got, levels, k, stop_at_empty):
    """Is `got` (list of tuples) an admissible answer of first(k) for a class with these levels?
    Admissible: duplicate free, graded (all shorter lengths exhausted before a longer one starts),
    every element a member, and as long as the model allows (k, or everything available)."""
    if len(set(got)) != len(got):
        return False
    avail = 0
    for lvl in levels:
        if stop_at_empty and not lvl:
            break
        avail += len(lvl)
    if len(got) != min(k, avail):
        return False
    pos = 0
    for n, lvl in enumerate(levels):
        if stop_at_empty and not lvl:
            break
        seg = got[pos:pos + len(lvl)]
        if any(len(p) != n for p in seg) or not set(seg) <= lvl:
            return False
        pos += len(seg)
        if pos >= len(got):
            break
    return pos == len(got)


def graded_segments(seq, N):
    """Canonical form of an up_to_length answer: None if not graded / has duplicates, else list of
    sorted segments per length."""
    if len(set(seq)) != len(seq):
        return "duplicates"
    lens = [len(p) for p in seq]
    if lens != sorted(lens):
        return "not graded"
    segs = [[] for _ in range(N + 1)]
    for p in seq:
        if len(p) > N:
            return "too long"
        segs[len(p)].append(p)
    return [sorted(s) for s in segs]


# --------------------------------------------------------------------------------------------
# E1: one class, one request order, all observers
# --------------------------------------------------------------------------------------------

def observe_class(descs, N, variant, levels, first_ks, in_upto):
    """Run all observers on a FRESH Av object in the order given by `variant`.
    Returns list of (observer, expected, got, sig) mismatches."""
    Av, Perm = _lib()
    Av.clear_cache()
    objs = [A.mk(d) for d in descs]
    av = Av.from_iterable(objs)
    bad = []
    is_mesh = any(A.is_mesh(d) for d in descs)
    exp_counts = [len(lv) for lv in levels]
    exp_levels = [sorted(lv) for lv in levels]

    def chk(name, exp, got, sig=None):
        if exp != got:
            bad.append((name, exp, got, sig))

    def q_count(n):
        chk("count(%d)" % n, exp_counts[n], av.count(n))

    def q_level(n):
        got = [tuple(p) for p in av.of_length(n)]
        if len(set(got)) != len(got):
            bad.append(("of_length(%d)" % n, "duplicate free", got, None))
        chk("of_length(%d)" % n, exp_levels[n], sorted(got))

    def q_in(n):
        got = sorted(p for p in R.perms(n) if Perm(p) in av)
        chk("in(len %d)" % n, exp_levels[n], got)

    rng = list(range(N + 1))
    if variant == 0:          # increasing requests
        for n in rng:
            q_count(n)
        for n in rng:
            q_level(n)
    elif variant == 1:        # jump ahead, then go back
        q_level(N)
        for n in reversed(rng):
            q_count(n)
        for n in reversed(rng):
            q_level(n)
    elif variant == 3:        # the instance is HELD across clear_cache and queried again
        q_count(N)
        Av.clear_cache()
        other = Av.from_iterable([A.mk(d) for d in descs])     # a second, fresh instance
        for n in reversed(rng):
            q_count(n)
        q_level(N)
        chk("fresh instance after clear_cache: enumeration(%d)" % N, exp_counts, other.enumeration(N))
        q_level(N - 1 if N else 0)
    else:                     # membership of a long permutation first, enumeration, levels down
        last = R.perms(N)[-1]
        chk("in(first query) %r" % (last,), last in levels[N], Perm(last) in av)
        chk("enumeration(%d)" % N, exp_counts, av.enumeration(N))
        for n in reversed(rng):
            q_level(n)
            q_count(n)
    for n in range(min(N, in_upto) + 1):
        q_in(n)
    chk("enumeration(%d)" % N, exp_counts, av.enumeration(N))
    got = graded_segments([tuple(p) for p in av.up_to_length(N)], N)
    chk("up_to_length(%d)" % N, exp_levels, got)
    # first(k)
    for k in first_ks:
        got = [tuple(p) for p in av.first(k)]
        if first_ok(got, levels, k, False):
            continue
        sig = None
        if is_mesh and first_ok(got, levels, k, True):
            sig = SIG_F1
        bad.append(("first(%d)" % k, "graded duplicate-free prefix of the class, length min(k, available)",
                    got if len(got) < 30 else got[:30] + ["..."], sig))
    return bad


def first_ks_for(levels, classical):
    total = sum(len(lv) for lv in levels)
    finite_in_horizon = classical and any(not lv for lv in levels)
    top = total + 2 if finite_in_horizon else total
    if top <= 40:
        return list(range(0, top + 1))
    ks = {0, 1, 2, 3, top}
    acc = 0
    for lv in levels:
        acc += len(lv)
        for d in (-1, 0, 1):
            if 0 <= acc + d <= top:
                ks.add(acc + d)
    return sorted(ks)


def check_class(part, descs, N, variant, in_upto=99):
    descs = [A.norm(d) for d in descs]
    levels = ref_levels(descs, N)
    classical = all(d[0] == "c" for d in descs)
    ks = first_ks_for(levels, classical)
    case = {"basis": descs, "N": N, "variant": variant}
    try:
        bad = observe_class(descs, N, variant, levels, ks, in_upto)
    except Exception as exc:  # noqa
        import traceback
        part.violation("class", case, {"exception": repr(exc),
                                       "where": traceback.format_exc().splitlines()[-6:]})
        return levels
    seen = set()
    for name, exp, got, sig in bad:
        if (name.split("(")[0], sig) in seen:
            continue
        seen.add((name.split("(")[0], sig))
        part.violation("class", case, {"observer": name, "expected": exp, "got": got}, sig=sig)
    return levels


def shard_classical(shard):
    bases, N, variants = shard
    part = Partial()
    for basis in bases:
        descs = [("c", p) for p in basis]
        for v in variants:
            levels = check_class(part, descs, N, v, in_upto=N)
            nontriv = 1 if (v == variants[0] and 0 < len(levels[N]) < _fact(N)) else 0
            part.add(1, nontriv)
    if bases:
        part.sample({"basis": bases[0], "levels_to": N, "variants": list(variants)}, cap=1)
    return part


def shard_mesh(shard):
    lists, N, variants = shard
    part = Partial()
    for descs in lists:
        for v in variants:
            levels = check_class(part, descs, N, v, in_upto=N)
            tot = sum(len(lv) for lv in levels)
            nontriv = 1 if (v == variants[0] and 0 < tot < sum(_fact(n) for n in range(N + 1))) else 0
            part.add(1, nontriv)
    if lists:
        part.sample({"basis": lists[0], "levels_to": N}, cap=1)
    return part


_F = {}


def _fact(n):
    import math
    return math.factorial(n)


# --------------------------------------------------------------------------------------------
# deep levels for a few classical bases: reference by the downward-closure characterisation
# --------------------------------------------------------------------------------------------

def downset_levels(basis, N):
    """sigma avoids B  iff  sigma is not itself in B and every one-point deletion of sigma avoids B
    (an occurrence of a shorter b misses some point).  Candidates of length n: insert the new
    maximum at every position of a member of length n-1.  A different algorithm from the
    library's (rightmost insertion with a deletion window) and cross-checked against the
    pattern-profile table for small n in run()."""
    basis = {tuple(b) for b in basis}
    levels = [frozenset([()]) if () not in basis else frozenset()]
    for n in range(1, N + 1):
        prev = levels[-1]
        new = set()
        for p in prev:
            for i in range(n):
                q = p[:i] + (n - 1,) + p[i:]
                if q in basis:
                    continue
                ok = True
                for j in range(n):
                    if j == i:
                        continue
                    if R.delete_point(q, j) not in prev:
                        ok = False
                        break
                if ok:
                    new.add(q)
        levels.append(frozenset(new))
    return levels


def shard_deep(shard):
    basis, N, variant = shard
    Av, Perm = _lib()
    part = Partial()
    levels = downset_levels(basis, N)
    case = {"basis": [("c", b) for b in basis], "N": N, "variant": variant}
    Av.clear_cache()
    try:
        av = Av.from_iterable([Perm(b) for b in basis])
        if variant == 0:
            got_counts = [av.count(n) for n in range(N + 1)]
        else:
            top = av.count(N)
            got_counts = [av.count(n) for n in range(N)] + [top]
        exp_counts = [len(lv) for lv in levels]
        if got_counts != exp_counts:
            part.violation("deep", case, {"observer": "count", "expected": exp_counts,
                                          "got": got_counts})
        for n in sorted({N, N - 1, N - 2}):
            got = [tuple(p) for p in av.of_length(n)]
            if len(set(got)) != len(got) or set(got) != levels[n]:
                extra = sorted(set(got) - levels[n])[:3]
                missing = sorted(levels[n] - set(got))[:3]
                part.violation("deep", case, {"observer": "of_length(%d)" % n,
                                              "extra": extra, "missing": missing,
                                              "got_size": len(got), "expected_size": len(levels[n])})
                break
    except Exception as exc:  # noqa
        import traceback
        part.violation("deep", case, {"exception": repr(exc),
                                      "where": traceback.format_exc().splitlines()[-4:]})
    part.add(1, 1 if 0 < len(levels[N]) < _fact(N) else 0)
    part.bump("deep_top_level_members", len(levels[N]))
    part.sample({"basis": basis, "levels_to": N, "top_level_size": len(levels[N])}, cap=1)
    return part


# --------------------------------------------------------------------------------------------
# is_subclass over all ordered pairs of a pool
# --------------------------------------------------------------------------------------------

def shard_subclass(shard):
    pool, rows, N = shard
    Av, Perm = _lib()
    part = Partial()
    lv = [ref_levels(d, N) for d in pool]
    mesh = [any(A.is_mesh(x) for x in d) for d in pool]
    for i in rows:
        for j in range(len(pool)):
            Av.clear_cache()
            a = Av.from_iterable([A.mk(x) for x in pool[i]])
            b = Av.from_iterable([A.mk(x) for x in pool[j]])
            case = {"self": pool[i], "other": pool[j]}
            try:
                got = a.is_subclass(b)
            except Exception as exc:  # noqa
                part.violation("subclass", case, {"exception": repr(exc)})
                continue
            refuted = any(not lv[i][n] <= lv[j][n] for n in range(N + 1))
            if not mesh[i] and not mesh[j]:
                # exact: both classes are downward closed and other's basis has length <= N
                exp = not refuted
                if got != exp:
                    part.violation("subclass", case, {"expected": exp, "got": got})
                part.add(1, 1 if (refuted and i != j) else 0)
                continue
            # mesh classes: only definite refutations within the horizon count (DESIGN 5a)
            if got is True and refuted:
                if mesh[j]:
                    sig = SIG_F3A          # deviation model: always True for a mesh `other`
                else:
                    # deviation model: True iff no basis element of other is itself a member of self
                    dev = all(b not in lv[i][len(b)] for b in _minimal_classical(pool[j]))
                    sig = SIG_F3B if dev else None
                part.violation("subclass", case, {"expected": False, "got": True,
                                                  "witness": _witness(lv[i], lv[j])}, sig=sig)
            elif got is False and not mesh[j]:
                # False is only returned when some basis element b of other lies in self; b contains
                # itself, so b is in self and not in other: the refutation must be visible
                if not refuted:
                    part.violation("subclass", case, {"expected": True, "got": False})
            elif got is False and mesh[j]:
                part.violation("subclass", case, {"expected": "True/undetermined", "got": False,
                                                  "note": "no counterexample up to the horizon"}) \
                    if not refuted else None
            part.add(1, 1 if refuted else 0)
    return part


def _minimal_classical(descs):
    """Minimal elements (under classical containment) of a list of classical descriptors - what
    the basis of the class is, by definition."""
    ps = sorted({tuple(d[1]) for d in descs}, key=lambda p: (len(p), p))
    out = []
    for p in ps:
        if not any(R.contains(p, q) for q in out):
            out.append(p)
    return out


def _witness(la, lb):
    for n in range(len(la)):
        d = la[n] - lb[n]
        if d:
            return sorted(d)[0]
    return None


# --------------------------------------------------------------------------------------------
# E2: histories
# --------------------------------------------------------------------------------------------

class ClassHistory:
    """Operations on handles A (basis bA), B (basis bB):
      ("count", h, n) ("list", h, n) ("in", h, i)          queries (i indexes self.probes)
      ("of", n) ("upto", n) ("first", k)                    create an iterator on A (<= MAXIT live)
      ("next", i)                                           advance iterator i
      ("sub", h1, h2)                                       h1.is_subclass(h2)
      ("clear",)                                            Av.clear_cache()
      ("renew", h)                                          construct the class of h again
    """
    MAXIT = 2

    def __init__(self, bA, bB, NH):
        self.b = {"A": [A.norm(d) for d in bA], "B": [A.norm(d) for d in bB]}
        self.NH = NH
        self.lv = {h: ref_levels(self.b[h], NH + 1) for h in "AB"}
        self.mesh = {h: any(A.is_mesh(d) for d in self.b[h]) for h in "AB"}
        # probes: a member and a non-member (where they exist) of lengths 2, 3, NH
        self.probes = []
        for n in sorted({2, 3, NH}):
            mem = sorted(self.lv["A"][n])
            non = sorted(set(R.perms(n)) - self.lv["A"][n])
            if mem:
                self.probes.append(mem[len(mem) // 2])
            if non:
                self.probes.append(non[len(non) // 2])
        self.first_k = min(6, sum(len(x) for x in self.lv["A"][:NH + 1]))
        menu = []
        for h in "AB":
            for n in range(NH + 1):
                menu.append(("count", h, n))
                menu.append(("list", h, n))
        menu += [("in", "A", i) for i in range(len(self.probes))]
        menu += [("of", n) for n in (1, NH - 1, NH)] + [("upto", NH), ("first", self.first_k)]
        menu += [("next", i) for i in range(self.MAXIT)]
        menu += [("sub", "A", "B"), ("sub", "B", "A"), ("clear",), ("renew", "A"), ("renew", "B")]
        self.menu = menu

    def enabled(self, canon, hist):
        its = canon[0]
        for op in self.menu:
            if op[0] in ("of", "upto", "first") and len(its) >= self.MAXIT:
                continue
            if op[0] == "next" and (op[1] >= len(its) or its[op[1]][-1]):
                continue
            yield op

    # expected answer of is_subclass (None = undetermined within horizon, with known-finding sig)
    def sub_expect(self, h1, h2):
        la, lb = self.lv[h1], self.lv[h2]
        refuted = any(not la[n] <= lb[n] for n in range(len(la)))
        return refuted

    def build(self, hist):
        Av, Perm = _lib()
        Av.clear_cache()
        objs = []                      # every Av object created in this history

        def construct(h):
            av = Av.from_iterable([A.mk(d) for d in self.b[h]])
            for i, o in enumerate(objs):
                if o is av:
                    return i
            objs.append(av)
            return len(objs) - 1

        handle = {"A": construct("A"), "B": construct("B")}
        its = []     # [kind, param, iterator, yielded list, done]
        viols = []
        last = len(hist) - 1
        for hi, op in enumerate(hist):
            v = None
            try:
                kind = op[0]
                if kind == "count":
                    got = objs[handle[op[1]]].count(op[2])
                    exp = len(self.lv[op[1]][op[2]])
                    if got != exp:
                        v = {"op": op, "expected": exp, "got": got}
                elif kind == "list":
                    got = [tuple(p) for p in objs[handle[op[1]]].of_length(op[2])]
                    exp = sorted(self.lv[op[1]][op[2]])
                    if sorted(got) != exp or len(set(got)) != len(got):
                        v = {"op": op, "expected": exp, "got": got}
                elif kind == "in":
                    p = self.probes[op[2]]
                    got = Perm(p) in objs[handle["A"]]
                    exp = p in self.lv["A"][len(p)]
                    if got != exp:
                        v = {"op": op, "perm": p, "expected": exp, "got": got}
                elif kind in ("of", "upto", "first"):
                    av = objs[handle["A"]]
                    it = {"of": av.of_length, "upto": av.up_to_length, "first": av.first}[kind](op[1])
                    its.append([kind, op[1], iter(it), [], False])
                elif kind == "next":
                    rec = its[op[1]]
                    v = self._advance(rec, op)
                elif kind == "sub":
                    got = objs[handle[op[1]]].is_subclass(objs[handle[op[2]]])
                    refuted = self.sub_expect(op[1], op[2])
                    if not self.mesh[op[1]] and not self.mesh[op[2]]:
                        if got != (not refuted):
                            v = {"op": op, "expected": not refuted, "got": got}
                    elif got is True and refuted:
                        if self.mesh[op[2]]:
                            sig = SIG_F3A
                        else:
                            dev = all(b not in self.lv[op[1]][len(b)]
                                      for b in _minimal_classical(self.b[op[2]]))
                            sig = SIG_F3B if dev else None
                        v = {"op": op, "expected": False, "got": True, "_sig": sig}
                elif kind == "clear":
                    Av.clear_cache()
                elif kind == "renew":
                    handle[op[1]] = construct(op[1])
            except Exception as exc:  # noqa
                import traceback
                v = {"op": op, "exception": repr(exc),
                     "where": traceback.format_exc().splitlines()[-4:]}
            if v is not None and hi == last:
                viols.append(v)
        canon = self._canon(objs, handle, its, hist)
        # read-back: every iterator still alive is drained to the end (the state is rebuilt from
        # its history for every transition, so consuming it here disturbs nothing); whatever
        # it yields must complete an admissible answer
        for i, rec in enumerate(its):
            steps = 0
            while not rec[4] and steps < 400:
                steps += 1
                try:
                    v = self._advance(rec, ("drain", i))
                except Exception as exc:  # noqa
                    import traceback
                    v = {"op": ("drain", i), "exception": repr(exc),
                         "where": traceback.format_exc().splitlines()[-4:]}
                    rec[4] = True
                if v is not None:
                    v["after_history_drain_of_iterator"] = [rec[0], rec[1]]
                    viols.append(v)
                    break
        return canon, viols

    def _advance(self, rec, op):
        kind, param, it, got, _done = rec
        lv = self.lv["A"]
        mesh = self.mesh["A"]
        if kind == "of":
            levels, k, lo = [frozenset()] * param + [lv[param]], None, param
        elif kind == "upto":
            levels, k = lv[:param + 1], None
        else:
            levels, k = lv, param
        try:
            x = tuple(next(it))
        except StopIteration:
            rec[4] = True
            if kind == "of":
                ok = len(got) == len(lv[param])
            elif kind == "upto":
                ok = len(got) == sum(len(s) for s in levels)
            else:
                ok = first_ok(got, levels, k, False)
                if not ok and mesh and first_ok(got, levels, k, True):
                    return {"op": op, "iterator": [kind, param], "yielded": list(got),
                            "got": "StopIteration", "_sig": SIG_F1}
            if not ok:
                return {"op": op, "iterator": [kind, param], "yielded": list(got),
                        "got": "StopIteration"}
            return None
        got.append(x)
        # prefix admissibility: duplicate free, graded, members
        ok = len(set(got)) == len(got) and [len(p) for p in got] == sorted(len(p) for p in got)
        if ok:
            for n in range(len(x)):
                if kind != "of" and n < len(levels) and {p for p in got if len(p) == n} != set(levels[n]):
                    ok = False
            ok = ok and len(x) < len(levels) and x in levels[len(x)]
            if kind == "first" and len(got) > k:
                ok = False
        if not ok:
            return {"op": op, "iterator": [kind, param], "yielded": list(got)}
        return None

    def _canon(self, objs, handle, its, hist):
        Av, _ = _lib()
        try:
            caches = tuple(
                tuple(tuple((tuple(p), None if v is None else tuple(v)) for p, v in lvl.items())
                      for lvl in o.cache)
                for o in objs)
            cc = getattr(Av, "_CLASS_CACHE", None)
            ccs = tuple(sorted((repr(k), [i for i, o in enumerate(objs) if o is v][:1].__repr__())
                               for k, v in cc.items())) if isinstance(cc, dict) else None
        except Exception:  # noqa  (refactored internals: fall back to the history = no merging)
            return (tuple((r[0], r[1], tuple(r[3]), r[4]) for r in its), ("hist",) + tuple(hist))
        return (tuple((r[0], r[1], tuple(r[3]), r[4]) for r in its),
                caches, tuple(sorted(handle.items())), ccs,
                module_state(["permuta.perm_sets.permset", "permuta.perm_sets.basis"]))


HISTORY_BASES = [
    # (basis A, basis B, NH)
    ([("c", (0, 1, 2))], [("c", (0, 1))], 4),
    ([("c", (0, 2, 1)), ("c", (0, 1, 2, 3))], [("c", (0, 2, 1))], 4),
    ([("c", (0, 1, 2)), ("c", (2, 1, 0))], [("c", (0, 1, 2))], 4),          # finite class
    ([("c", (1, 0))], [("c", (0,))], 3),                                       # very short elements
    ([("c", (0, 1, 3, 2)), ("c", (2, 1, 0, 3))], [("c", (1, 0, 2))], 4),       # only length 4
    ([("c", (1, 2, 0)), ("c", (2, 0, 3, 1)), ("c", (0, 1, 2, 3, 4))], [("c", (1, 2, 0))], 5),
    ([("m", (0, 1), ((1, 1),))], [("c", (0, 1))], 4),                          # mesh basis
    ([("m", (0,), ((0, 0), (0, 1), (1, 0), (1, 1)))], [("c", (0, 1))], 3),     # mesh, gap at 1
    ([("v", (0, 1, 2), (1,)), ("c", (2, 1, 0))], [("c", (2, 1, 0))], 4),       # mixed
]


def shard_history(shard):
    idx, depth = shard
    bA, bB, NH = HISTORY_BASES[idx]
    part = Partial()
    model = ClassHistory(bA, bB, NH)
    warm = [(), (("count", "A", NH),), (("list", "A", 2), ("upto", NH), ("next", 0)),
            (("in", "A", len(model.probes) - 1),), (("first", model.first_k), ("next", 0))]

    def on_violation(hist, v):
        sig = v.pop("_sig", None) if isinstance(v, dict) else None
        part.violation("history", {"A": bA, "B": bB, "NH": NH, "history": list(hist)}, v, sig=sig)

    st = bfs(warm, model.menu, model.build, depth, on_violation, enabled=model.enabled)
    part.add(st.transitions, 0)
    part.sample({"A": bA, "B": bB, "history": st.sample_histories[-1] if st.sample_histories else []},
                cap=1)
    return part, (st.states, st.transitions)


# --------------------------------------------------------------------------------------------

# --------------------------------------------------------------------------------------------
# forms: the same basis handed over in every argument form
# --------------------------------------------------------------------------------------------
# The class is a function of the SET of patterns: whether they arrive as a list, a tuple, a set, a
# Basis object or a one-shot iterator (generator, iter(), map()), in whatever order and with
# repetitions, through Av(...) or Av.from_iterable(...), the levels must be the reference levels.

FORMS = ("list", "tuple", "iter", "generator", "map", "frozenset", "dup-list", "dup-iter", "basis-object")
ENTRIES = ("Av", "from_iterable")


def _in_form(objs, form):
    if form == "list":
        return list(objs)
    if form == "tuple":
        return tuple(objs)
    if form == "iter":
        return iter(list(objs))
    if form == "generator":
        return (o for o in objs)
    if form == "map":
        return map(lambda o: o, objs)
    if form == "frozenset":
        return frozenset(objs)
    if form == "dup-list":
        return list(objs) + list(objs)[:1]
    if form == "dup-iter":
        return iter(list(objs) + list(objs)[:1])
    if form == "basis-object":
        from permuta.perm_sets.basis import Basis, MeshBasis
        return MeshBasis(*objs) if MeshBasis.is_mesh_basis(objs) else Basis(*objs)
    raise ValueError(form)


def check_form(part, descs, form, entry, N):
    Av, Perm = _lib()
    descs = [A.norm(d) for d in descs]
    levels = ref_levels(descs, N)
    case = {"basis": descs, "form": form, "entry": entry, "N": N}
    try:
        Av.clear_cache()
        arg = _in_form([A.mk(d) for d in descs], form)
        av = Av(arg) if entry == "Av" else Av.from_iterable(arg)
        got_c = [av.count(n) for n in range(N + 1)]
        got_l = [sorted(tuple(p) for p in av.of_length(n)) for n in range(N + 1)]
    except Exception as exc:  # noqa
        part.violation("forms", case, {"exception": repr(exc)})
        return
    exp_c = [len(lv) for lv in levels]
    exp_l = [sorted(lv) for lv in levels]
    if got_c != exp_c:
        part.violation("forms", case, {"observer": "count", "expected": exp_c, "got": got_c})
    elif got_l != exp_l:
        n = next(i for i in range(N + 1) if got_l[i] != exp_l[i])
        part.violation("forms", case, {"observer": "of_length(%d)" % n, "expected": exp_l[n],
                                       "got": got_l[n]})


def shard_forms(shard):
    lists, N = shard
    part = Partial()
    for descs in lists:
        levels = ref_levels(descs, N)
        tot = sum(len(lv) for lv in levels)
        for form in FORMS:
            for entry in ENTRIES:
                check_form(part, descs, form, entry, N)
                part.add(1, 1 if 0 < tot < sum(_fact(n) for n in range(N + 1)) else 0)
    return part


def forms_pool(quick):
    """Ordered lists: every order of 1..3 patterns from a small mixed pool (classical of length
    1..3 and two of length 4, mesh, vincular, covincular, bivincular), so that a mesh-type pattern
    stands first, in the middle and last."""
    cl = [("c", p) for p in [(0,), (0, 1), (1, 0), (0, 1, 2), (0, 2, 1), (2, 1, 0), (1, 2, 0)]]
    cl4 = [("c", (1, 3, 0, 2)), ("c", (3, 2, 1, 0))]
    me = [("m", (1, 0), ((1, 1),)), ("m", (0, 2, 1), ((0, 0), (3, 3))), ("v", (0, 1), (1,)),
          ("co", (1, 0), (1,)), ("b", (0, 1), (1,), (1,)), ("m", (0,), ((0, 0),))]
    pool = cl + cl4 + me
    out = [[d] for d in pool]
    out += [list(t) for t in itertools.permutations(pool, 2)]
    small = cl[1:6] + me[:4]
    out += [list(t) for t in itertools.permutations(small if quick else pool[1:], 3)
            if any(A.is_mesh(d) for d in t)]
    return out


# --------------------------------------------------------------------------------------------
# abort: a query interrupted at every possible point, then read back
# --------------------------------------------------------------------------------------------
# "Whatever was asked before" includes a query that did not finish: Ctrl-C during count(15), an
# exception out of a caller's loop body.  Environment deviation, bound 1: for one query q on a
# class (fresh, or warmed by an earlier query) and for EVERY k, an exception (a BaseException, like
# KeyboardInterrupt) is raised at the k-th entry into a Python function of the package during q;
# afterwards the class must answer every observer exactly (read-back against the reference) and
# must not hang (a lock left held).  k runs up to the number of such entries of the undisturbed q.

class _Abort(BaseException):
    pass


def _run_with_abort(fn, k, root):
    """Run fn(); raise _Abort at the k-th 'call' event of a frame whose code lives under root
    (k=None: never).  Returns (finished?, number of such events seen)."""
    seen = [0]

    def tracer(frame, event, arg):
        if event == "call" and frame.f_code.co_filename.startswith(root):
            seen[0] += 1
            if seen[0] == k:
                sys.settrace(None)
                raise _Abort()
        return None

    sys.settrace(tracer)
    try:
        fn()
        return True, seen[0]
    except _Abort:
        return False, seen[0]
    finally:
        sys.settrace(None)


ABORT_QUERIES = (("count", 5), ("count", 4), ("list", 4), ("in", 4), ("upto", 3), ("first", 9), ("new", 0))


def _abort_query(av, q, Perm):
    kind, n = q
    if kind == "count":
        av.count(n)
    elif kind == "list":
        list(av.of_length(n))
    elif kind == "in":
        Perm(tuple(range(n))) in av          # noqa - the query is the point
        Perm(tuple(reversed(range(n)))) in av  # noqa
    elif kind == "upto":
        list(av.up_to_length(n))
    elif kind == "first":
        list(av.first(n))


def shard_abort(shard):
    descs, warm, q, N = shard[:4]
    part_i, nparts = shard[4:] if len(shard) > 4 else (0, 1)
    import signal
    Av, Perm = _lib()
    part = Partial()
    descs = [A.norm(d) for d in descs]
    levels = ref_levels(descs, N)
    exp_c = [len(lv) for lv in levels]
    exp_l = [sorted(lv) for lv in levels]
    root = os.path.join(os.path.abspath(REPO), "permuta") + os.sep

    def fresh():
        Av.clear_cache()
        av = Av.from_iterable([A.mk(d) for d in descs])
        if warm is not None:
            av.count(warm)
        return av

    construct = q[0] == "new"      # the aborted operation is the construction of the class itself

    def attempt(k):
        if construct:
            Av.clear_cache()
            objs = [A.mk(d) for d in descs]
            return None, _run_with_abort(lambda: Av.from_iterable(objs), k, root)
        av0 = fresh()
        return av0, _run_with_abort(lambda: _abort_query(av0, q, Perm), k, root)

    _, (_, total) = attempt(None)

    def on_alarm(signum, frame):
        raise TimeoutError("read-back did not finish within 20 s")

    old = signal.signal(signal.SIGALRM, on_alarm)
    old_hook = sys.unraisablehook
    # an injection that lands in the finalisation of an abandoned generator is reported by the
    # interpreter as "Exception ignored in ..." - expected here, not worth a line on stderr
    sys.unraisablehook = lambda unraisable: None
    try:
        for k in range(1 + part_i, total + 1, nparts):
            case = {"basis": descs, "warm": warm, "query": list(q), "abort_at_call": k, "N": N}
            av, (finished, _) = attempt(k)
            signal.alarm(20)
            try:
                if av is None:
                    av = Av.from_iterable([A.mk(d) for d in descs])
                got_c = [av.count(n) for n in range(N + 1)]
                got_l = [sorted(tuple(p) for p in av.of_length(n)) for n in range(N + 1)]
                got_in = [sorted(p for p in R.perms(n) if Perm(p) in av) for n in range(min(N, 4) + 1)]
                again = Av.from_iterable([A.mk(d) for d in descs])
                got_c2 = [again.count(n) for n in range(N + 1)]
            except TimeoutError as exc:
                part.violation("abort", case, {"hang": str(exc)})
                signal.alarm(0)
                continue
            except Exception as exc:  # noqa
                signal.alarm(0)
                part.violation("abort", case, {"exception_in_read_back": repr(exc)})
                continue
            signal.alarm(0)
            part.add(1, 0 if finished else 1)
            if got_c != exp_c or got_c2 != exp_c:
                part.violation("abort", case, {"observer": "count", "expected": exp_c,
                                               "got": got_c, "got_from_Av_again": got_c2})
            elif got_l != exp_l:
                n = next(i for i in range(N + 1) if got_l[i] != exp_l[i])
                part.violation("abort", case, {"observer": "of_length(%d)" % n,
                                               "expected": exp_l[n], "got": got_l[n]})
            elif got_in != exp_l[:len(got_in)]:
                part.violation("abort", case, {"observer": "in", "got": got_in})
    finally:
        signal.signal(signal.SIGALRM, old)
        sys.unraisablehook = old_hook
    if part_i == 0:
        part.bump("abort_points", total)
    return part


def mesh_pool_small():
    """Pool for pairs: Mesh<=1 (all), length-2 shadings with <=1 or >=8 cells, all Biv/Vinc/Covinc of
    length <=1 and the single-requirement ones of length 2, classical S1..S3."""
    pool = []
    pool += A.mesh_all(0) + A.mesh_all(1)
    for p in R.perms(2):
        for sh in R.all_shadings(2):
            if len(sh) <= 1 or len(sh) >= 8:
                pool.append(("m", p, tuple(sorted(sh))))
    for p in R.perms(2):
        for i in range(3):
            pool.append(("v", p, (i,)))
            pool.append(("co", p, (i,)))
            pool.append(("b", p, (i,), (i,)))
    pool += [("c", p) for n in (1, 2, 3) for p in R.perms(n)]
    return pool


def run(ctx, only=None):
    global PROF

    def want(name):
        return only is None or name in only

    quick = ctx.quick
    ctx.rule = ("E1: every basis of the stated families x 3 request orders x all observers "
                "(count, of_length, in, enumeration, up_to_length, first(k), is_subclass) against "
                "reference levels; non-trivial = class neither empty nor everything at the top "
                "length; E2: BFS states of real Av objects under query/iterator/clear/renew histories")
    ctx.assumptions = ["reference levels from mc/refmodel.py (pattern profiles cross-checked with the "
                       "naive definition in the selftest; mesh classes by definitional filter)",
                       "levels compared as duplicate-free sets; order within a length is not demanded"]
    N = 6 if quick else 7
    PROF = R.Profiles(8 if not quick else 6, 4)

    def chunk(lst, k):
        return [lst[i:i + k] for i in range(0, len(lst), k)]

    if want("classical"):
        e0 = ctx.evals
        pool3 = [p for n in (1, 2, 3) for p in R.perms(n)]
        fam_small = [b for r in range(1, 10) for b in itertools.combinations(pool3, r)]   # 511
        fam24 = R.bases(2, 4)                                                              # 561
        fams = [(fam_small, N, (0, 1, 2, 3)), (fam24, N, (0, 1, 2, 3))]
        if not quick:
            fams.append((R.bases(3, 4), 7, (0, 1, 3)))
            reps = sorted({R.sym_class_rep(b) for b in fam24})
            fams.append((reps, 8, (2,)))
        shards = []
        for fam, n, variants in fams:
            shards += [(c, n, variants) for c in chunk(fam, 12 if n <= 7 else 3)]
        ctx.pmap(shard_classical, shards)
        ctx.bounds["classical"] = [{"bases": len(f), "levels": n, "request_orders": list(v)}
                                   for f, n, v in fams]
        ctx.section("classical", evaluations=ctx.evals - e0)
    if want("deep"):
        e0 = ctx.evals
        # the downward-closure reference must agree with the profile table where both exist
        for b in ([(0, 1, 2)], [(1, 2, 0), (2, 0, 1)], [(0, 2, 1), (3, 2, 1, 0)], [(0,)], [(1, 0)]):
            assert downset_levels(b, 6) == ref_levels([("c", x) for x in b], 6), b
        s3 = R.perms(3)
        pairs3 = list(itertools.combinations(s3, 2))
        with4 = [[(0, 2, 1), (3, 2, 1, 0)], [(1, 2, 0), (3, 0, 1, 2)], [(0, 1, 2), (2, 1, 0, 3)],
                 [(1, 0, 2), (0, 3, 2, 1)]]
        plan = [([p], 11) for p in s3] + [(list(pr), 12) for pr in pairs3] + \
               [(b, 10) for b in with4]
        if not quick:
            plan += [([p], 12) for p in s3] + [(list(pr), 13) for pr in pairs3] + \
                    [(list(t), 13) for t in itertools.combinations(s3, 3)] + \
                    [([p], 9) for p in R.perms(4)] + [(b, 12) for b in with4]
        shards = [(b, n, v) for b, n in plan for v in (0, 1)]
        shards.sort(key=lambda t: -t[1])      # the big ones first
        ctx.pmap(shard_deep, shards)
        ctx.bounds["deep"] = {"bases": len(plan), "levels": sorted({n for _, n in plan}),
                              "request_orders": 2,
                              "reference": "downward-closure construction (cross-checked with the "
                                           "profile table to length 6)"}
        ctx.section("deep", evaluations=ctx.evals - e0)
    if want("mesh"):
        e0 = ctx.evals
        NM = 4 if quick else 5
        singles = [[d] for d in A.mesh_all(0) + A.mesh_all(1) + A.mesh_all(2)]
        singles += [[d] for d in A.biv_all(1) + A.biv_all(2)]
        pool = mesh_pool_small()
        pairs = [[a, b] for a, b in itertools.combinations(pool, 2)
                 if A.is_mesh(a) or A.is_mesh(b)]
        if quick:
            pairs = [pr for pr in pairs if len(pr[0][1]) + len(pr[1][1]) <= 3]
        shards = [(c, NM, (0, 2)) for c in chunk(singles, 40)]
        shards += [(c, NM, (1,)) for c in chunk(pairs, 60)]
        ctx.pmap(shard_mesh, shards)
        ctx.bounds["mesh"] = {"singles": len(singles), "pairs": len(pairs), "levels": NM}
        ctx.section("mesh", evaluations=ctx.evals - e0)
    if want("forms"):
        e0 = ctx.evals
        lists = forms_pool(quick)
        ctx.pmap(shard_forms, [(c, 4) for c in chunk(lists, 12)])
        ctx.bounds["forms"] = {"ordered_lists": len(lists), "forms": list(FORMS),
                               "entries": list(ENTRIES), "levels": 4}
        ctx.section("forms", evaluations=ctx.evals - e0)
    if want("abort"):
        e0 = ctx.evals
        ab_bases = [[("c", (0, 1, 2))], [("c", (0, 2, 1)), ("c", (0, 1, 2, 3))],
                    [("c", (0, 1, 2)), ("c", (1, 0))], [("m", (0, 1), ((1, 1),))],
                    [("m", (1, 0), ((0, 0), (2, 2))), ("c", (0, 1, 2))]]
        if not quick:
            ab_bases += [[("c", (1, 2, 0)), ("c", (2, 0, 1))], [("v", (0, 1, 2), (1,))],
                         [("c", (1, 3, 0, 2)), ("c", (2, 0, 3, 1))]]
        NP = 4
        # first(k) on a mesh class with one member per length would need level k: keep it shallow
        shards = [(b, warm, (("first", 3) if q[0] == "first" and any(A.is_mesh(d) for d in b) else q),
                   5, i, NP) for b in ab_bases for warm in (None, 3)
                  for q in (ABORT_QUERIES[1:] if quick else ABORT_QUERIES) for i in range(NP)]
        ctx.pmap(shard_abort, shards)
        ctx.bounds["abort"] = {"bases": len(ab_bases), "queries": [list(q) for q in ABORT_QUERIES],
                               "start_states": ["fresh", "count(3) asked before"],
                               "injection": "exception at the k-th entry into a Python function of the "
                                            "package during the query, every k",
                               "read_back_levels": 5,
                               "injection_points": ctx.counters.get("abort_points", 0)}
        ctx.section("abort", evaluations=ctx.evals - e0,
                    injection_points=ctx.counters.get("abort_points", 0))
    if want("subclass"):
        e0 = ctx.evals
        pool = [[("c", p)] for n in (1, 2, 3) for p in R.perms(n)]
        pool += [[("c", a), ("c", b)] for a, b in itertools.combinations(
            [p for n in (2, 3) for p in R.perms(n)], 2)]
        pool += [[("c", p)] for p in R.perms(4)[::2 if quick else 1]]
        pool += [[("c", (0, 1, 2, 3)), ("c", (2, 1, 0))], [("c", (0, 2, 1, 3)), ("c", (1, 0, 3, 2))]]
        pool += [[d] for d in A.mesh_all(1)[::3]]
        pool += [[("m", (0, 1), ((1, 1),))], [("v", (0, 1, 2), (1,))], [("co", (1, 0), (1,))],
                 [("m", (0,), ((0, 0), (0, 1), (1, 0), (1, 1)))],
                 [("m", (1, 0), ((0, 0), (2, 2))), ("c", (0, 1, 2))]]
        rows = list(range(len(pool)))
        ctx.pmap(shard_subclass, [(pool, rows[i::16], 4) for i in range(16)])
        ctx.bounds["subclass"] = {"pool": len(pool), "ordered_pairs": len(pool) ** 2, "horizon": 4}
        ctx.section("subclass", evaluations=ctx.evals - e0)
    if want("history"):
        depth = 3 if quick else 4
        res = ctx.pmap(shard_history, [(i, depth) for i in range(len(HISTORY_BASES))])
        ctx.states = sum(r[0] for r in res)
        ctx.transitions = sum(r[1] for r in res)
        ctx.traces = ctx.transitions
        ctx.bounds["history"] = {"depth": depth, "bases": len(HISTORY_BASES),
                                 "live_iterators": ClassHistory.MAXIT,
                                 "initial_states": ["fresh", "pre-warmed to NH",
                                                    "up_to_length iterator in flight",
                                                    "membership first", "first() iterator in flight"],
                                 "read_back": "every live iterator is drained after every history"}
        ctx.section("history", states=ctx.states, transitions=ctx.transitions)


def replay(ctx, rec):
    global PROF
    if PROF is None:
        PROF = R.Profiles(6, 4)
    sub, case = rec["sub"], rec["case"]
    if sub == "class":
        check_class(ctx, case["basis"], case["N"], case["variant"], in_upto=case["N"])
    elif sub == "abort":
        part = shard_abort((case["basis"], case["warm"], tuple(case["query"]), case["N"]))
        for v in part.viols:
            if v["case"]["abort_at_call"] == case["abort_at_call"]:
                ctx.violation(v["sub"], v["case"], v["detail"], sig=v["sig"])
    elif sub == "forms":
        check_form(ctx, case["basis"], case["form"], case["entry"], case["N"])
    elif sub == "deep":
        part = shard_deep(([tuple(d[1]) for d in case["basis"]], case["N"], case["variant"]))
        for v in part.viols:
            ctx.violation(v["sub"], v["case"], v["detail"], sig=v["sig"])
    elif sub == "subclass":
        pool = [[A.norm(d) for d in case["self"]], [A.norm(d) for d in case["other"]]]
        part = shard_subclass((pool, [0], 4))
        for v in part.viols:
            if [A.norm(d) for d in v["case"]["other"]] == pool[1] and \
                    [A.norm(d) for d in v["case"]["self"]] == pool[0]:
                ctx.violation(v["sub"], v["case"], v["detail"], sig=v["sig"])
    elif sub == "history":
        model = ClassHistory(case["A"], case["B"], case["NH"])
        hist = tuple(tuple(op) for op in case["history"])
        for i in range(1, len(hist) + 1):
            _, viols = model.build(hist[:i])
            if viols:
                v = viols[0]
                sig = v.pop("_sig", None)
                ctx.violation("history", case, v, sig=sig)
                break
    else:
        raise ValueError(sub)
