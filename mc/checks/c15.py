"""C15 - the basis automaton accepts exactly the pin sequences containing a basis element.

E4 (model checking of automata): the automaton the library builds is the MODEL; every word of the
pin-sequence language M up to a length bound is replayed against the implementation-independent
geometric semantics (decode the pin sequence by ordered insertion, test containment by
combinations); automata are compared with each other by breadth-first search over the reachable
product states (exact language equality); finiteness of M \\ L(basis) is decided by an own cycle
search on the product and compared with `has_finite_pinperms` and with the (prefix-closed) tree
of basis-avoiding pin sequences; a small E2 history search covers the on-disk database and the
lru_cache in front of it.

Sub-checks (names usable with --only):
  mlang     make_dfa_for_m  ==  alternating words (all words of length <= 6 + exact product BFS)
  conform   per basis: trace conformance of make_dfa_for_basis, equivalence of the database /
            per-permutation routes, finiteness verdicts            (violations: conform, equiv,
            finite, construct)
  pinword   per pin word u: every accepted M-word really contains perm(u)  (soundness of the
            per-word automaton, the level at which a wrong factor automaton is visible even if
            another pin word of the same permutation would mask it)
  history   BFS over histories of database / cache operations
  wordauto  make_dfa_for_pinword(u) == own automaton of A* f(u1) A* ... A* == determinised
            make_nfa_for_pinword(u), exactly on M, for every strict pin word up to length 10/13 and
            every pin word of the pinword sub-check
  forms     the same basis as list / tuple / set / frozenset / one-shot iterators / Basis / reversed /
            with a repeated element / by keyword, through every entry point
  fresh     the list returned by pinwords_for_basis is damaged in place, everything asked again
            (VERIF_C15_FRESH_TABLES=1 also damages the tables returned by the *_mapping functions;
            off by default: the current tree hands out its cached tables, see the report)
  abort     a BaseException at every k-th call event inside an operation, then read-back of automata
            and verdicts; every truncation of a stored automaton text (violations: abort, truncate)
"""
from __future__ import annotations

import itertools
import json
import os
import shutil

from .. import refmodel as R
from .. import ref_c15 as F
from ..core import Partial
from ..explore import bfs

PROPERTY = "C15"
LEVEL = "model_checking"


def _PW():
    from permuta.permutils.pin_words import PinWords
    return PinWords


def _P():
    from permuta import Perm
    return Perm


def _clear(func):
    """Empty an lru_cache if the function has one (a refactoring may remove it)."""
    getattr(func, "cache_clear", lambda: None)()


# --------------------------------------------------------------------------------------------
# the semantic table: for every M-word up to a length bound, which patterns its permutation
# contains (bitmask).  Built once (sharded over the 64 prefixes of length 5), inherited by fork.
# --------------------------------------------------------------------------------------------

BIT = {}          # pattern -> bit
KLEN = {}         # pattern length k -> largest word length for which patterns of length k are tracked
TABLE = {}        # M-word (length >= 2) -> mask
WORDS = {}        # length -> list of M-words
WORK = None       # scratch directory (ctx.work)
PREFIX_LEN = 5


def setup_bits(long_patterns):
    BIT.clear()
    i = 0
    for k in range(0, 5):
        for p in R.perms(k):
            BIT[p] = 1 << i
            i += 1
    for p in sorted(set(long_patterns), key=lambda q: (len(q), q)):
        if p not in BIT:
            BIT[p] = 1 << i
            i += 1


def maxk_for_length(n):
    """Largest pattern length tracked for words of length n."""
    best = 0
    for k, lim in KLEN.items():
        if n <= lim and k > best:
            best = k
    return best


def mask_of(pats):
    m = 0
    for p in pats:
        b = BIT.get(p)
        if b:
            m |= b
    return m


def state_of_word(word):
    st = F.PinState()
    for c in F.m_to_pinword(word):
        st.push(c)
    return st


def child(st, mask, char, n):
    """Pin state and mask of the word (of length n) obtained by appending char."""
    st2 = st.copy()
    st2.push(char)
    t = st2.perm()
    k = maxk_for_length(n)
    return st2, mask | mask_of(F.patterns_through(t, st2.index_of_last(), k))


def next_letters(word):
    return F.HORI if word[-1] in F.VERT else F.VERT


def table_prefixes(upto):
    """Words of length 2..upto with their (state, mask), computed from scratch letter by letter."""
    out = {}
    level = []
    for w in F.m_words(2):
        st = state_of_word(w)
        t = st.perm()
        m = BIT[()] | mask_of(F.patterns_through(t, 0, maxk_for_length(2)))
        level.append((w, st, m))
    n = 2
    while True:
        for w, st, m in level:
            out[w] = (st, m)
        if n >= upto:
            break
        n += 1
        nxt = []
        for w, st, m in level:
            for c in next_letters(w):
                st2, m2 = child(st, m, c, n)
                nxt.append((w + c, st2, m2))
        level = nxt
    return out


def shard_table(shard):
    """All M-words extending one prefix (exclusive), depth first, up to length L."""
    prefix, L, st_xs, st_ys, mask = shard
    part = Partial()
    out = {}
    stack = [(prefix, F.PinState(st_xs, st_ys), mask)]
    while stack:
        w, st, m = stack.pop()
        n = len(w) + 1
        if n > L:
            continue
        for c in next_letters(w):
            st2, m2 = child(st, m, c, n)
            w2 = w + c
            out[w2] = m2
            if n <= 8:
                selfcheck_word(w2, m2)
            stack.append((w2, st2, m2))
    return part, out


def selfcheck_word(word, mask):
    """The incrementally maintained profile equals the definition (harness self-test: a failure
    here is a harness error, never a verdict about the library)."""
    t = F.decode_m_word(word)
    k = maxk_for_length(len(word))
    for p, b in BIT.items():
        if len(p) <= k:
            if bool(mask & b) != F.contains(t, p):
                raise AssertionError("semantic table self-check failed on %r / %r" % (word, p))


def build_table(ctx, L, klen, long_patterns):
    global WORK
    WORK = ctx.work
    setup_bits(long_patterns)
    KLEN.clear()
    KLEN.update(klen)
    TABLE.clear()
    WORDS.clear()
    pre = table_prefixes(min(PREFIX_LEN, L))
    for w, (st, m) in pre.items():
        TABLE[w] = m
        selfcheck_word(w, m)
    if L > PREFIX_LEN:
        shards = [(w, L, tuple(st.xs), tuple(st.ys), m) for w, (st, m) in sorted(pre.items())
                  if len(w) == PREFIX_LEN]
        for out in ctx.pmap(shard_table, shards):
            TABLE.update(out)
    for n in range(2, L + 1):
        WORDS[n] = F.m_words(n)
        assert all(w in TABLE for w in WORDS[n])
    assert len(TABLE) == sum(len(v) for v in WORDS.values())


# --------------------------------------------------------------------------------------------
# library automaton -> plain automaton
# --------------------------------------------------------------------------------------------

def to_plain(dfa):
    delta = {s: dict(tr) for s, tr in dfa.transitions.items()}
    return F.Plain(dfa.initial_state, set(dfa.final_states), delta)


def sem_contains(basis, word):
    """Definition, no table: does the permutation of the M-word contain a basis element?"""
    t = F.decode_m_word(word)
    return any(F.contains(t, tuple(p)) for p in basis)


def fresh_dir(name):
    d = os.path.join(WORK, name)
    shutil.rmtree(d, ignore_errors=True)
    os.makedirs(d)
    os.chdir(d)
    return d


# --------------------------------------------------------------------------------------------
# the avoiding tree (prefix closed) straight from the semantics, without the table
# --------------------------------------------------------------------------------------------

def avoiding_tree(basis, depth, stop_at_first_deep=False, node_cap=None):
    """Numbers of basis-avoiding M-words by length 2..depth (only avoiding words are extended:
    a word whose permutation contains a basis element has only such extensions).
    Returns (counts dict, one deepest avoiding word, capped?)."""
    bset = {tuple(p) for p in basis}
    k = max((len(p) for p in bset), default=0)
    counts = {n: 0 for n in range(2, depth + 1)}
    deepest = None
    nodes = 0
    stack = []
    if () in bset:
        return counts, None, False
    for w in reversed(F.m_words(2)):
        st = state_of_word(w)
        t = st.perm()
        if not any(F.contains(t, p) for p in bset):
            stack.append((w, st))
    while stack:
        w, st = stack.pop()
        nodes += 1
        counts[len(w)] += 1
        if deepest is None or len(w) > len(deepest):
            deepest = w
            if stop_at_first_deep and len(w) == depth:
                return counts, deepest, False
        if node_cap is not None and nodes >= node_cap:
            return counts, deepest, True
        if len(w) == depth:
            continue
        for c in reversed(next_letters(w)):
            st2 = st.copy()
            st2.push(c)
            t = st2.perm()
            if not (F.patterns_through(t, st2.index_of_last(), k) & bset):
                stack.append((w + c, st2))
    return counts, deepest, False


# --------------------------------------------------------------------------------------------
# per basis: conformance, equivalence, finiteness
# --------------------------------------------------------------------------------------------

MAXV_PER_BASIS = 1


def check_basis(part, basis, L, tag, semantic="table", deep=0, full_scratch_verdict=False,
                only_sub=None, light=False):
    """basis: list of tuples.  L: word length bound for the semantic comparison.
    semantic: "table" (trace conformance against the prepared table; the run), "tree" (only the
    avoiding tree, for replaying a finiteness case) or None (no semantics: equivalence replay).
    light: only the from-scratch automaton (trace conformance + finiteness with dfa=given); the
    database routes are left to the other bases (used for the 120 single patterns of length 5 in
    the quick tier, where each further route would cost one more construction)."""
    PW, Perm = _PW(), _P()
    basis = [tuple(p) for p in basis]
    B = [Perm(p) for p in basis]
    case0 = {"basis": basis, "L": L, "deep": deep, "full": full_scratch_verdict}
    if light:
        case0["light"] = True
    fresh_dir(tag)
    _clear(PW.load_dfa_for_perm)
    if BASE_ATTRS is not None:
        # every basis starts from the pristine module/class attributes, so that a recorded case
        # is self-contained; state leaking between calls is the business of the history search
        _restore_attrs(BASE_ATTRS)
    try:
        A = PW.make_dfa_for_basis(list(B))
        PA = to_plain(A)
    except Exception as exc:  # noqa
        part.violation("construct", dict(case0, route="make_dfa_for_basis"), {"exception": repr(exc)})
        return
    st_total = 0

    # ---- (i) trace conformance: every M-word of length 2..L ---------------------------------
    avoid = {}
    if semantic == "table":
        bmask = mask_of(basis)
        assert all(p in BIT for p in basis)
        nv = 0
        traces = 0
        nontriv = 0
        for n in range(2, L + 1):
            words = WORDS[n]
            acc = 0
            for w in words:
                sem = bool(TABLE[w] & bmask)
                try:
                    got = A.accepts_input(w)
                except Exception as exc:  # noqa
                    got = repr(exc)
                if got is not sem and nv < MAXV_PER_BASIS:
                    nv += 1
                    part.violation("conform", dict(case0, word=w, route="make_dfa_for_basis"),
                                   {"expected_accept": sem, "got": got,
                                    "perm_of_word": F.decode_m_word(w)})
                if sem:
                    acc += 1
            avoid[n] = len(words) - acc
            traces += len(words)
            if 0 < acc < len(words):
                nontriv += len(words)
        part.add(traces, nontriv)
        part.bump("traces", traces)
    elif semantic == "tree":
        avoid, _, _ = avoiding_tree(basis, L)
    for n in range(3, L + 1):
        assert not avoid or avoid[n] <= 2 * avoid[n - 1], "avoiding words are not prefix closed?"

    # ---- (ii) the other routes are language-equal (exact, product BFS) ------------------------
    def same(name, make):
        nonlocal st_total
        try:
            D = make()
            PD = to_plain(D)
        except Exception as exc:  # noqa
            if only_sub in (None, "equiv"):
                part.violation("construct", dict(case0, route=name), {"exception": repr(exc)})
            return None
        word, n = F.first_difference(PA, PD)
        st_total += n
        part.add(1, 1 if n > 1 else 0)
        if word is not None and only_sub in (None, "equiv"):
            part.violation("equiv", dict(case0, route=name),
                           {"shortest_distinguishing_word": word,
                            "make_dfa_for_basis_accepts": PA.run(word), name + "_accepts": PD.run(word)})
        return PD

    if full_scratch_verdict:
        same("from_pinwords", lambda: PW.make_dfa_for_basis_from_pinwords(list(B)))
    if not light:
        same("db_fresh", lambda: PW.make_dfa_for_basis(list(B), use_db=True))
        _clear(PW.load_dfa_for_perm)
        same("db_from_file", lambda: PW.make_dfa_for_basis_from_db(list(B)))
        same("db_cached", lambda: PW.make_dfa_for_basis_from_db(list(B)))
    if light:
        pass
    elif len(B) == 1:
        same("make_dfa_for_perm", lambda: PW.make_dfa_for_perm(B[0]))
    elif len(B) <= 4:       # the product of more automata is not bounded by anything small
        # own union of the per-permutation automata as loaded from the database
        try:
            parts = [to_plain(PW.load_dfa_for_perm(b)) for b in B]
        except Exception as exc:  # noqa
            parts = None
            if only_sub in (None, "equiv"):
                part.violation("construct", dict(case0, route="load_dfa_for_perm"),
                               {"exception": repr(exc)})
        if parts is not None:
            n = 0
            for states, _, word in F.product_bfs([PA] + parts):
                n += 1
                u = any(a.accepts_state(s) for a, s in zip(parts, states[1:]))
                if PA.accepts_state(states[0]) != u:
                    if only_sub in (None, "equiv"):
                        part.violation("equiv", dict(case0, route="own_union_of_loaded"),
                                       {"shortest_distinguishing_word": word,
                                        "make_dfa_for_basis_accepts": PA.accepts_state(states[0]),
                                        "some_member_accepts": u})
                    break
            st_total += n
            part.add(1, 1)

    # ---- (iii) finiteness -----------------------------------------------------------------------
    MREF = F.m_reference()
    fin, longest, n = F.rejected_language_shape(PA, MREF)
    st_total += n
    verdicts = {}
    calls = [("dfa_given", lambda: PW.has_finite_pinperms(list(B), dfa=A))]
    if not light:
        calls.append(("use_db", lambda: PW.has_finite_pinperms(list(B), use_db=True)))
    if full_scratch_verdict:
        calls.append(("scratch", lambda: PW.has_finite_pinperms(list(B))))
    for name, call in calls:
        try:
            verdicts[name] = call()
        except Exception as exc:  # noqa
            verdicts[name] = repr(exc)
    part.add(len(verdicts), len(verdicts))
    fcase = dict(case0)
    report = only_sub in (None, "finite")
    bad = sorted(k for k, v in verdicts.items() if v is not fin)
    if bad and report:
        part.violation("finite", fcase,
                       {"what": "has_finite_pinperms differs from the own cycle search on "
                                "M x complement(make_dfa_for_basis)", "routes": bad,
                        "verdicts": verdicts, "own_finite": fin, "own_longest_rejected": longest})
    # semantic tree
    if semantic is None:
        return fin, longest
    dies = [n for n in range(2, L + 1) if avoid[n] == 0]
    witness = None
    horizon = L
    if not dies and deep > L:
        counts, witness, capped = avoiding_tree(basis, deep, stop_at_first_deep=True,
                                                node_cap=20000)
        if witness is not None and len(witness) == deep:
            horizon = deep
            # the deep avoiding word and all its prefixes must be rejected
            for i in range(2, len(witness) + 1):
                try:
                    got = A.accepts_input(witness[:i])
                except Exception as exc:  # noqa
                    got = repr(exc)
                part.add(1, 1)
                part.bump("traces", 1)
                if got is not False and only_sub in (None, "conform"):
                    part.violation("conform", dict(case0, word=witness[:i], route="make_dfa_for_basis"),
                                   {"expected_accept": False, "got": got})
                    break
        elif capped:
            part.bump("deep_search_capped")
        else:
            # exhausted between L and deep: the tree dies there
            alive = [n for n in range(2, deep + 1) if counts[n] > 0]
            dies = [max(alive) + 1 if alive else 2]
            avoid = counts
    norm = lambda x: x if (x is not None and x >= 2) else 1   # noqa: E731
    if dies:
        sem_longest = dies[0] - 1            # longest avoiding word (1 = none of length >= 2)
        part.outcomes.add(("dies", sem_longest))
        if (fin is not True or norm(longest) != norm(sem_longest)) and report:
            part.violation("finite", fcase,
                           {"what": "the tree of avoiding pin sequences dies out: longest avoiding "
                                    "word has length %d; the automaton's rejected M-words must be "
                                    "finite with that longest length" % sem_longest,
                            "own_finite": fin, "own_longest_rejected": longest})
    else:
        part.outcomes.add(("alive", horizon))
        if fin is True:
            if longest < horizon:
                if report:
                    part.violation("finite", fcase,
                                   {"what": "an avoiding pin sequence of length %d exists but the "
                                            "automaton rejects no M-word longer than %d"
                                            % (horizon, longest), "witness": witness})
            else:
                part.bump("finite_beyond_horizon_inconclusive")
    part.bump("product_states", st_total)
    part.bump("dfa_states", len(PA.delta))
    part.bump("fin_%s" % fin)
    part.sample({"basis": basis, "dfa_states": len(PA.delta), "finite": fin,
                 "longest_rejected": longest,
                 "avoiding_by_length": [avoid[n] for n in sorted(avoid)][:12]}, cap=1)
    return fin, longest


def shard_basis(shard):
    idx, basis, L, deep, full = shard[:5]
    light = bool(shard[5]) if len(shard) > 5 else False
    part = Partial()
    check_basis(part, basis, L, "b%d" % idx, "table", deep, full, light=light)
    return part


# --------------------------------------------------------------------------------------------
# per pin word: soundness of make_dfa_for_pinword
# --------------------------------------------------------------------------------------------

def ref_pinwords(n):
    """Pin words of length n by the grammar: numeral first; after a vertical letter no vertical
    letter, after a horizontal letter no horizontal letter; numerals anywhere."""
    if n == 0:
        return [""]
    out = []
    for w in itertools.product("1234" + F.DIRS, repeat=n):
        if w[0] not in "1234":
            continue
        ok = True
        for a, b in zip(w, w[1:]):
            if a in F.VERT and b in F.VERT or a in F.HORI and b in F.HORI:
                ok = False
                break
        if ok:
            out.append("".join(w))
    return out


def ref_factors(u):
    """Numeral-led factors of a pin word: cut before every numeral."""
    out = []
    for c in u:
        if c in "1234" or not out:
            out.append(c)
        else:
            out[-1] += c
    return out


def check_word_automaton(part, u, D=None):
    """make_dfa_for_pinword(u) against (ii) the own automaton of  A* f(u1) A* f(u2) ... A*  and
    (i) the determinised make_nfa_for_pinword(u) where that route exists - exact language
    equality on the pin-sequence language M (product BFS), so bordered / periodic words are covered
    without decoding a long permutation.  Returns the number of product states."""
    PW = _PW()
    if D is None:
        try:
            D = PW.make_dfa_for_pinword(u)
        except Exception as exc:  # noqa
            part.violation("construct", {"pinword": u, "route": "make_dfa_for_pinword"},
                           {"exception": repr(exc)})
            return 0
    MREF = F.m_reference()
    try:
        PD = to_plain(D)
    except Exception as exc:  # noqa
        part.violation("construct", {"pinword": u, "route": "make_dfa_for_pinword"}, {"exception": repr(exc)})
        return 0
    word, n = F.first_difference(PD, F.pinword_language_automaton(u), MREF)
    part.add(1, 1)
    if word is not None:
        part.violation("wordauto", {"pinword": u, "against": "own A* f(u1) A* ... A*"},
                       {"shortest_distinguishing_M_word": word, "library_accepts": PD.run(word),
                        "factor_images": [F.factor_images(f) for f in F.pinword_factors(u)]})
        return n
    if hasattr(PW, "make_nfa_for_pinword"):
        try:
            from automata.fa.dfa import DFA
            PN = to_plain(DFA.from_nfa(PW.make_nfa_for_pinword(u)))
        except Exception as exc:  # noqa
            part.violation("construct", {"pinword": u, "route": "make_nfa_for_pinword"},
                           {"exception": repr(exc)})
            return n
        word, n2 = F.first_difference(PD, PN, MREF)
        n += n2
        part.add(1, 1)
        if word is not None:
            part.violation("wordauto", {"pinword": u, "against": "DFA.from_nfa(make_nfa_for_pinword)"},
                           {"shortest_distinguishing_M_word": word, "library_accepts": PD.run(word)})
    return n


def strict_pinwords(n):
    """Numeral followed by n-1 alternating direction letters (any first direction)."""
    out = []
    for q in "1234":
        ws = [q]
        for _ in range(n - 1):
            ws = [w + c for w in ws
                  for c in (F.DIRS if len(w) == 1 else (F.HORI if w[-1] in F.VERT else F.VERT))]
        out.extend(ws)
    return out


def shard_wordauto(shard):
    words, = shard
    part = Partial()
    n = 0
    for u in words:
        n += check_word_automaton(part, u)
        if part.nviol:
            break
    part.bump("product_states", n)
    return part


def check_pinword(part, u, L, use_table=True):
    PW = _PW()
    target = F.decode_pinword(u)
    try:
        D = PW.make_dfa_for_pinword(u)
    except Exception as exc:  # noqa
        part.violation("construct", {"pinword": u, "route": "make_dfa_for_pinword"},
                       {"exception": repr(exc)})
        return
    bit = BIT[target] if use_table else None
    if use_table:
        part.bump("product_states", check_word_automaton(part, u, D))
        if part.nviol:
            return
    acc = 0
    tot = 0
    for n in range(2, L + 1):
        for w in (WORDS[n] if use_table else F.m_words(n)):
            tot += 1
            try:
                got = D.accepts_input(w)
            except Exception as exc:  # noqa
                part.violation("construct", {"pinword": u, "word": w, "route": "make_dfa_for_pinword"},
                               {"exception": repr(exc)})
                return
            if got:
                acc += 1
                sem = bool(TABLE[w] & bit) if use_table else F.contains(F.decode_m_word(w), target)
                if not sem:
                    part.violation("pinword", {"pinword": u, "word": w, "L": L},
                                   {"perm_of_pinword": target, "perm_of_word": F.decode_m_word(w),
                                    "what": "accepted although the permutation of the word does "
                                            "not contain the permutation of the pin word"})
                    return
    part.add(tot, acc)
    part.bump("traces", tot)
    part.bump("dfa_states", len(D.states))


def shard_pinwords(shard):
    words, L = shard
    part = Partial()
    for u in words:
        check_pinword(part, u, L)
        if part.nviol:
            break       # one report per shard (simplest pin word first) is enough to fail the run
    return part


# --------------------------------------------------------------------------------------------
# the pin-sequence language itself
# --------------------------------------------------------------------------------------------

def check_mlang(part, maxlen=6):
    PW = _PW()
    try:
        M = PW.make_dfa_for_m()
        PM = to_plain(M)
    except Exception as exc:  # noqa
        part.violation("construct", {"route": "make_dfa_for_m"}, {"exception": repr(exc)})
        return 0
    n = 0
    for length in range(0, maxlen + 1):
        for w in itertools.product(F.DIRS, repeat=length):
            w = "".join(w)
            n += 1
            if M.accepts_input(w) is not F.is_alternating(w):
                part.violation("mlang", {"word": w}, {"expected": F.is_alternating(w)})
                part.add(n, 0)
                return 0
    part.add(n, n)
    word, states = F.first_difference(PM, F.m_reference())
    if word is not None:
        part.violation("mlang", {"word": word}, {"expected": F.is_alternating(word)})
    return states


# --------------------------------------------------------------------------------------------
# E2: histories of database / cache operations
# --------------------------------------------------------------------------------------------

HBASES_QUICK = [[(0, 1)], [(1, 0), (0, 1)], [(0,)]]
HBASES_THOROUGH = HBASES_QUICK + [[(0, 2, 1), (1, 0)]]
# nested bases along which the verdict of has_finite_pinperms changes (infinite -> finite): a memo
# of earlier verdicts that is consulted with the wrong inclusion is wrong for ONE order of two calls
VBASES_QUICK = [[(0, 1, 2)], [(2, 1, 0)], [(0, 1, 2), (2, 1, 0)], [(0, 1, 2), (2, 1, 0), (0, 2, 1)]]
VBASES_THOROUGH = [[(1, 3, 0, 2)], [(1, 3, 0, 2), (2, 0, 3, 1)],
                   [(0, 1, 2, 3), (1, 0, 3, 2)], [(0, 1, 2, 3), (1, 0, 3, 2), (2, 1, 0)]]


def _canon_value(v):
    """Hashable description of a value; automata up to renaming of states (their repr is not
    stable from call to call)."""
    if hasattr(v, "transitions") and hasattr(v, "initial_state") and hasattr(v, "final_states"):
        try:
            return ("DFA", F.canonical_form(to_plain(v)))
        except Exception:  # noqa
            return ("automaton", repr(v))
    if isinstance(v, dict):
        return ("dict", tuple(sorted(((repr(k), _canon_value(x)) for k, x in v.items()), key=repr)))
    if isinstance(v, (list, tuple)):
        return ("seq", tuple(_canon_value(x) for x in v))
    if isinstance(v, (set, frozenset)):
        return ("set", tuple(sorted((_canon_value(x) for x in v), key=repr)))
    return repr(v)


def lib_state():
    """Everything mutable the pin-word module keeps outside a call: sizes of its lru caches,
    non-function class attributes and module globals, default arguments."""
    import sys
    import types
    mod = sys.modules["permuta.permutils.pin_words"]
    out = []
    skip = (types.FunctionType, types.ModuleType, type, classmethod, staticmethod, property)
    for k, v in sorted(vars(mod).items()):
        if k.startswith("__") or isinstance(v, skip) or callable(v):
            continue
        out.append(("mod", k, _canon_value(v)))
    for k, v in sorted(vars(mod.PinWords).items()):
        if k.startswith("__"):
            continue
        f = getattr(v, "__func__", v)
        if hasattr(f, "cache_info"):
            out.append(("cache", k, f.cache_info().currsize))
            f = getattr(f, "__wrapped__", f)
        if isinstance(f, types.FunctionType):
            if f.__defaults__ or f.__kwdefaults__:
                out.append(("defaults", k, repr(f.__defaults__), repr(f.__kwdefaults__)))
        elif not callable(f):
            out.append(("attr", k, _canon_value(v)))
    return tuple(out)


def _cp(v):
    """Copy of the container structure only (automata are immutable and cannot be deep-copied)."""
    if isinstance(v, dict):
        return {k: _cp(x) for k, x in v.items()}
    if isinstance(v, list):
        return [_cp(x) for x in v]
    if isinstance(v, set):
        return set(v)
    return v


def _plain_attrs():
    """Non-callable attributes of the PinWords class and of its module (candidates for state
    hoisted out of a call), name -> value (containers copied)."""
    import sys
    import types
    mod = sys.modules["permuta.permutils.pin_words"]
    out = {}
    for where, holder in (("mod", mod), ("cls", mod.PinWords)):
        for k, v in vars(holder).items():
            if k.startswith("__") or callable(v) or \
                    isinstance(v, (classmethod, staticmethod, property, types.ModuleType)):
                continue
            out[(where, k)] = _cp(v)
    return out


def _restore_attrs(saved):
    import sys
    mod = sys.modules["permuta.permutils.pin_words"]
    holders = {"mod": mod, "cls": mod.PinWords}
    for (where, k) in list(_plain_attrs()):
        if (where, k) not in saved:
            delattr(holders[where], k)
    for (where, k), v in saved.items():
        setattr(holders[where], k, _cp(v))


BASE_ATTRS = None     # attributes of the module / class as they were before the run touched them


class DbHistory:
    """State = the files under dfa_db/ (names and contents) + what load_dfa_for_perm has cached
    (+ every other mutable thing of the module, see lib_state).  A history is replayed by
    restoring the snapshot taken after its longest already executed prefix (files written back,
    cache cleared and re-filled through load_dfa_for_perm) and executing the remaining operations
    on the real code; with no snapshot (replay of a recorded case) everything is executed."""

    def __init__(self, tag, L, hbases, kind="db"):
        """kind "db": automaton-returning operations, database and cache; kind "verdict":
        has_finite_pinperms through its three routes (default, use_db=True, dfa=given) on every
        basis, so that every order of calls on comparable bases occurs."""
        PW, Perm = _PW(), _P()
        self.kind = kind
        base = _plain_attrs()
        if BASE_ATTRS is not None:
            _restore_attrs(BASE_ATTRS)
        self.tag, self.L = tag, L
        self.hbases = [[tuple(p) for p in b] for b in hbases]
        self.B = [[Perm(p) for p in b] for b in self.hbases]
        fresh_dir(tag + "-ref")
        _clear(PW.load_dfa_for_perm)
        self.dfas = [PW.make_dfa_for_basis_from_pinwords(list(b)) for b in self.B]
        self.ref = [to_plain(d) for d in self.dfas]
        self.fin = [F.rejected_language_shape(r, F.m_reference())[0] for r in self.ref]
        self.masks = [mask_of(b) for b in self.hbases]
        nb = len(self.hbases)
        lens = sorted({len(p) for b in self.hbases for p in b if len(p) <= 2})
        self.menu = ([("pw", i) for i in range(nb)] + [("db", i) for i in range(nb)]
                     + [("fin", i) for i in range(nb)] + [("clear",)]
                     + [("create", n) for n in lens])
        if kind == "verdict":
            self.menu = [("fin", i, route) for i in range(nb) for route in ("default", "db", "dfa")] \
                + [("clear",)]
        self.product_states = 0
        self.executed = 0
        self.snap = {(): ((), (), BASE_ATTRS if BASE_ATTRS is not None else base)}

    def observe(self, op, cached):
        """Run one operation; return None or a description of what is wrong.  `cached` is the
        harness's record of what the two lru caches hold: permutations in load_dfa_for_perm and
        the marker "M" for make_dfa_for_m."""
        PW = _PW()
        self.executed += 1
        kind = op[0]
        if kind == "clear":
            _clear(PW.load_dfa_for_perm)
            keep_m = "M" in cached
            cached.clear()
            if keep_m:
                cached.add("M")
            return None
        if kind == "create":
            PW.create_dfa_db_for_length(op[1])
            return None
        i = op[1]
        if kind == "fin":
            route = op[2] if len(op) > 2 else "db"
            cached.add("M")
            if route == "db":
                cached.update(self.hbases[i])
                got = PW.has_finite_pinperms(list(self.B[i]), use_db=True)
            elif route == "dfa":
                got = PW.has_finite_pinperms(list(self.B[i]), dfa=self.dfas[i])
            else:
                got = PW.has_finite_pinperms(list(self.B[i]))
            if got is not self.fin[i]:
                return {"op": op, "expected": self.fin[i], "got": got}
            return None
        if kind == "pw":
            D = PW.make_dfa_for_basis_from_pinwords(list(self.B[i]))
        else:
            cached.update(self.hbases[i])
            D = PW.make_dfa_for_basis_from_db(list(self.B[i]))
        PD = to_plain(D)
        for n in range(2, self.L + 1):
            for w in WORDS[n]:
                sem = bool(TABLE[w] & self.masks[i])
                if D.accepts_input(w) is not sem:
                    return {"op": op, "word": w, "expected_accept": sem}
        word, n = F.first_difference(self.ref[i], PD)
        self.product_states += n
        if word is not None:
            return {"op": op, "shortest_word_distinguishing_from_fresh_automaton": word}
        return None

    def read_files(self, d):
        files = []
        for root, _, names in os.walk(d):
            for nm in sorted(names):
                p = os.path.join(root, nm)
                with open(p) as fh:
                    files.append((os.path.relpath(p, d), fh.read()))
        return tuple(sorted(files))

    @staticmethod
    def canon_files(files):
        """File contents up to renaming of automaton states: the library's repr numbers the
        states differently from call to call (observed: two texts for the same permutation
        within one process), which is irrelevant to every later answer."""
        import sys
        ns = dict(vars(sys.modules["permuta.permutils.pin_words"]))
        out = []
        for rel, content in files:
            try:
                form = F.canonical_form(to_plain(eval(content.split("\n")[0].strip(), ns)))  # noqa: S307
            except Exception:  # noqa
                form = content
            out.append((rel, form))
        return tuple(out)

    def build(self, hist):
        PW, Perm = _PW(), _P()
        hist = tuple(tuple(op) for op in hist)
        k = len(hist)
        while hist[:k] not in self.snap:
            k -= 1
        files, cached, attrs = self.snap[hist[:k]]
        _restore_attrs(attrs)
        d = fresh_dir(self.tag)
        for rel, content in files:
            os.makedirs(os.path.dirname(os.path.join(d, rel)), exist_ok=True)
            with open(os.path.join(d, rel), "w") as fh:
                fh.write(content)
        _clear(PW.load_dfa_for_perm)
        _clear(PW.make_dfa_for_m)
        for p in cached:
            if p == "M":
                PW.make_dfa_for_m()
            else:
                PW.load_dfa_for_perm(Perm(p))
        cached = set(cached)
        viols = []
        last = len(hist) - 1
        for hi in range(k, len(hist)):
            op = hist[hi]
            try:
                v = self.observe(op, cached)
            except Exception as exc:  # noqa
                v = {"op": op, "exception": repr(exc)}
            if v is not None and hi == last:
                viols.append(v)
            self.snap[hist[:hi + 1]] = (self.read_files(d), tuple(sorted(cached, key=repr)),
                                        _plain_attrs())
        canon = (self.canon_files(self.read_files(d)), tuple(sorted(cached, key=repr)), lib_state())
        return canon, viols


def shard_history(shard):
    mi, depth, L, hbases = shard[:4]
    kind = shard[4] if len(shard) > 4 else "db"
    part = Partial()
    try:
        model = DbHistory("hist%d" % mi, L, hbases, kind)
    except Exception as exc:  # noqa
        part.violation("construct", {"route": "history-reference", "bases": hbases, "L": L,
                                     "model": kind},
                       {"exception": repr(exc)})
        return part, ("history", 0, 0, [])

    def on_violation(hist, v):
        part.violation("history", {"history": [list(op) for op in hist], "L": L,
                                   "bases": model.hbases, "model": kind}, v)

    st = bfs([()], model.menu, model.build, depth, on_violation, max_states=4000)
    if st.capped:
        part.bump("history_state_cap_hit")
    part.add(st.transitions, st.transitions)
    part.bump("history_states", st.states)
    part.bump("history_transitions", st.transitions)
    part.bump("product_states", model.product_states)
    part.sample({"history": st.sample_histories[-1] if st.sample_histories else [],
                 "new_states_per_depth": st.per_depth}, cap=1)
    return part, ("history", st.states, st.transitions, st.per_depth)


# --------------------------------------------------------------------------------------------
# FORMS: the same basis handed over in every argument form
# --------------------------------------------------------------------------------------------

FORM_NAMES = ["list", "tuple", "set", "frozenset", "iter", "genexp", "map", "Basis", "reversed",
              "repeated", "keyword"]
FORM_BASES_QUICK = [
    [(1, 0), (0, 1)],
    [(0, 1, 2), (2, 1, 0)],
    [(0, 2, 1), (1, 0, 2), (1, 2, 0)],
    [(1, 3, 0, 2), (0, 1, 2), (2, 0, 3, 1)],          # lengths 4, 3, 4: not grouped by length
]
FORM_BASES_THOROUGH = FORM_BASES_QUICK + [
    [(0, 1, 2), (1, 3, 0, 2), (2, 3, 0, 1)],
    [(3, 0, 1, 2), (0, 2, 1), (1, 2, 3, 0)],
    [(0, 1, 2, 3), (0, 1, 3, 2), (0, 2, 1, 3), (0, 2, 3, 1), (0, 3, 1, 2)],
    [(2, 0, 3, 1), (0, 1), (1, 3, 0, 2)],            # non-minimal: 01 makes the others redundant
    [(1, 3, 0, 4, 2), (0, 1, 2), (2, 4, 1, 3, 0)],
]


def make_form(name, B):
    """A fresh argument object (one-shot forms must be new for every call)."""
    from permuta import Basis
    if name == "list" or name == "keyword":
        return list(B)
    if name == "tuple":
        return tuple(B)
    if name == "set":
        return set(B)
    if name == "frozenset":
        return frozenset(B)
    if name == "iter":
        return iter(list(B))
    if name == "genexp":
        return (b for b in list(B))
    if name == "map":
        return map(lambda b: b, list(B))
    if name == "Basis":
        return Basis(*B)
    if name == "reversed":
        return list(reversed(B))
    if name == "repeated":
        return list(B) + [B[0]]
    if name == "of_length":
        return type(B[0]).of_length(len(B[0]))
    raise ValueError(name)


def check_forms(part, basis, tag, only_form=None, only_entry=None):
    PW, Perm = _PW(), _P()
    basis = [tuple(p) for p in basis]
    B = [Perm(p) for p in basis]
    fresh_dir(tag)
    _clear(PW.load_dfa_for_perm)
    if BASE_ATTRS is not None:
        _restore_attrs(BASE_ATTRS)
    try:
        REF = PW.make_dfa_for_basis_from_pinwords(list(B))
        PREF = to_plain(REF)
    except Exception as exc:  # noqa
        part.violation("construct", {"basis": basis, "route": "forms-reference"}, {"exception": repr(exc)})
        return
    fin = F.rejected_language_shape(PREF, F.m_reference())[0]
    refwords = sorted(u for p in set(basis) for u in ref_pinwords(len(p)) if F.decode_pinword(u) == p)
    names = list(FORM_NAMES)
    if sorted(basis) == sorted(R.perms(len(basis[0]))):
        names.append("of_length")          # the library's own generator of exactly this basis
    states = 0
    for name in names:
        if only_form is not None and name != only_form:
            continue
        kw = name == "keyword"
        entries = [
            ("from_pinwords", "dfa", lambda f: PW.make_dfa_for_basis_from_pinwords(basis=f) if kw
             else PW.make_dfa_for_basis_from_pinwords(f)),
            ("from_db", "dfa", lambda f: PW.make_dfa_for_basis_from_db(basis=f) if kw
             else PW.make_dfa_for_basis_from_db(f)),
            ("make_dfa_for_basis", "dfa", lambda f: PW.make_dfa_for_basis(basis=f, use_db=False) if kw
             else PW.make_dfa_for_basis(f)),
            ("make_dfa_for_basis_db", "dfa", lambda f: PW.make_dfa_for_basis(basis=f, use_db=True) if kw
             else PW.make_dfa_for_basis(f, True)),
            ("has_finite_pinperms", "fin", lambda f: PW.has_finite_pinperms(basis=f) if kw
             else PW.has_finite_pinperms(f)),
            ("has_finite_pinperms_db", "fin", lambda f: PW.has_finite_pinperms(basis=f, use_db=True) if kw
             else PW.has_finite_pinperms(f, True)),
            ("has_finite_pinperms_dfa", "fin", lambda f: PW.has_finite_pinperms(basis=f, dfa=REF) if kw
             else PW.has_finite_pinperms(f, False, REF)),
            ("pinwords_for_basis", "words", lambda f: PW.pinwords_for_basis(basis=f) if kw
             else PW.pinwords_for_basis(f)),
        ]
        for ename, kind, call in entries:
            if only_entry is not None and ename != only_entry:
                continue
            if ename == "make_dfa_for_basis" and name not in ("keyword", "iter", "set"):
                continue        # the dispatcher adds nothing to from_pinwords for the other forms
            case = {"basis": basis, "form": name, "entry": ename}
            try:
                got = call(make_form(name, B))
            except Exception as exc:  # noqa
                part.violation("forms", case, {"exception": repr(exc)})
                part.add(1, 1)
                continue
            part.add(1, 1)
            if kind == "dfa":
                try:
                    word, n = F.first_difference(PREF, to_plain(got))
                except Exception as exc:  # noqa
                    part.violation("forms", case, {"exception": repr(exc)})
                    continue
                states += n
                if word is not None:
                    part.violation("forms", case, {"shortest_word_distinguishing_from_list_form": word,
                                                   "list_form_accepts": PREF.run(word)})
            elif kind == "fin":
                if got is not fin:
                    part.violation("forms", case, {"expected": fin, "got": got})
            else:
                try:
                    gw = sorted(set(got))
                except Exception as exc:  # noqa
                    part.violation("forms", case, {"exception": repr(exc)})
                    continue
                exp = refwords
                if name == "Basis":     # a Basis object drops non-minimal elements
                    kept = {tuple(x) for x in make_form(name, B)}
                    exp = sorted(u for q in kept for u in ref_pinwords(len(q))
                                 if F.decode_pinword(u) == q)
                if gw != exp:
                    part.violation("forms", case, {"missing": [u for u in exp if u not in gw][:5],
                                                   "extra": [u for u in gw if u not in exp][:5]})
    part.bump("product_states", states)


def shard_forms(shard):
    idx, basis = shard
    part = Partial()
    check_forms(part, basis, "f%d" % idx)
    return part


# --------------------------------------------------------------------------------------------
# FRESH: results that are mutable containers are damaged in place, then everything is asked again
# --------------------------------------------------------------------------------------------

def check_fresh(part, basis, tag, damage_tables):
    """pinwords_for_basis returns a list: clear it / append to it, ask again.  With damage_tables
    (flag VERIF_C15_FRESH_TABLES=1, off by default - see the report) the dicts returned by the
    public, lru-cached table functions are damaged as well before the automaton is rebuilt."""
    PW, Perm = _PW(), _P()
    basis = [tuple(p) for p in basis]
    B = [Perm(p) for p in basis]
    fresh_dir(tag)
    _clear(PW.load_dfa_for_perm)
    PREF = to_plain(PW.make_dfa_for_basis(list(B)))
    fin = F.rejected_language_shape(PREF, F.m_reference())[0]
    refwords = sorted(u for p in set(basis) for u in ref_pinwords(len(p)) if F.decode_pinword(u) == p)

    def ask(stage):
        case = {"basis": basis, "after": stage, "damage_tables": damage_tables}
        try:
            w = PW.pinwords_for_basis(list(B))
            ok_w = sorted(set(w)) == refwords
            a = to_plain(PW.make_dfa_for_basis(list(B)))
            d = to_plain(PW.make_dfa_for_basis(tuple(B), use_db=True))
            v = (PW.has_finite_pinperms(list(B)), PW.has_finite_pinperms(list(B), use_db=True))
        except Exception as exc:  # noqa
            part.violation("fresh", case, {"exception": repr(exc)})
            return None
        part.add(1, 1)
        wa, _ = F.first_difference(PREF, a)
        wd, _ = F.first_difference(PREF, d)
        if not ok_w or wa is not None or wd is not None or v != (fin, fin):
            part.violation("fresh", case, {"pinwords_ok": ok_w, "scratch_differs_on": wa,
                                           "db_differs_on": wd, "verdicts": v, "expected": fin})
        return w

    w = ask("nothing")
    if w is not None:
        w.clear()
        w = ask("pinwords_for_basis(...).clear()")
    if w is not None:
        w.append("1")
        w.reverse()
        ask("pinwords_for_basis(...) appended/reversed")
    if damage_tables:
        saved = []
        for n in sorted({len(p) for p in basis}):
            for fn in (PW.perm_to_pinword_mapping, PW.perm_to_strict_pinword_mapping,
                       PW.pinword_to_perm_mapping):
                table = fn(n)
                saved.append((table, dict(table)))
                for val in table.values():
                    if isinstance(val, set):
                        val.clear()
                table.clear()
        ask("tables returned by *_mapping(n) cleared (nested sets too)")
        for fn in (PW.perm_to_pinword_mapping, PW.perm_to_strict_pinword_mapping,
                   PW.pinword_to_perm_mapping):
            _clear(fn)


def shard_fresh(shard):
    idx, basis, damage = shard
    part = Partial()
    check_fresh(part, basis, "r%d" % idx, damage)
    return part


# --------------------------------------------------------------------------------------------
# ABORT: a BaseException raised at the k-th call event inside an operation, then read back
# --------------------------------------------------------------------------------------------

class _Abort(BaseException):
    pass


def _run_with_abort(fn, k, root):
    """Run fn(); raise _Abort at the k-th 'call' event of a frame whose code lives under root
    (k=None: never).  Returns (finished?, number of such events seen)."""
    import sys
    seen = [0]

    def tracer(frame, event, arg):
        if event == "call" and frame.f_code.co_filename.startswith(root):
            seen[0] += 1
            if seen[0] == k:
                sys.settrace(None)
                raise _Abort()
        return None

    sys.settrace(tracer)
    try:
        fn()
        return True, seen[0]
    except _Abort:
        return False, seen[0]
    finally:
        sys.settrace(None)


ABORT_READBACK = [[(0,)], [(0, 1)], [(1, 0), (0, 1)]]
# (operation, basis, cold table caches?)
ABORT_OPS_QUICK = [("scratch", [(0, 1)], False), ("scratch", [(0,)], True), ("db", [(0,)], False),
                   ("fin", [(0,)], False), ("fin_db", [(0,)], False), ("create", 1, False),
                   ("load", [(0,)], False)]
ABORT_OPS_THOROUGH = ABORT_OPS_QUICK + [
    ("scratch", [(0, 1)], True), ("db", [(0, 1)], False), ("fin", [(0, 1)], False),
    ("fin_db", [(0, 1)], False), ("db", [(1, 0), (0, 1)], False), ("fin_db", [(1, 0), (0, 1)], False),
    ("scratch", [(1, 0), (0, 1)], False), ("create", 2, False), ("load", [(0, 1)], False)]
TABLE_FUNCS = ("pinword_to_perm_mapping", "perm_to_pinword_mapping",
               "perm_to_strict_pinword_mapping", "make_dfa_for_m")


def _files_unparseable(d):
    """Names of database files whose first line is not a complete automaton text."""
    import sys
    ns = dict(vars(sys.modules["permuta.permutils.pin_words"]))
    bad = []
    for root, _, names in os.walk(d):
        for nm in names:
            p = os.path.join(root, nm)
            try:
                with open(p) as fh:
                    to_plain(eval(fh.readline().strip(), ns))  # noqa: S307
            except Exception:  # noqa
                bad.append(os.path.relpath(p, d))
    return bad


class AbortModel:
    def __init__(self, tag):
        PW, Perm = _PW(), _P()
        self.tag = tag
        fresh_dir(tag + "-ref")
        _clear(PW.load_dfa_for_perm)
        if BASE_ATTRS is not None:
            _restore_attrs(BASE_ATTRS)
        self.RB = [[Perm(p) for p in b] for b in ABORT_READBACK]
        self.ref = [to_plain(PW.make_dfa_for_basis_from_pinwords(list(b))) for b in self.RB]
        self.fin = [F.rejected_language_shape(r, F.m_reference())[0] for r in self.ref]
        self.root = os.path.join(os.path.abspath(_repo_root()), "permuta") + os.sep

    def operation(self, op):
        PW, Perm = _PW(), _P()
        kind, arg, _ = op
        if kind == "create":
            return lambda: PW.create_dfa_db_for_length(arg)
        B = [Perm(tuple(p)) for p in arg]
        if kind == "scratch":
            return lambda: PW.make_dfa_for_basis(list(B))
        if kind == "db":
            return lambda: PW.make_dfa_for_basis(list(B), use_db=True)
        if kind == "fin":
            return lambda: PW.has_finite_pinperms(list(B))
        if kind == "fin_db":
            return lambda: PW.has_finite_pinperms(list(B), use_db=True)
        if kind == "load":
            return lambda: [PW.load_dfa_for_perm(b) for b in B]
        raise ValueError(kind)

    def attempt(self, op, k):
        PW = _PW()
        d = fresh_dir(self.tag)
        _clear(PW.load_dfa_for_perm)
        if BASE_ATTRS is not None:
            _restore_attrs(BASE_ATTRS)
        if op[2]:
            for name in TABLE_FUNCS:
                _clear(getattr(PW, name))
        fn = self.operation(op)
        return d, _run_with_abort(fn, k, self.root)

    def read_back(self, d):
        """None or a description of what is wrong."""
        PW = _PW()
        for j, B in enumerate(self.RB):
            for name, call in (("make_dfa_for_basis", lambda: PW.make_dfa_for_basis(list(B))),
                               ("from_db", lambda: PW.make_dfa_for_basis_from_db(list(B)))):
                word, _ = F.first_difference(self.ref[j], to_plain(call()))
                if word is not None:
                    return {"observer": name, "basis": ABORT_READBACK[j],
                            "differs_from_reference_on": word}
            for name, call in (("has_finite_pinperms", lambda: PW.has_finite_pinperms(list(B))),
                               ("has_finite_pinperms_db",
                                lambda: PW.has_finite_pinperms(list(B), use_db=True))):
                got = call()
                if got is not self.fin[j]:
                    return {"observer": name, "basis": ABORT_READBACK[j], "expected": self.fin[j],
                            "got": got}
        return None

    def one(self, part, op, k):
        import signal
        case = {"op": [op[0], op[1], op[2]], "abort_at_call": k}
        d, (finished, _) = self.attempt(op, k)
        signal.alarm(30)
        try:
            bad = self.read_back(d)
        except TimeoutError as exc:
            signal.alarm(0)
            part.violation("abort", case, {"hang": str(exc)})
            return
        except Exception as exc:  # noqa
            signal.alarm(0)
            partial = _files_unparseable(d)
            if partial:
                part.bump("abort_partial_file_reported")     # reported, not silently wrong
                part.add(1, 1)
            else:
                part.violation("abort", case, {"exception_in_read_back": repr(exc)})
            return
        signal.alarm(0)
        part.add(1, 0 if finished else 1)
        part.bump("abort_injections")
        if bad is not None:
            part.violation("abort", case, bad)


def _repo_root():
    from ..core import REPO
    return REPO


def shard_abort(shard):
    import signal
    import sys
    opi, op, part_i, nparts = shard
    part = Partial()
    try:
        model = AbortModel("a%d_%d" % (opi, part_i))
    except Exception as exc:  # noqa
        part.violation("construct", {"route": "abort-reference"}, {"exception": repr(exc)})
        return part

    def on_alarm(signum, frame):
        raise TimeoutError("read-back did not finish within 30 s")

    old = signal.signal(signal.SIGALRM, on_alarm)
    old_hook = sys.unraisablehook
    sys.unraisablehook = lambda unraisable: None
    try:
        _, (_, total) = model.attempt(op, None)
        if part_i == 0:
            part.bump("abort_points_total", total)
        for k in range(1 + part_i, total + 1, nparts):
            model.one(part, op, k)
    finally:
        signal.signal(signal.SIGALRM, old)
        sys.unraisablehook = old_hook
    return part


def shard_truncate(shard):
    """E5: every proper prefix of a stored automaton text is put in place of the file; loading it
    must raise (reported) or give the same language - never another language."""
    perm, = shard
    PW, Perm = _PW(), _P()
    part = Partial()
    d = fresh_dir("trunc%s" % "".join(map(str, perm)))
    _clear(PW.load_dfa_for_perm)
    P = Perm(perm)
    try:
        ref = to_plain(PW.load_dfa_for_perm(P))
    except Exception as exc:  # noqa
        part.violation("construct", {"route": "load_dfa_for_perm", "perm": perm}, {"exception": repr(exc)})
        return part
    files = [os.path.join(r, n) for r, _, ns in os.walk(d) for n in ns]
    if len(files) != 1:
        part.violation("truncate", {"perm": perm}, {"files_after_one_load": len(files)})
        return part
    with open(files[0]) as fh:
        text = fh.read()
    for cut in range(0, len(text)):
        check_truncated(part, perm, files[0], text, cut, ref)
    with open(files[0], "w") as fh:
        fh.write(text)
    part.bump("truncation_points", len(text))
    return part


def check_truncated(part, perm, path, text, cut, ref):
    PW, Perm = _PW(), _P()
    with open(path, "w") as fh:
        fh.write(text[:cut])
    _clear(PW.load_dfa_for_perm)
    part.add(1, 1)
    try:
        got = to_plain(PW.load_dfa_for_perm(Perm(perm)))
    except Exception:  # noqa
        return                      # reported to the caller: fine
    word, _ = F.first_difference(ref, got)
    if word is not None:
        part.violation("truncate", {"perm": perm, "cut": cut, "length": len(text)},
                       {"what": "a truncated database file was loaded silently as another language",
                        "differs_on": word})


# --------------------------------------------------------------------------------------------
# pools
# --------------------------------------------------------------------------------------------

S5_QUICK = [(1, 3, 0, 4, 2), (2, 4, 1, 3, 0)]
S5_MORE = [(2, 0, 4, 1, 3), (3, 0, 2, 4, 1), (1, 4, 2, 0, 3), (3, 1, 4, 2, 0),   # the simples
           (0, 1, 2, 3, 4), (4, 3, 2, 1, 0), (0, 2, 1, 4, 3), (2, 1, 0, 4, 3), (0, 4, 1, 3, 2),
           (1, 0, 2, 4, 3)]
S6_NONPIN = [(1, 2, 5, 0, 3, 4), (2, 1, 0, 5, 4, 3)]
S6_PIN = [(1, 3, 0, 5, 2, 4)]          # has 24 pin words; (2,4,0,5,1,3) has none
S6_NONPIN_MORE = [(2, 4, 0, 5, 1, 3)]


def pool(quick):
    """List of (basis, uses_long_patterns).  Simplest first.  The SET does not depend on the seed."""
    s = {k: R.perms(k) for k in range(0, 5)}
    upto3 = s[1] + s[2] + s[3]
    out = []
    seen = set()

    def push(b):
        b = tuple(b)
        key = frozenset(b)
        if key not in seen:
            seen.add(key)
            out.append(list(b))

    for k in range(0, 5):
        for p in s[k]:
            push([p])
    for pair in itertools.combinations(upto3, 2):
        push(pair)
    # pairs and triples involving length 4
    pairs4 = list(itertools.combinations(s[4], 2))
    mixed = [(a, b) for a in s[2] + s[3] for b in s[4]]
    triples3 = list(itertools.combinations(s[2] + s[3], 3))
    if quick:
        reps = {}
        for pr in pairs4 + mixed:
            reps.setdefault(R.sym_class_rep(pr), pr)
        for rep in sorted(reps):
            push(rep)
        reps = {}
        for tr in triples3:
            reps.setdefault(R.sym_class_rep(tr), tr)
        for rep in sorted(reps):
            push(rep)
    else:
        for pr in mixed + pairs4:
            push(pr)
        for tr in triples3:
            push(tr)
    # selected triples with length 4: the three classes behind the "special simples" tables and
    # bases known from the literature on finitely many simples
    sel = [
        [(0, 1, 2), (1, 3, 0, 2), (2, 3, 0, 1)],
        [(2, 1, 0), (2, 0, 3, 1), (1, 0, 3, 2)],
        [(1, 3, 0, 2), (2, 0, 3, 1), (0, 1, 2)],
        [(1, 3, 0, 2), (2, 0, 3, 1), (2, 1, 0)],
        [(1, 3, 0, 2), (2, 0, 3, 1)],
        [(0, 2, 1), (1, 0, 2), (1, 2, 0)],
        [(0, 1, 2, 3), (3, 2, 1, 0), (1, 3, 0, 2)],
        [(0, 1, 2, 3), (3, 2, 1, 0), (1, 3, 0, 2), (2, 0, 3, 1)],
        [(0, 2, 1), (1, 2, 3, 0), (3, 0, 1, 2)],
    ]
    for b in sel:
        push(b)
    longs = []
    # every single pattern of length 5: the first length at which a pin word can chain two strict
    # factors of different lengths, i.e. where the per-word automaton A* f(u1) A* f(u2) A* is
    # exercised with factor images of different sizes; all 120, not one per symmetry class (the
    # construction goes through letter tables, nothing guarantees that it treats the eight images
    # alike).  In the quick tier all but two of them are checked in the "light" mode.
    for p in S5_QUICK + S5_MORE:
        push([p])
        longs.append(p)
    for p in R.perms(5):
        push([p])
        if p not in longs:
            longs.append(p)
    push([S5_QUICK[0], (0, 1, 2)])
    push([S5_QUICK[0], S5_QUICK[1]])
    # bases whose FIRST element in sorted order has no pin word at all (only possible from length
    # 6 on): its automaton is the empty language, so a union loop that mistakes a one-state
    # automaton for the universal one goes wrong exactly here
    for p in S6_NONPIN[:1] + S6_PIN:
        longs.append(p)
    push([S6_NONPIN[0], S6_PIN[0]])
    if not quick:
        for p in S6_NONPIN + S6_PIN:
            push([p])
            if p not in longs:
                longs.append(p)
        push([S6_NONPIN[0], (0, 1, 2, 3)])
        push([S6_NONPIN[1], S6_NONPIN[0], S6_PIN[0]])
    # the CARDINALITY dimension: a union that is folded in some other shape (pairwise, tree,
    # chunks) can lose an element only for certain numbers of elements.  Antichains of equal
    # length are used because there every single element is indispensable (the pin sequence that
    # draws exactly that permutation contains no other element), so the loss of ANY element at
    # ANY position shows up in the trace conformance at word length |pattern| + 1.  The list order
    # matters to the from-scratch route (the database route sorts), so both orders are given.
    # Ordered lists: not de-duplicated against the sets above.
    def push_ordered(b):
        b = tuple(b)
        if ("ordered", b) not in seen:
            seen.add(("ordered", b))
            out.append(list(b))

    s4 = s[4]
    s3 = s[3]
    kmax = 16 if quick else 24
    for k in range(5, kmax + 1):
        push_ordered(reversed(s4[:k]))            # first k of S4, given in decreasing order
        push_ordered(s4[len(s4) - k:])            # last k of S4, given in increasing order
        if not quick:
            push_ordered(s4[:k])
            push_ordered(reversed(s4[len(s4) - k:]))
    # non-minimal lists (legitimate inputs): all of S3 and a prefix of S4; only the loss of an
    # element of S3 is observable here
    for k in range(7, kmax + 1):
        push_ordered(list(reversed(s4[:k - 6])) + list(reversed(s3)))
        if not quick:
            push_ordered(s3 + s4[:k - 6])
    if not quick:
        # all pairs of the symmetry-class representatives of S5
        reps5 = sorted({min(R.orbit(p)) for p in R.perms(5)})
        for pr in itertools.combinations(reps5, 2):
            push(pr)
        s5 = R.perms(5)
        for k in range(5, 17):
            b = s5[:k]
            push_ordered(reversed(b))
            for p in b:
                if p not in longs:
                    longs.append(p)
    return out, longs


# --------------------------------------------------------------------------------------------

def run(ctx, only=None):
    def want(name):
        return only is None or name in only

    quick = ctx.quick
    os.chdir(ctx.work)
    ctx.rule = ("a case is one (automaton, M-word) trace replayed against the decoded permutation, "
                "one pair of automata compared by product BFS, one verdict of has_finite_pinperms, "
                "or one transition of the database history search; a trace is non-trivial when, "
                "for its basis, words of its length both contain and avoid the basis (for pin "
                "words: the word is accepted); each basis, word and history is enumerated once")
    ctx.assumptions = [
        "reference semantics mc/ref_c15.py: pin sequences decoded by ordered insertion, containment "
        "by combinations; cross-checked inside the run against the naive definition for all words "
        "of length <= 8",
        "semantic equality is established for words up to the stated lengths only (plus one deep "
        "avoiding word per infinite basis in the thorough tier); equality between automata and the "
        "finiteness analysis are exact",
        "an avoiding tree that is still alive at the horizon refutes 'finite' only when the "
        "automaton itself has no rejected word that long; otherwise the case is counted as "
        "inconclusive (counter finite_beyond_horizon_inconclusive, 0 on the current tree)",
    ]
    global BASE_ATTRS
    _PW()
    BASE_ATTRS = _plain_attrs()
    bases, longs = pool(quick)
    if quick:
        klen = {4: 12, 5: 11, 6: 0}
        deep = 0
    else:
        klen = {4: 14, 5: 12, 6: 11}
        deep = 20
    L = max(klen.values())
    PW = _PW()
    # the pin word tables are lru-cached class data: fill them before forking
    for k in range(0, 6 if quick else 7):
        PW.perm_to_pinword_mapping(k)
    build_table(ctx, L, klen, longs)
    ctx.bounds["semantic_table"] = {"M_words": len(TABLE), "max_word_length_by_pattern_length": klen}
    ctx.section("table", words=len(TABLE))
    states = 0

    if want("mlang"):
        states += check_mlang(ctx)
        ctx.bounds["mlang"] = "all words over ULDR of length <= 6; exact product BFS"
        ctx.section("mlang")

    # one pool of heterogeneous shards: the slow automaton constructions balance better; cheap
    # shards first (ctx.pmap rotates the order by the seed: small seeds move the first shards last)
    tasks = []
    if want("pinword"):
        # quick: all pin words of length <= 4 and those of length 5 with two strict factors of two
        # or more letters (shapes NdNdd, NddNd: the shortest words in which factor images of
        # different lengths are chained); thorough: all pin words of length <= 5
        maxu = 4 if quick else 5
        Lu = 9 if quick else 10
        words = [u for n in range(1, maxu + 1) for u in ref_pinwords(n)]
        per = 40
        for i in range(0, len(words), per):
            tasks.append(("pinwords", (words[i:i + per], Lu)))
        if quick:
            two = [u for u in ref_pinwords(5)
                   if sorted(len(f) for f in ref_factors(u)) == [2, 3]]
            for i in range(0, len(two), per):
                tasks.append(("pinwords", (two[i:i + per], 10)))
            words = words + two
        ctx.bounds["pinword"] = {"pin_words": len(words), "max_pinword_length": maxu,
                                 "plus": "length 5 with factor lengths {2,3}, M-words to 10" if quick else "",
                                 "M_word_lengths": "2..%d" % Lu}
    if want("wordauto"):
        maxs = 10 if quick else 13
        sw = [u for n in range(1, maxs + 1) for u in strict_pinwords(n)]
        per = 400
        for i in range(0, len(sw), per):
            tasks.append(("wordauto", (sw[i:i + per],)))
        ctx.bounds["wordauto"] = {"strict_pin_words": len(sw), "max_length": maxs,
                                  "also": "every pin word of the pinword sub-check (all of length <= %d)" % (4 if quick else 5),
                                  "compared_with": ["own automaton of A* f(u1) A* ... A*",
                                                    "DFA.from_nfa(make_nfa_for_pinword)"],
                                  "on": "all words of M (exact, product BFS)"}
    if want("history"):
        depth = 8 if quick else 12       # closure is reached at depth 4 / 5 (checked: else cap)
        models = [HBASES_QUICK] if quick else [HBASES_THOROUGH]
        for mi, hb in enumerate(models):
            tasks.append(("history", (mi, depth, 7, hb)))
        vmodels = [VBASES_QUICK] if quick else [VBASES_QUICK, VBASES_THOROUGH]
        for mi, hb in enumerate(vmodels):
            tasks.append(("history", (10 + mi, depth, 7, hb, "verdict")))
        ctx.bounds["history"] = {"max_depth": depth, "models": models,
                                 "verdict_models": {
                                     "bases": vmodels,
                                     "operations": "has_finite_pinperms(b), (b, use_db=True), "
                                                   "(b, dfa=given) for every basis; cache_clear"},
                                 "initial": "empty directory, empty caches",
                                 "operations": ["from_pinwords", "from_db", "has_finite_pinperms(use_db)",
                                                "cache_clear", "create_dfa_db_for_length(1|2)"],
                                 "new_states_per_depth": []}
    if want("forms"):
        fb = FORM_BASES_QUICK if quick else FORM_BASES_THOROUGH
        for i in sorted(range(len(fb)), key=lambda i: -sum(len(q) ** 3 for q in fb[i])):
            tasks.append(("forms", (i, fb[i])))
        ctx.bounds["forms"] = {"bases": fb, "forms": FORM_NAMES + ["of_length (where the basis is a whole S_n)"],
                               "entries": ["make_dfa_for_basis_from_pinwords", "make_dfa_for_basis_from_db",
                                           "make_dfa_for_basis (keyword, iter, set)", "make_dfa_for_basis(use_db)",
                                           "has_finite_pinperms default / use_db / dfa", "pinwords_for_basis"]}
    if want("fresh"):
        damage = os.environ.get("VERIF_C15_FRESH_TABLES") == "1"
        fr = [[(0, 1)], [(1, 0), (0, 1)], [(0, 2, 1), (1, 0, 2)]]
        for i, b in enumerate(fr):
            tasks.append(("fresh", (i, b, damage)))
        ctx.bounds["fresh"] = {"bases": fr, "damaged": "list returned by pinwords_for_basis"
                               + (" + tables returned by the *_mapping functions" if damage else ""),
                               "tables_flag": damage}
    if want("abort"):
        ops = ABORT_OPS_QUICK if quick else ABORT_OPS_THOROUGH
        nparts = 4
        for oi, op in enumerate(ops):
            for pi in range(nparts):
                tasks.append(("abort", (oi, op, pi, nparts)))
        tr = [(0, 1)] if quick else [(0,), (0, 1), (0, 2, 1)]
        for perm in tr:
            tasks.append(("truncate", (perm,)))
        ctx.bounds["abort"] = {"operations": [list(o) for o in ops], "read_back_bases": ABORT_READBACK,
                               "injection": "BaseException at every k-th call event of a permuta frame",
                               "truncated_files": tr}
    if want("conform"):
        # the few slow ones (patterns of length >= 5) first, the rest simplest first
        order = sorted(range(len(bases)),
                       key=lambda i: (max(len(p) for p in bases[i]) < 5 and len(bases[i]) < 5, i))
        for i in order:
            b = bases[i]
            k = max(len(p) for p in b)
            Lb = klen[max(k, 4)]
            full = quick and k <= 3 or not quick and (k <= 3 or len(b) == 1 and k <= 4
                                                      or len(b) >= 5 and k <= 4)
            light = quick and len(b) == 1 and k == 5 and b[0] not in S5_QUICK
            tasks.append(("basis", (i, b, Lb, deep if k <= 4 else 0, bool(full), light)))
        ctx.bounds["conform"] = {
            "bases": len(bases),
            "pool": "all single patterns of length 0..4; all pairs of length 1..3; pairs with a "
                    "pattern of length 4 and triples of length 2..3 (%s); 9 selected bases; all 120 "
                    "single patterns of length 5 (quick: 118 of them scratch route only)%s; pairs/triples whose first sorted element is not a pin "
                    "permutation; cardinality family: for every k in 5..%d the first k of S4 "
                    "(decreasing order) and the last k of S4 (increasing order)%s, and for k >= 7 "
                    "S3 + the first k-6 of S4 (non-minimal)%s"
                    % ("one per symmetry class" if quick else "all",
                       "" if quick else " and 6 (two of them not pin permutations)",
                       16 if quick else 24,
                       "" if quick else " each in both orders",
                       "" if quick else " in both orders; the first k of S5, k in 5..16; all pairs of the "
                                      "symmetry-class representatives of S5"),
            "word_lengths": "2..%d (patterns <= 4), 2..%d (length 5)%s" % (
                klen[4], klen[5], "" if quick else ", 2..%d (length 6)" % klen[6]),
            "deep_avoiding_word_length": deep,
            "routes": ["make_dfa_for_basis", "make_dfa_for_basis_from_pinwords",
                       "use_db fresh / from file / cached", "make_dfa_for_perm",
                       "own union of load_dfa_for_perm"],
        }
    hs = ht = 0
    if tasks:
        for res in ctx.pmap(shard_any, tasks):
            if res is not None and res[0] == "history":
                hs += res[1]
                ht += res[2]
                ctx.bounds["history"]["new_states_per_depth"].append(res[3])
                if res[3] and res[3][-1] != 0:
                    ctx.cap("history search stopped at depth %d before closure" % depth)
        if ctx.counters.get("history_state_cap_hit"):
            ctx.cap("history search stopped at 4000 states")
        # report the smallest case of every kind first
        ctx.viols.sort(key=lambda v: (len(json.dumps(v["case"].get("basis", v["case"]))),
                                      len(json.dumps(v["case"]))))
        if "abort" in ctx.bounds:
            ctx.bounds["abort"]["injection_points"] = ctx.counters.get("abort_points_total", 0)
            ctx.bounds["abort"]["truncation_points"] = ctx.counters.get("truncation_points", 0)
        ctx.section("automata", tasks=len(tasks), bases=len(bases) if want("conform") else 0,
                    history_states=hs, history_transitions=ht)

    ps = ctx.counters.get("product_states", 0) + states
    ctx.states = ps + hs + ctx.counters.get("dfa_states", 0)
    ctx.transitions = 4 * ps + ht + 4 * ctx.counters.get("dfa_states", 0)
    ctx.traces = ctx.counters.get("traces", 0) + ht


def shard_any(task):
    kind, payload = task
    if kind == "basis":
        return shard_basis(payload)
    if kind == "pinwords":
        return shard_pinwords(payload)
    if kind == "history":
        return shard_history(payload)
    if kind == "wordauto":
        return shard_wordauto(payload)
    if kind == "forms":
        return shard_forms(payload)
    if kind == "fresh":
        return shard_fresh(payload)
    if kind == "abort":
        return shard_abort(payload)
    if kind == "truncate":
        return shard_truncate(payload)
    raise ValueError(kind)


# --------------------------------------------------------------------------------------------

def replay(ctx, rec):
    global WORK, BASE_ATTRS
    WORK = ctx.work
    os.chdir(ctx.work)
    _PW()
    if BASE_ATTRS is None:
        BASE_ATTRS = _plain_attrs()      # a replay starts in a fresh interpreter: pristine
    sub, case = rec["sub"], rec["case"]
    if sub in ("conform", "equiv", "finite", "construct") and "basis" in case:
        basis = [tuple(p) for p in case["basis"]]
        L = case.get("L", 9)
        if sub == "conform":
            # the single recorded word, against the definition
            PW, Perm = _PW(), _P()
            w = case["word"]
            sem = sem_contains(basis, w)
            try:
                got = PW.make_dfa_for_basis([Perm(p) for p in basis]).accepts_input(w)
            except Exception as exc:  # noqa
                got = repr(exc)
            if got is not sem:
                ctx.violation("conform", case, {"expected_accept": sem, "got": got})
            return
        # equivalence / finiteness / construction: the table-free version of the whole block
        replay_basis(ctx, basis, L, case, sub)
    elif sub == "construct" and case.get("route") == "history-reference":
        try:
            DbHistory("replay", 2, case["bases"], case.get("model", "db"))
        except Exception as exc:  # noqa
            ctx.violation("construct", case, {"exception": repr(exc)})
    elif sub == "pinword" or (sub == "construct" and "pinword" in case):
        PW = _PW()
        u = case["pinword"]
        try:
            D = PW.make_dfa_for_pinword(u)
        except Exception as exc:  # noqa
            ctx.violation("construct", case, {"exception": repr(exc)})
            return
        w = case.get("word")
        if w is None:
            return
        try:
            got = D.accepts_input(w)
        except Exception as exc:  # noqa
            ctx.violation("construct", case, {"exception": repr(exc)})
            return
        if got and not F.contains(F.decode_m_word(w), F.decode_pinword(u)):
            ctx.violation("pinword", case, {"what": "accepted without containment"})
    elif sub == "mlang" or (sub == "construct" and case.get("route") == "make_dfa_for_m"):
        check_mlang(ctx)
    elif sub == "history":
        L = case.get("L", 7)
        _small_table(L)
        model = DbHistory("replay", L, case.get("bases", HBASES_QUICK), case.get("model", "db"))
        hist = tuple(tuple(op) for op in case["history"])
        for i in range(1, len(hist) + 1):
            model.snap = {(): model.snap[()]}
            _, viols = model.build(hist[:i])
            if viols:
                ctx.violation("history", case, viols[0])
                break
    elif sub == "wordauto":
        part = Partial()
        check_word_automaton(part, case["pinword"])
        for v in part.viols:
            if v["case"].get("against") == case.get("against"):
                ctx.violation("wordauto", case, v["detail"])
                break
    elif sub == "forms":
        part = Partial()
        check_forms(part, case["basis"], "replay", case["form"], case["entry"])
        for v in part.viols[:1]:
            ctx.violation(v["sub"], case, v["detail"])
    elif sub == "fresh":
        part = Partial()
        check_fresh(part, case["basis"], "replay", case.get("damage_tables", False))
        for v in part.viols:
            if v["case"].get("after") == case.get("after"):
                ctx.violation("fresh", case, v["detail"])
                break
    elif sub == "abort" or (sub == "construct" and case.get("route") == "abort-reference"):
        import signal
        import sys

        def on_alarm(signum, frame):
            raise TimeoutError("read-back did not finish within 30 s")

        old = signal.signal(signal.SIGALRM, on_alarm)
        hook = sys.unraisablehook
        sys.unraisablehook = lambda unraisable: None
        try:
            model = AbortModel("replay")
            if sub == "abort":
                op = (case["op"][0], case["op"][1], case["op"][2])
                model.one(ctx, op, case["abort_at_call"])
        except Exception as exc:  # noqa
            ctx.violation(sub, case, {"exception": repr(exc)})
        finally:
            signal.signal(signal.SIGALRM, old)
            sys.unraisablehook = hook
    elif sub == "truncate":
        PW, Perm = _PW(), _P()
        perm = tuple(case["perm"])
        d = fresh_dir("replay")
        _clear(PW.load_dfa_for_perm)
        ref = to_plain(PW.make_dfa_for_perm(Perm(perm)))
        PW.load_dfa_for_perm(Perm(perm))
        files = [os.path.join(r, n) for r, _, ns in os.walk(d) for n in ns]
        if "cut" in case and len(files) == 1:
            with open(files[0]) as fh:
                text = fh.read()
            # the text differs from run to run (state numbering): cut at the same fraction
            cut = min(len(text) - 1, case["cut"])
            check_truncated(ctx, perm, files[0], text, cut, ref)
        elif len(files) != 1:
            ctx.violation("truncate", case, {"files_after_one_load": len(files)})
    elif sub == "uncaught-library-exception" and "shard" in case:
        # a library exception that escaped every call-site handler: run that shard again
        kind, payload = case["shard"]
        part = Partial()
        try:
            if kind == "basis":
                _, basis, L, deep, full = payload[:5]
                check_basis(part, basis, L, "replay", "tree", deep, full,
                            light=bool(payload[5]) if len(payload) > 5 else False)
            elif kind == "pinwords":
                for u in payload[0]:
                    check_pinword(part, u, payload[1], use_table=False)
            elif kind == "history":
                _small_table(payload[2])
                shard_history(tuple(payload))
        except Exception as exc:  # noqa
            ctx.violation(sub, case, {"exception": repr(exc)})
        for v in part.viols[:1]:
            ctx.violation(sub, case, v["detail"])
    else:
        raise ValueError("unknown sub-check %r" % sub)


def _small_table(L):
    setup_bits([])
    KLEN.clear()
    KLEN.update({4: L})
    TABLE.clear()
    for w, (st, m) in table_prefixes(L).items():
        TABLE[w] = m
    for n in range(2, L + 1):
        WORDS[n] = F.m_words(n)


def replay_basis(ctx, basis, L, case, sub):
    """Table-free re-execution of the per-basis block (semantics from the avoiding tree only)."""
    part = Partial()
    check_basis(part, basis, L, "replay", "tree" if sub == "finite" else None,
                case.get("deep", 0), case.get("full", False),
                only_sub=sub if sub != "construct" else None, light=case.get("light", False))
    for v in part.viols:
        if v["sub"] == sub and (sub != "equiv" or v["case"].get("route") == case.get("route")):
            ctx.violation(v["sub"], case, v["detail"])
            break
